"""comps_dflt.py - T2 component of the dflt slice (coq/Implicit.v, coq/WithDefaults.v), property C07.

DfltModel: generated module (defaults, default leaf-lists, nested choices with default cases incl. choices nested in cases,
NP and presence containers, lists holding all of these; what Tree.v models, no when/must/unique - when: see WhenDefaults below) x trees built by a
PARSE_ONLY parse (no implicit nodes yet) and by edit histories (lyx commands freen / freepath / chgpath / newpath, and
a print with tagged defaults parsed back, which yields nodes that are new AND default) -> libyang (impl/lyx.c) runs
lyd_validate_all / lyd_new_implicit_all with the returned diff, dumps the tree (default and new flags) and the diff, and
prints the tree in the five with-defaults modes in XML AND in JSON -> the extracted model (validate_all / implicit_all /
wd_print_forest) must produce the identical dump, the same net change list and, per node INSTANCE in document order
(position-aware for leaf-lists and lists), the same printed nodes and default tags: the XML documents are read with expat
(attribute ncwd:default), the JSON documents with python's json (metadata objects "@name", the leaf-list metadata ARRAYS
with nulls of RFC 7952 5.2.2). Leaf-lists with several defaults often get explicit instances equal / not equal to default
values in every order (DfltInstGen). LYB is left out (it ignores the tag options: a C01 finding).

Two stages as in comps_tree.TreeIO: the tree BEFORE each validation is the model's input, so gen() runs the history once
on the implementation (stage 1) and stores the dump taken before every validation in the case line as a pseudo command
#t (lyx answers ?cmd to it). The model also reports, for every tree it validated, the executable hypotheses /
conclusions of the C07 theorems (Q line: normal form reached, change list replays, ...); the implementation side of the
comparison expects them to hold, so a tree libyang produces that breaks one shows up as a disagreement and witness()
names the property failure."""
import xml.parsers.expat

import treeenc
import yanggen
from lyxlib import (Script, results, rc, payload, PARSE_STRICT, PARSE_ONLY, VAL_PRESENT, PRINT_SIBLINGS, PRINT_SHRINK,
                    PRINT_KEEPEMPTY, WD_EXPLICIT, WD_TRIM, WD_ALL, WD_ALL_TAG, WD_IMPL_TAG, NEWPATH_UPDATE, IMPLICIT_NO_STATE, TEST_MODULES)
from props.comps import Comp
from props.comps_tree import stage1, pseudo
from props.oracles import xml_tree
import props.oracles as oracles_mod
from vlib import hexs

NCWD = "urn:ietf:params:xml:ns:yang:ietf-netconf-with-defaults default"


class DfltSchemaGen(yanggen.SchemaGen):
    """SchemaGen with more defaults, NP containers and (nested) choices with default cases"""

    def leaf(self, config=True, allow_mand=True):
        rng = self.rng
        t = yanggen.rand_type(rng, adversarial=False)
        default = None
        mand = False
        if rng.random() < 0.55 and not isinstance(t, yanggen.TEmpty):
            default = t.valid(rng)
        elif self.constraints and allow_mand and rng.random() < 0.08:
            mand = True
        return yanggen.SLeaf(self.nm("lf"), t, default=default, mandatory=mand, config=config)

    def leaflist(self, config=True):
        n = super().leaflist(config)
        if not n.defaults and not n.minel and self.rng.random() < 0.4:
            vals = []
            for _ in range(self.rng.randrange(1, 4)):
                v = n.type.valid(self.rng)
                if v not in vals:
                    vals.append(v)
            n.defaults = vals
            n.maxel = None
        return n

    def nodes(self, depth, config=True, count=None, in_case=False):
        rng = self.rng
        out = []
        for _ in range(count if count is not None else rng.randrange(2, 5)):
            r = rng.random()
            if r < 0.3 or depth <= 0:
                out.append(self.leaf(config, allow_mand=not in_case))
            elif r < 0.42:
                out.append(self.leaflist(config))
            elif r < 0.62:
                cfg = config and not (self.state and rng.random() < 0.15)
                out.append(yanggen.SContainer(self.nm("c"), self.nodes(depth - 1, cfg), presence=rng.random() < 0.3, config=cfg))
            elif r < 0.75:
                out.append(self.list(depth, config))
            else:
                out.append(self.choice(depth, config))
        return out

    def choice(self, depth, config=True):
        rng = self.rng
        cases = []
        r = rng.random()
        want_default = r < 0.55
        mand = (not want_default) and self.constraints and r < 0.65
        saved = self.constraints
        if want_default:
            self.constraints = False
        for _ in range(rng.randrange(2, 4)):
            cases.append((self.nm("cs"), self.nodes(depth - 1, config, count=rng.randrange(1, 3), in_case=True)))
        self.constraints = saved
        default = rng.choice(cases)[0] if want_default else None
        return yanggen.SChoice(self.nm("ch"), cases, default=default, mandatory=mand)


class DChoice(yanggen.SChoice):
    """SChoice that writes the cases named in .shorthand as shorthand cases (YANG 7.9.2: the single node stands for a case
    of its own name; the compiled module is the same)"""
    shorthand = ()

    def yang(self, ind, cfg_parent=True):
        s = "%schoice %s {" % (ind, self.name)
        if self.default:
            s += " default %s;" % self.default
        if self.mandatory:
            s += " mandatory true;"
        s += self.common() + "\n"
        for cn, ns in self.cases:
            if cn in self.shorthand:
                s += ns[0].yang(ind + "  ", cfg_parent)
                continue
            s += "%s  case %s {\n" % (ind, cn)
            for c in ns:
                s += c.yang(ind + "    ", cfg_parent)
            s += "%s  }\n" % ind
        return s + ind + "}\n"


class DeepChoiceGen(DfltSchemaGen):
    """DfltSchemaGen that adds one DEEP choice (3-4 levels: choice -> case -> choice -> case -> ... -> leaf) whose cases on
    the way hold, next to the nested choice, a default leaf, an NP container holding a default leaf and / or a default
    leaf-list - the nodes lyd_new_implicit must create for the case of EVERY enclosing choice when the only explicit data
    sit in the innermost case (the walk scase->parent != snode in lyd_new_implicit). Some cases are shorthand cases.
    .deep_inner is the innermost leaf, .deep_outer the ids of all other nodes of the structure (their instances are
    removed from the generated trees)."""

    def dleaf(self, config):
        for _ in range(20):
            lf = self.leaf(config, allow_mand=False)
            if isinstance(lf.type, yanggen.TEmpty):
                continue
            if lf.default is None:
                lf.default = lf.type.valid(self.rng)
            lf.mandatory = False
            return lf
        raise RuntimeError("no leaf")

    def plain(self, config):
        lf = self.leaf(config, allow_mand=False)
        lf.default, lf.mandatory = None, False
        return lf

    def deep(self, levels, config=True):
        rng = self.rng
        outer = []
        inner = self.plain(config)
        node = inner
        for lv in range(levels):
            # the case on the path: implicit nodes around the nested choice / innermost leaf
            members = [node]
            extra = []
            if rng.random() < 0.8:
                extra.append(self.dleaf(config))
            if rng.random() < 0.6:
                extra.append(yanggen.SContainer(self.nm("c"), [self.dleaf(config)] + ([self.plain(config)] if rng.random() < 0.4 else []),
                                                presence=False, config=config))
            if rng.random() < 0.3:
                ll = self.leaflist(config)
                if ll.defaults and not ll.minel:
                    extra.append(ll)
            if not extra:
                extra.append(self.dleaf(config))
            for x in extra:
                members.insert(rng.randrange(len(members) + 1), x)
            cases = [(self.nm("cs"), members)]
            short = []
            for _ in range(rng.randrange(1, 3)):
                other = self.plain(config) if rng.random() < 0.6 else self.dleaf(config)
                if rng.random() < 0.5:
                    cases.append((other.name, [other]))
                    short.append(other.name)
                else:
                    cases.append((self.nm("cs"), [other]))
                extra.append(other)
            rng.shuffle(cases)
            r = rng.random()
            default = None if r < 0.5 else (cases[0][0] if r < 0.75 else [c for c in cases if c[1] is members][0][0])
            ch = DChoice(self.nm("ch"), cases, default=default)
            ch.shorthand = tuple(short)
            for x in extra:
                outer.append(x)
                if x.kind == "container":
                    outer += x.children
            node = ch
        self.deep_inner, self.deep_outer = inner, {id(x) for x in outer}
        return node

    def module(self, name="m1", depth=3):
        rng = self.rng
        nodes = self.nodes(depth - 1, count=rng.randrange(1, 4))
        levels = rng.choice([3, 3, 4])
        r = rng.random()
        if r < 0.5:
            nodes.insert(rng.randrange(len(nodes) + 1), self.deep(levels))
        elif r < 0.8:
            nodes.insert(rng.randrange(len(nodes) + 1), yanggen.SContainer(self.nm("c"), [self.plain(True), self.deep(levels)],
                                                                       presence=rng.random() < 0.5))
        else:
            lst = self.list(1, True)
            ch = self.deep(levels, lst.config)
            lst.children.append(ch)
            ch.parent = lst
            nodes.insert(rng.randrange(len(nodes) + 1), lst)
        return yanggen.Module(name, nodes, annotations=["note"])


def deep_forest(rng, g, ig, m):
    """a tree of module m (DeepChoiceGen g) in which the only explicit data of the deep choice is its innermost leaf"""
    def prune(ns, under):
        out = []
        for n in ns:
            if id(n.schema) in g.deep_outer or n.schema is g.deep_inner:
                continue
            n.children = prune(n.children, n.schema)
            out.append(n)
        return out

    def holder(s):
        p = s.parent
        while p is not None and p.kind == "choice":
            p = p.parent
        return p

    f = prune(ig.forest(m, config_only=False), None)
    if rng.random() < 0.85:
        h = holder(g.deep_inner)
        inst = ig.term(g.deep_inner)
        if h is None:
            f.append(inst)
        else:
            tops = [n for n, _, _ in yanggen.walk(f) if n.schema is h]
            if not tops and h.parent is None and h.kind == "container":
                tops = [yanggen.DNode(h, children=[])]
                f.append(tops[0])
            for t in tops:
                t.children.append(ig.term(g.deep_inner))
    return f


class DfltInstGen(yanggen.InstGen):
    """InstGen whose leaf-lists with schema defaults often mix explicit instances equal to a default value with others, in
    every order for user-ordered / state leaf-lists (report-all-tagged must tag exactly the default-valued instances)"""

    def instances(self, n, depth, forced=False):
        rng = self.rng
        if n.kind == "leaf-list" and n.defaults and not n.minel and rng.random() < 0.6:
            pool = list(n.defaults) + [n.type.valid(rng) for _ in range(3)]
            hi = n.maxel if n.maxel is not None else 5
            vals = []
            for _ in range(rng.randint(1, max(1, min(hi, 5)))):
                v = rng.choice(pool)
                if n.config and v in vals:
                    continue
                vals.append(v)
            if not n.userord and n.config:
                vals = sorted(vals, key=n.type.sort_key)
            return [self.term(n, v) for v in vals]
        return super().instances(n, depth, forced)


def dflt_case(rng, deep=False, **kw):
    """(module, instance generator): what Tree.v models, no unique statements; deep: (module, generator, schema generator)
    of a module with a deep choice (DeepChoiceGen)"""
    for _ in range(50):
        g = (DeepChoiceGen if deep else DfltSchemaGen)(rng, adversarial=False, key_filter=treeenc.key_type_ok, **kw)
        m = g.module()
        for n in m.all_nodes():
            if n.kind == "list":
                n.unique = None
        if treeenc.supported(m):
            return (m, DfltInstGen(rng, meta_prob=0.0), g) if deep else (m, DfltInstGen(rng, meta_prob=0.0))
    raise RuntimeError("no supported module generated")


def quote(v):
    return "'%s'" % v if "'" not in v else '"%s"' % v


def rand_path(rng, m, f=None):
    """(path, schema node) of a random data node position: keys of lists on the way get valid values, preferably those of
    an instance in f"""
    nodes, path, cur = m.nodes, "", f or []
    last = None
    for _ in range(6):
        flat = [n for n, _ in yanggen.flatten_children(nodes) if not (n.kind == "leaf" and n.is_key)]
        if not flat:
            break
        n = rng.choice(flat)
        path += "/" + ("m1:" if not path else "") + n.name
        insts = [d for d in cur if d.schema is n]
        inst = rng.choice(insts) if insts and rng.random() < 0.8 else None
        if n.kind == "list":
            for k in n.keys:
                kl = [c for c in n.children if c.name == k][0]
                v = None
                if inst is not None:
                    v = [c.value for c in inst.children if c.schema is kl][0]
                if v is None:
                    v = kl.type.valid(rng)
                if "'" in v and '"' in v:
                    return None, None
                path += "[%s=%s]" % (k, quote(v))
            if not n.keys:
                path += "[1]"
        last = n
        if n.kind in ("container", "list") and rng.random() < 0.75:
            nodes = n.children
            cur = inst.children if inst is not None else []
            continue
        break
    return path, last


PRINT_MODES = (WD_EXPLICIT, WD_TRIM, WD_ALL, WD_ALL_TAG, WD_IMPL_TAG)


class ValidateIdemC07(oracles_mod.ValidateIdem):
    """the API oracle of C07 (tools/props/oracles.py) with the vdiff-np-container classification also recognising the case
    in which the tree after validation is EMPTY (the auto-deleted default container was the only node left)"""

    @staticmethod
    def only_np_diff(a, b):
        sa = [x for x in a.split(";") if x and x != "empty" and ":i:" not in x]
        sb = [x for x in b.split(";") if x and x != "empty" and ":i:" not in x]
        return sa == sb

    def judge(self, line, out):
        j = super().judge(line, out)
        if not j or j[0] is not None or "(round " not in j[1]:
            return j
        # two more symptoms of listed findings, seen through the API: locate the round the oracle complains about
        r = results(out)
        cmds = line.split("\t")[1:]
        rnd = int(j[1].split("(round ")[1].split(")")[0])
        ks = [k for k, c in enumerate(cmds) if c.startswith("dup t0 t1")]
        if rnd > len(ks) or ks[rnd - 1] + 6 >= len(r):
            return j
        k = ks[rnd - 1]
        if "second validation changed the tree" in j[1] and r[k + 4].startswith("3/"):
            return ("vdiff-np-recreate", j[1] + ": the second validation returns LY_EINVAL while building its diff")
        if "non-empty change set" in j[1]:
            segs = [x for x in r[k + 6].split(";") if x]
            if segs and all(":i:" in x for x in segs):
                # an empty default NP container is auto-deleted (not recorded) and created again (recorded)
                return ("vdiff-np-container", j[1] + ": only (re)creations of non-presence containers: " + r[k + 6][:200])
        return j


class DfltModel(Comp):
    """lyd_validate_all / lyd_new_implicit_all (tree, flags, diff) and the with-defaults print modes vs Implicit.v /
    WithDefaults.v on PARSE_ONLY trees and edit histories"""
    name = "dfltmodel"
    driver = "lyx"
    slice = "dflt"

    def gen(self, rng, tier, scale=1.0):
        pre = []
        for i in range(self.n(tier, 1200, 40000, scale)):
            deep = i % 4 == 1               # a deep choice with implicit nodes in every case on the way, data only innermost
            if deep:
                m, ig, sg = dflt_case(rng, deep=True, userord=(i % 3 == 0), state=(i % 2 == 0), constraints=False)
            else:
                m, ig = dflt_case(rng, userord=(i % 3 == 0), state=(i % 2 == 0), constraints=(i % 4 != 3))
            if i % 5 == 0:
                ig.edp = 0.8                # many explicit nodes that carry the default value
            f = deep_forest(rng, sg, ig, m) if deep else ig.forest(m, config_only=False)
            if i % 9 == 0:
                f = []                       # empty tree: only lyd_new_implicit_all does something
            s = Script()
            s.ctx(searchdir=TEST_MODULES, opts=0x04 if i % 2 else 0)     # CTX_NO_YANGLIBRARY: no ietf-yang-library state data
            s.mod(m.yang())
            s.load("ietf-netconf-with-defaults")
            s.parse(0, "x", yanggen.to_xml(f), popts=PARSE_STRICT | PARSE_ONLY, vopts=0)
            # a key-less list makes lyd_val_diff_add assert (known finding vdiff-dupinst): such modules are validated
            # without asking for the diff (tree and flags are still compared)
            dslot = [] if any(n.kind == "list" and not n.keys for n in m.all_nodes()) else ["t2"]
            marks = []                       # indices of the dumps taken before a validation
            for rnd in range(rng.choice([1, 2, 3, 3])):
                marks.append(s.dump(0, 1))
                if rnd == 0 and i % 2 and rng.random() < 0.35:
                    s.add("implicit", "t0", "c0", IMPLICIT_NO_STATE, *dslot)
                else:
                    s.add("val", "t0", "c0", VAL_PRESENT, *dslot)
                s.dump(0, 1)
                s.dump(2)
                ke = PRINT_KEEPEMPTY if rng.random() < 0.3 else 0
                for mode in PRINT_MODES:
                    s.print(0, "x", PRINT_SIBLINGS | PRINT_SHRINK | ke | mode)
                for mode in PRINT_MODES:
                    s.print(0, "j", PRINT_SIBLINGS | PRINT_SHRINK | ke | mode)
                # edits for the next round
                r = rng.random()
                if r < 0.12:
                    # print with tagged defaults and parse back without validation: nodes that are new and default
                    s.add("rt", "t0", "t0", "x", PRINT_SIBLINGS | rng.choice([WD_ALL_TAG, WD_IMPL_TAG]), PARSE_STRICT | PARSE_ONLY, 0)
                if rng.random() < 0.2:
                    # what a datastore does: the difference to another valid instance is applied without validation; the
                    # created explicit nodes sit next to the default instances until the next validation removes those
                    f2 = yanggen.cross(rng, f, ig.forest(m, config_only=False), m.nodes) if rng.random() < 0.7 else ig.forest(m, config_only=False)
                    s.parse(1, "x", yanggen.to_xml(f2))
                    s.add("ifok", "diff", "t0", "t1", 0, "t3")
                    s.add("ifok", "apply", "t0", "t3")
                if rng.random() < 0.15:
                    # move a subtree: unlink it and insert it back with the public lyd_insert_sibling / _child (the
                    # inserted node is flagged new since 06232b2, so validation looks at it again)
                    s.add("unlink", "t0#%d" % rng.randrange(0, 30), "t6")
                    if rng.random() < 0.6:
                        s.add("ifok", "ins", "sibling", "t0", "t6")
                    else:
                        s.add("ifok", "ins", "child", "t0#%d" % rng.randrange(0, 30), "t6")
                for _ in range(rng.randrange(1, 5)):
                    r = rng.random()
                    if r < 0.35:
                        s.add("freen", "t0#%d" % rng.randrange(0, 40))
                    else:
                        p, sn = rand_path(rng, m, f)
                        if not p:
                            continue
                        if r < 0.5:
                            s.add("freepath", "t0", hexs(p))
                        elif sn.kind in ("leaf", "leaf-list"):
                            if sn.kind == "leaf" and sn.default is not None and rng.random() < 0.4:
                                v = sn.default
                            elif sn.kind == "leaf-list" and sn.defaults and rng.random() < 0.4:
                                v = rng.choice(sn.defaults)
                            else:
                                v = sn.type.valid(rng)
                            if sn.kind == "leaf-list":
                                if "'" in v and '"' in v:
                                    continue
                                p += "[.=%s]" % quote(v)
                            if sn.kind == "leaf" and r < 0.65:
                                s.add("chgpath", "t0", hexs(p), hexs(v) if v else "-")
                            else:
                                s.add("newpath", "t0", "c0", NEWPATH_UPDATE if rng.random() < 0.5 else 0, hexs(p), hexs(v) if v else "-")
                        else:
                            s.add("newpath", "t0", "c0", 0, hexs(p), "~")
            pre.append((m, s, marks))
        outs = stage1([s.line() for _, s, _ in pre])
        # a crash: it may come after a FAILED validation (no guarantees for such a tree, the history ends there); find
        # the first validation that fails or crashes by running the prefixes that end after each validation
        for i, ((m, s, marks), out) in enumerate(zip(pre, outs)):
            if not (out.startswith("CRASH(") or out == "TIMEOUT"):
                continue
            ends = [k for k, c in enumerate(s.cmds) if c.startswith("val ") or c.startswith("implicit ")]
            pouts = stage1(["lyx\t" + "\t".join(s.cmds[:k + 1]) for k in ends])
            for k, po in zip(ends, pouts):
                if po.startswith("CRASH(") or po == "TIMEOUT":
                    s.cmds = s.cmds[:k + 1]          # the validation itself crashes: keep it, T2 reports it
                    break
                if rc(results(po)[k]) != 0:
                    s.cmds = s.cmds[:k + 1]          # ends with a failing validation
                    outs[i] = po
                    break
        L = []
        for (m, s, marks), out in zip(pre, outs):
            r = results(out)
            if out.startswith("CRASH(") or out == "TIMEOUT" or len(r) < len(s.cmds):
                cmds = [pseudo("s", treeenc.schema_line(m)), pseudo("n", treeenc.name_table(m))] + s.cmds
                L.append("dfltm\t" + "\t".join(cmds))
                continue
            if r[1] != "0" or rc(r[3]) != 0:
                continue                    # module or instance rejected: not a case for this component
            cmds = [pseudo("s", treeenc.schema_line(m)), pseudo("n", treeenc.name_table(m))]
            for k, c in enumerate(s.cmds):
                cmds.append(c)
                if k in marks:
                    cmds.append(pseudo("t", self.only_m1(r[k])))
                if (c.startswith("val ") or c.startswith("implicit ")) and rc(r[k]) != 0:
                    break                   # the history ends with the first failing validation
            L.append("dfltm\t" + "\t".join(cmds))
        return L

    # ---- reading the implementation's answer -------------------------------------------------------------
    @staticmethod
    def tables(line):
        """(kind by (parent, name), keys by (parent,name)) from the #s / #n pseudo commands"""
        sch, names = None, None
        for c in line.split("\t"):
            if c.startswith("#s "):
                sch = c[3:]
            elif c.startswith("#n "):
                names = c[3:]
        ent = {}
        for e in sch.split(";"):
            if e:
                p = e.split(",")
                ent[int(p[0])] = (p[1], None if p[2] == "-" else int(p[2]), [] if p[5] == "-" else [int(x) for x in p[5].split("+")])
        nm = {}
        for e in names.split(";"):
            if e:
                p = e.split(",")
                nm[int(p[0])] = p[3]
        by = {}
        for sid, (kind, parent, keys) in ent.items():
            by[(parent, nm[sid])] = (sid, kind, [nm[k] for k in keys])
        return by

    @staticmethod
    def only_m1(dump):
        """drop the top-level trees of other modules (lyd_new_implicit_all also creates the state containers of the
        internal modules ietf-yang-library / ietf-yang-schema-mount)"""
        if dump in ("empty", ""):
            return dump
        out, keep = [], True
        for sg in dump.split(";"):
            if not sg:
                continue
            p = sg.split(":", 2)
            if p[0] == "0":
                keep = p[1] == "m1"
            if keep:
                out.append(sg)
        return ";".join(out) + ";" if out else "empty"

    @classmethod
    def flatten_diff(cls, line, dump):
        """net change lines of a libyang diff tree dump: every node whose operation (own or inherited) is create/delete"""
        dump = cls.only_m1(dump)
        if dump in ("empty", ""):
            return "none"
        by = cls.tables(line)
        segs = [x for x in dump.split(";") if x]
        ents = []
        for sg in segs:
            p = sg.split(":")
            op = None
            for j in range(5, len(p) - 1):
                if p[j] == "@yang" and p[j + 1].startswith("operation="):
                    op = bytes.fromhex(p[j + 1][len("operation="):]).decode()
                if p[j] == "@yang" and p[j + 1].startswith("orig-default=") and op == "none":
                    op = "flag"
            ents.append((int(p[0]), p[2], p[3], p[4], op))
        out = []
        stack = []          # (sid, segment text, op)
        for idx, (depth, name, val, flags, op) in enumerate(ents):
            stack = stack[:depth]
            parent = stack[-1][0] if stack else None
            sid, kind, keys = by[(parent, name)]
            seg = name
            if kind == "k" and keys:
                kv = {}
                for (d2, n2, v2, _, _) in ents[idx + 1:]:
                    if d2 <= depth:
                        break
                    if d2 == depth + 1 and n2 in keys and n2 not in kv:
                        kv[n2] = v2[1:] if v2 != "=" else "-"
                seg += "[" + ",".join(kv.get(k, "?") for k in keys) + "]"
            eff = op if op else (stack[-1][2] if stack else None)
            if eff in ("flag", "replace") and not op:
                eff = "none"                  # not inherited
            stack.append((sid, seg, eff))
            if eff in ("create", "delete", "flag", "replace"):
                out.append("%s %s%s:%s" % (eff[0], "/".join(x[1] for x in stack), val, "d" if "d" in flags else ""))
            elif eff not in (None, "none"):
                out.append("%s %s%s:%s" % (eff, "/".join(x[1] for x in stack), val, "d" if "d" in flags else ""))
        return ";".join(sorted(out)) if out else "none"

    @staticmethod
    def printed(xmlbytes):
        try:
            t = xml_tree(xmlbytes)
        except xml.parsers.expat.ExpatError:
            return "unparsable"
        out = []

        def rec(ns, depth):
            for n in ns:
                if depth == 0 and n[0] != "urn:verif:m1":
                    continue
                tagged = any(a == NCWD and v == "true" for a, v in n[3])
                txt = "-" if n[4] or not n[2] else hexs(n[2])
                out.append("%d:%s:%s:%s;" % (depth, n[1], txt, "t" if tagged else ""))
                rec(n[4], depth + 1)
        rec(t, 0)
        return "".join(out) if out else "nothing"

    @classmethod
    def printed_json(cls, line, jsonbytes):
        """the same rendering from a JSON document (RFC 7951 / RFC 7952): one entry per node INSTANCE in document order,
        the default tag taken from the metadata object "@name" of a leaf, from the i-th element of the metadata ARRAY
        "@name" (null = no metadata) of the i-th leaf-list instance; read with python's json, member order kept"""
        import json
        txt = jsonbytes.decode("utf-8", "replace")
        if not txt.strip():
            return "nothing"
        try:
            doc = json.loads(txt, object_pairs_hook=list)
        except ValueError:
            return "unparsable"
        by = cls.tables(line)
        out = []

        def canon(v):
            if v is True:
                return "true"
            if v is False:
                return "false"
            if isinstance(v, list):          # [null]: type empty
                return ""
            return str(v)

        def is_tagged(meta):
            return isinstance(meta, list) and any(k == "ietf-netconf-with-defaults:default" and v is True for k, v in meta)

        def rec(pairs, parent, depth):
            metas = {k[1:]: v for k, v in pairs if k.startswith("@") and k != "@"}
            for name, val in pairs:
                if name.startswith("@"):
                    continue
                local = name
                if ":" in name:
                    mod, local = name.split(":", 1)
                    if mod != "m1":
                        continue
                ent = by.get((parent, local))
                if ent is None:
                    out.append("unknown-member:%s;" % name)
                    continue
                sid, kind, keys = ent
                meta = metas.get(name)
                if kind == "l":
                    v = canon(val)
                    out.append("%d:%s:%s:%s;" % (depth, local, hexs(v) if v else "-", "t" if is_tagged(meta) else ""))
                elif kind == "L":
                    for i, x in enumerate(val):
                        v = canon(x)
                        mi = meta[i] if isinstance(meta, list) and i < len(meta) else None
                        # a metadata ARRAY is a list of (objects as pair lists | None); a pair list is a tagged object
                        out.append("%d:%s:%s:%s;" % (depth, local, hexs(v) if v else "-", "t" if is_tagged(mi) else ""))
                    if isinstance(meta, list) and len(meta) > len(val):
                        out.append("meta-array-longer-than-leaf-list:%s;" % name)
                elif kind == "k":
                    for inst in val:
                        out.append("%d:%s:-:;" % (depth, local))
                        rec(inst, sid, depth + 1)
                else:
                    out.append("%d:%s:-:;" % (depth, local))
                    if isinstance(val, list):
                        rec(val, sid, depth + 1)
        rec(doc, None, 0)
        return "".join(out) if out else "nothing"

    def impl_parts(self, line, out, raw=False):
        r = results(out)
        cmds = line.split("\t")[1:]
        parts = []
        k = 0
        while k < len(cmds) and k < len(r):
            c = cmds[k]
            if c.startswith("#t "):
                parts.append("T " + self.only_m1(r[k - 1]))
            elif c.startswith("val ") or c.startswith("implicit "):
                tag = "V" if c[0] == "v" else "I"
                if rc(r[k]) != 0:
                    # an error (for the comparison any error; raw: with the code unless it is LY_EVALID = 7: on data the
                    # model rejects too, which error comes first does not matter)
                    parts.append(tag + "E" + ("" if (rc(r[k]) == 7 or not raw) else str(rc(r[k]))))
                    break
                if k + 2 < len(r):
                    parts.append("%s0 %s # %s" % (tag, self.only_m1(r[k + 1]),
                                                  self.flatten_diff(line, r[k + 2]) if len(c.split(" ")) > 4 else "-"))
                    if tag == "V":
                        parts.append("Q")
            elif c.startswith("print t0 x "):
                parts.append("P%s %s" % (c.split(" ")[3], self.printed(payload(r[k])) if rc(r[k]) == 0 else "print-failed"))
            elif c.startswith("print t0 j "):
                parts.append("PJ%s %s" % (c.split(" ")[3], self.printed_json(line, payload(r[k])) if rc(r[k]) == 0 else "print-failed"))
            k += 1
        return parts

    def norm(self, line, out):
        if " | end:" in out:
            return " | ".join(self.impl_parts(line, out))
        # model: the Q lines (theorem hypotheses / conclusions on this tree) are compared as a whole: all must hold;
        # so must the hypothesis / conclusion of the with-defaults theorem on every printed tree
        parts = []
        for p in out.split(" | "):
            if p.startswith("Q "):
                parts.append("Q" if self.q_ok(p) else p)
            elif p.startswith("P") and " W=" in p and p.endswith(" R=1"):
                parts.append(p.split(" W=")[0])       # the printed set is the RFC 6243 one
            else:
                parts.append(p)
        return " | ".join(parts)

    @staticmethod
    def q_ok(part):
        if not part.startswith("Q "):
            return False
        kv = dict(x.split("=", 1) for x in part[2:].split(" "))
        return kv["N"] == "1" and kv["A"] == "1" and kv["F"] == "1" and kv["C"] == "1" and kv["K"] == "1" and kv["D"] == "1"

    def witness(self, line, model_out, impl_out):
        """does the PROPERTY fail on the implementation for this case (not only the correspondence)?"""
        by = self.tables(line) if "#s " in line else {}
        dupinst = False
        for c in line.split("\t"):
            if c.startswith("#s "):
                for e in c[3:].split(";"):
                    p = e.split(",")
                    if len(p) > 5 and ((p[1] == "k" and p[5] == "-") or (p[1] == "L" and "s" in p[3])):
                        dupinst = True
        if impl_out.startswith("CRASH(") or impl_out == "TIMEOUT":
            if dupinst:
                return ("vdiff-dupinst", "crash while building the validation diff of a duplicate-instance list: " + impl_out[:80])
            return (None, "crash: " + impl_out)
        a = self.norm(line, model_out).split(" | ")
        b = self.impl_parts(line, impl_out, raw=True) if " | end:" in impl_out else self.norm(line, impl_out).split(" | ")
        for i, (x, y) in enumerate(zip(a, b)):
            if x == y:
                continue
            if x.startswith("Q ") and y == "Q":
                # the model agrees with libyang on the tree; a hypothesis / conclusion of the C07 theorems fails on it
                kv = dict(z.split("=", 1) for z in x[2:].split(" "))
                if kv["C"] != "1":
                    return (None, "the tree handed to validation is not in canonical order")
                if kv["F"] != "1":
                    return (None, "a non-presence container's default flag disagrees with its children before validation "
                                  "(lyd_np_cont_dflt_del / _set not applied by an edit)")
                if kv["N"] != "1" and kv.get("H") == "1":
                    # the hypothesis of C07_implicit_exact_edited_partial holds for the input: the model itself would
                    # contradict the theorem (cannot happen) - never a known finding
                    return (None, "edited input (Implicit.editedb) but the validated tree is not the normal form: " + x)
                if kv["N"] != "1":
                    why = set(kv["N"].split(":", 1)[1].split(","))
                    t = None
                    if why == {"llpartial"}:
                        t = "dflt-leaflist-partial"
                    return (t, "the validated tree is not the normal form of its explicit content (%s): %s"
                            % (",".join(sorted(why)), a[i - 1][:300]))
                if kv["A"] != "1":
                    # replaying the change list together with the unrecorded NP container deletions gives the tree after
                    t = "vdiff-np-container" if (kv["AS"] == "1" and kv["S"] != "") else None
                    return (t, "the change set applied to the tree before validation does not give the tree after (%s)" % kv["S"])
                return None
            if x.startswith("P") and " W=" in x and x.split(" W=")[0] == y:
                w = x.split(" W=")[1]
                why = set(w.split(" ")[0].split(":", 1)[1].split(",")) if w.startswith("0:") else set()
                if why == {"ll"}:
                    return ("wd-leaflist-partial-default", "with-defaults mode %s: the printed node set is not the one RFC 6243 "
                            "defines (an explicit leaf-list instance equals one default value): %s" % (x.split(" ")[0], x[:200]))
                return (None, "with-defaults printing: flags inconsistent or node set differs from RFC 6243 (%s)" % w)
            raw = model_out.split(" | ")
            if x.startswith("V0") and y.startswith("VE3") and " # " in x:
                # LY_EINVAL while building the diff: changes of duplicate-instance (leaf-)list instances (addressed by
                # position) cannot be merged ("Unable to merge operation delete with delete")
                dnames = self.dupinst_names(line)
                hit = [d for d in x.split(" # ")[1].split(";")
                       if any(("/" + sg).split("[")[0].split("=")[0].endswith("/" + nm) for sg in d.split(" ", 1)[-1].split("/") for nm in dnames)]
                if hit:
                    return ("vdiff-dupinst", "lyd_validate_all(.., &diff) returns LY_EINVAL: the change set holds changes of "
                                             "duplicate-instance list instances: %s" % hit[:3])
            if x.startswith("V0") and y.startswith("VE3") and i + 1 < len(raw) and raw[i + 1].startswith("Q ") and \
                    raw[i + 1].split(" S=")[1] != "":
                return ("vdiff-np-recreate", "lyd_validate_all(.., &diff) returns LY_EINVAL on valid data: a default NP container "
                                             "is auto-deleted (not recorded) and its path is used again by the same validation (%s)"
                        % raw[i + 1].split(" S=")[1])
            if x[:2] == "PJ" and y[:2] == "PJ" and x.split(" ")[0] == y.split(" ")[0]:
                # the XML output of the same tree with the same options agrees with the model: the two serialisations of
                # libyang disagree on which node instances are printed / carry the default tag
                xo = "P" + x.split(" ")[0][2:]
                xml_i = [z for z in b if z.split(" ")[0] == xo]
                if xml_i and xml_i[0].split(" ", 1)[1] != y.split(" ", 1)[1]:
                    return (None, "with-defaults print (options %s): the JSON document and the XML document of the same tree differ "
                                  "in the printed node instances / default tags: JSON %s, XML %s" % (xo[1:], y[:300], xml_i[0][:300]))
            if x[:1] == "P" and y[:1] == "P" and x.split(" ")[0] == y.split(" ")[0] and " R=1" in x:
                # the model's selection is the RFC 6243 view (R=1) and libyang printed something else
                return (None, "with-defaults print (%s, options %s): the printed node instances / default tags differ from the "
                              "RFC 6243 view of the tree: printed %s, RFC %s"
                        % ("JSON" if x[1] == "J" else "XML", x.split(" ")[0].lstrip("PJ"), y[:300], x[:300]))
            if x[:2] == "V0" and y[:2] == "V0" and x.split(" # ")[0] != y.split(" # ")[0]:
                # another tree than the model's: is libyang's tree the normal form?
                q = self.model_q(line, y.split(" # ")[0][3:])
                if q and "N=0" in q:
                    return (None, "the tree validation produced is not the normal form of its explicit content (%s): %s"
                            % (q, y[:300]))
                if q and ("C=0" in q or "D=0" in q):
                    return (None, "the tree validation produced is not canonical / holds an unsound default flag (%s)" % q)
                return None
            if x[:2] in ("V0", "I0") and y[:2] == x[:2] and x.split(" # ")[0] == y.split(" # ")[0]:
                # same tree, another change list
                from collections import Counter
                cx, cy = Counter(x.split(" # ")[1].split(";")), Counter(y.split(" # ")[1].split(";"))
                dx = set((cx - cy) + (cy - cx))
                dnames = self.dupinst_names(line)
                if dx and all(any(("/" + sg).split("[")[0].split("=")[0].endswith("/" + nm) for sg in d.split(" ", 1)[-1].split("/")
                                  for nm in dnames) for d in dx):
                    return ("vdiff-dupinst", "the validation diff lacks / misplaces changes inside a duplicate-instance list: %s"
                            % sorted(dx)[:3])
                return (None, "the returned change set differs from the changes validation made: %s" % sorted(dx)[:4])
            return None
        return None

    @staticmethod
    def model_q(line, dump):
        """run the model's checks (#q) on a tree libyang produced"""
        import vlib
        cmds = [c for c in line.split("\t")[1:] if c.startswith("#s ") or c.startswith("#n ")]
        try:
            outs, _ = vlib.run_cases(vlib.build_model("dflt"), ["dfltm\t" + "\t".join(cmds + ["#t " + dump, "#q"])], timeout=60)
        except Exception:
            return None
        parts = outs[0].split(" | ") if outs else []
        return parts[-1] if parts and parts[-1].startswith("Q ") else None

    @classmethod
    def dupinst_names(cls, line):
        out = []
        for (parent, name), (sid, kind, keys) in cls.tables(line).items():
            if kind == "k" and not keys:
                out.append(name)
        for c in line.split("\t"):
            if c.startswith("#s "):
                nm = {v[0]: k[1] for k, v in cls.tables(line).items()}
                for e in c[3:].split(";"):
                    p = e.split(",")
                    if len(p) > 5 and p[1] == "L" and "s" in p[3]:
                        out.append(nm[int(p[0])])
        return out


# ---------------------------------------------------------------------------------------------------------------------
# when: defaults exist exactly where the `when` conditions hold (oracle level: the reference is the Python class WhenRef,
# the Coq model has no `when`)

class WhenRef:
    """One member of a family of modules whose default-carrying nodes are conditional, and an independent reference for
    what a validation of an edited tree of it must give.

    container box holds the controlling leaves sw / x / ll and, each with an optional `when` over them ("../sw = 'on'",
    "count(../ll) > 1", "not(../x)"): a default leaf dl, a leaf dep whose `when` reads dl (itself conditional), an NP
    container, a presence container, a leaf-list with defaults, a list with a default leaf, a choice (when on the choice,
    on its default case, on its other case, on a choice nested in the default case; the leaves INHERIT those), a uses and
    an augment (when inherited by their leaves); at the top level a leaf tdl conditional on the top-level leaf tsw.

    The reference evaluates the conditions itself on its own record of the explicit content (RFC 7950 7.21.5, 7.6.1,
    7.9.3): the result of a validation is the explicit content plus the defaults of the schema nodes whose when (own and
    inherited) holds, in the case in use. An explicit node whose when is false makes the data invalid - unless libyang's
    documented rule applies: a node whose when was evaluated to true before (LYD_WHEN_TRUE: set by an earlier validation,
    or preset on nodes validation created itself) is deleted instead."""
    CONDS = ("sw", "ll", "nx", None)
    PARTS = ("dl", "npc", "pc", "dll", "item", "mode", "uses", "aug")
    ORDER = ("tdl", "dl", "dep", "tdep", "npc", "pc", "dll", "item", "label", "ival", "value", "ug", "aug1", "aug2")

    def __init__(self, cfg):
        self.cfg = cfg
        self.c = cfg["c"]

    # ---- schema
    @classmethod
    def random(cls, rng):
        c = {}
        for p in cls.PARTS:
            if rng.random() < 0.7:
                c[p] = rng.choice(cls.CONDS)
        if "mode" in c or not c:
            c.setdefault("mode", rng.choice(cls.CONDS))
            for p in ("auto", "manual", "inner"):
                c[p] = rng.choice(cls.CONDS + (None,))
        return cls({"c": c, "dep": "dl" in c and rng.random() < 0.6, "top": rng.random() < 0.4, "last": rng.random() < 0.4})

    @staticmethod
    def cond_text(cond, up):
        return {"sw": "%ssw = 'on'" % up, "ll": "count(%sll) > 1" % up, "nx": "not(%sx)" % up}[cond]

    def when(self, part, up="../"):
        c = self.c.get(part)
        return ' when "%s";' % self.cond_text(c, up) if c else ""

    def yang(self):
        import json
        c = self.c
        ctl = ['leaf sw { type string; }', 'leaf x { type string; }', 'leaf-list ll { type uint8; }']
        b = []
        if "dl" in c:
            b.append('leaf dl {%s type string; default "dv"; }' % self.when("dl"))
        if self.cfg["dep"]:
            b.append('leaf dep { when "../dl = \'dv\'"; type string; default "depv"; }')
        if "npc" in c:
            b.append('container npc {%s leaf in1 { type string; default "i1"; } leaf in2 { type string; } }' % self.when("npc"))
        if "pc" in c:
            b.append('container pc {%s presence "p"; leaf pin { type string; default "p1"; } }' % self.when("pc"))
        if "dll" in c:
            b.append('leaf-list dll {%s type string; default "a"; default "b"; }' % self.when("dll"))
        if "item" in c:
            b.append('list item {%s key "k"; leaf k { type string; } leaf iv { type string; default "iv0"; } }' % self.when("item"))
        if "mode" in c:
            b.append('choice mode {%s default auto; case auto {%s leaf level { type string; default "1"; } leaf label '
                     '{ type string; } choice inner {%s default i1; case i1 { leaf ilev { type string; default "9"; } } '
                     'case i2 { leaf ival { type string; } } } } case manual {%s leaf value { type string; } leaf mdef '
                     '{ type string; default "m"; } } }' % (self.when("mode", ""), self.when("auto", ""),
                                                           self.when("inner", ""), self.when("manual", "")))
        if "uses" in c:
            b.append('uses grp {%s }' % self.when("uses", "") if c["uses"] else 'uses grp;')
        if self.cfg["top"]:
            # a nested default whose when reads the top-level conditional default
            b.insert(0, 'leaf tdep { when "../../tdl = \'t\'"; type string; default "td"; }')
        body = b + ctl if self.cfg["last"] else ctl + b
        top = ['leaf tsw { type string; }', 'leaf tdl { when "../tsw = \'on\'"; type string; default "t"; }',
               'container tnp { when "../tsw = \'on\'"; leaf tin { type string; default "ti"; } }'] if self.cfg["top"] else []
        aug = ['augment "/m1:box" {%s leaf aug1 { type string; default "a1"; } leaf aug2 { type string; } }' % self.when("aug", "")] \
            if "aug" in c else []
        return ('module m1 { yang-version 1.1; namespace "urn:m1"; prefix m1; description "cfg %s"; '
                'grouping grp { leaf ug { type string; default "u"; } } %s container box { %s } %s }'
                % (hexs(json.dumps(self.cfg, sort_keys=True)), " ".join(top), " ".join(body), " ".join(aug)))

    @classmethod
    def of_yang(cls, text):
        import json
        from vlib import unhex
        return cls(json.loads(unhex(text.split('description "cfg ')[1].split('"')[0]).decode()))

    # ---- state: the explicit content, the units present in the tree, the units flagged LYD_WHEN_TRUE
    @staticmethod
    def init():
        return {"sw": None, "x": None, "tsw": None, "ll": [], "E": {}, "P": set(), "WT": set()}

    @staticmethod
    def unit(key):
        return key.split("/")[0]

    def explicit_units(self, st):
        """(unit, key) of every explicit conditional node"""
        out = []
        for k, v in st["E"].items():
            if k == "dll":
                out += [("dll:" + x, k) for x in v]
            elif k == "item":
                out += [("item:" + x, k) for x in v]
            elif "/" not in k:
                out.append((k, k))
            elif self.unit(k) not in [u for u, _ in out]:
                out.append((self.unit(k), k))
        seen, res = set(), []
        for u, k in out:
            if u not in seen:
                seen.add(u)
                res.append((u, k))
        return sorted(res, key=lambda p: self.ORDER.index(p[0].split(":")[0]))

    def touch(self, st, u):
        if u not in st["P"]:
            st["WT"].discard(u)
        st["P"].add(u)

    def drop(self, st, u):
        st["P"].discard(u)
        st["WT"].discard(u)

    def remove_unit(self, st, u):
        E = st["E"]
        if ":" in u:
            k, v = u.split(":", 1)
            if k == "dll":
                E["dll"].remove(v)
            else:
                E["item"].pop(v)
            if not E[k]:
                E.pop(k)
        else:
            for k in [k for k in E if self.unit(k) == u]:
                E.pop(k)
        self.drop(st, u)

    def edit_new(self, st, path, val):
        """lyd_new_path(LYD_NEW_PATH_UPDATE) of an explicit node; returns False for a path outside the family"""
        E = st["E"]
        if path in ("/m1:box/sw", "/m1:box/x", "/m1:tsw"):
            st[path.split(":")[-1].split("/")[-1]] = val
        elif path.startswith("/m1:box/ll[.='"):
            v = int(path.split("'")[1])
            if v not in st["ll"]:
                st["ll"].append(v)
        elif path.startswith("/m1:box/dll[.='"):
            v = path.split("'")[1]
            if v not in E.setdefault("dll", []):
                E["dll"].append(v)
            self.touch(st, "dll:" + v)
        elif path.startswith("/m1:box/item[k='"):
            k = path.split("'")[1]
            E.setdefault("item", {}).setdefault(k, None)
            if path.endswith("/iv"):
                E["item"][k] = val
            self.touch(st, "item:" + k)
        elif path == "/m1:tdl":
            E["tdl"] = val
            self.touch(st, "tdl")
        elif path.startswith("/m1:box/"):
            k = path[len("/m1:box/"):]
            if k == "pc" or k.startswith("pc/"):
                E["pc"] = True
            if k.startswith("npc/"):
                E["npc"] = True               # the container object: exists (and is judged) even when emptied again
            if k != "pc":
                E[k] = val
            self.touch(st, self.unit(k))
        else:
            return False
        return True

    def edit_free(self, st, path):
        E = st["E"]
        if path in ("/m1:box/sw", "/m1:box/x", "/m1:tsw"):
            st[path.split(":")[-1].split("/")[-1]] = None
        elif path.startswith("/m1:box/ll[.='"):
            st["ll"].remove(int(path.split("'")[1]))
        elif path.startswith("/m1:box/dll[.='"):
            self.remove_unit(st, "dll:" + path.split("'")[1])
        elif path.startswith("/m1:box/item[k='"):
            self.remove_unit(st, "item:" + path.split("'")[1])
        elif path == "/m1:tdl":
            self.remove_unit(st, "tdl")
        elif path.startswith("/m1:box/"):
            k = path[len("/m1:box/"):]
            if "/" in k:
                E.pop(k)                      # a child of npc / pc: the container stays
            else:
                self.remove_unit(st, k)
        else:
            return False
        return True

    # ---- the conditions, evaluated on the record
    def env(self, st):
        return {"sw": st["sw"] == "on", "ll": len(st["ll"]) > 1, "nx": st["x"] is None, None: True}

    def dl_value(self, st):
        if "dl" not in self.c:
            return None
        if "dl" in st["E"]:
            return st["E"]["dl"]
        return "dv" if self.holds(st, "dl") else None

    def holds(self, st, unit):
        e = self.env(st)
        g = lambda p: e[self.c.get(p)]
        u = unit.split(":")[0]
        if u == "dep":
            return self.dl_value(st) == "dv"
        if u in ("dl", "npc", "pc", "dll", "item"):
            return g(u)
        if u in ("level", "label"):
            return g("mode") and g("auto")
        if u in ("ilev", "ival"):
            return g("mode") and g("auto") and g("inner")
        if u in ("value", "mdef"):
            return g("mode") and g("manual")
        if u == "ug":
            return g("uses")
        if u in ("aug1", "aug2"):
            return g("aug")
        if u in ("tdl", "tnp"):
            return st["tsw"] == "on"
        if u == "tdep":
            return (st["E"]["tdl"] if "tdl" in st["E"] else ("t" if st["tsw"] == "on" else None)) == "t"
        raise KeyError(unit)

    def conds_of(self, unit):
        u = unit.split(":")[0]
        parts = {"level": ("mode", "auto"), "label": ("mode", "auto"), "ilev": ("mode", "auto", "inner"),
                 "ival": ("mode", "auto", "inner"), "value": ("mode", "manual"), "mdef": ("mode", "manual"), "ug": ("uses",),
                 "aug1": ("aug",), "aug2": ("aug",)}.get(u, (u,))
        return [self.c[p] for p in parts if self.c.get(p)]

    def false_units(self, st):
        return [u for u, _ in self.explicit_units(st) if not self.holds(st, u)]

    def resolve(self, st):
        """what a validation does to the explicit nodes under a false when: None, or the unit that makes the data invalid"""
        deleted = []
        for u, _ in self.explicit_units(st):
            if (":" in u and u.split(":")[1] not in (st["E"].get(u.split(":")[0]) or [])) or \
                    (":" not in u and not any(self.unit(k) == u for k in st["E"])):
                continue
            if not self.holds(st, u):
                if u not in st["WT"]:
                    return u, deleted
                self.remove_unit(st, u)
                deleted.append(u)
        return None, deleted

    def nf(self, st, nodflt=False):
        """the tree after a successful validation: [name, value | None, default?, children]; also refreshes P / WT.
        nodflt: without default leaves / leaf-lists (LYD_IMPLICIT_NO_DEFAULTS: NP containers only)"""
        E = st["E"]
        P = set()
        leaf = lambda n, v, d=False: [n, v, d, []]

        def term(key, unit, dval, out):
            if key in E:
                out.append(leaf(key.split("/")[-1], E[key]))
                P.add(unit)
            elif dval is not None and not nodflt and self.holds(st, unit):
                out.append(leaf(key.split("/")[-1], dval, True))
                P.add(unit)

        top = []
        if self.cfg["top"]:
            if st["tsw"] is not None:
                top.append(leaf("tsw", st["tsw"]))
            term("tdl", "tdl", "t", top)
            if self.holds(st, "tnp"):
                ch = []
                term("tnp/tin", "tnp", "ti", ch)
                top.append(["tnp", None, True, ch])
        ctl = []
        if st["sw"] is not None:
            ctl.append(leaf("sw", st["sw"]))
        if st["x"] is not None:
            ctl.append(leaf("x", st["x"]))
        ctl += [leaf("ll", str(v)) for v in sorted(st["ll"])]
        b = []
        c = self.c
        if self.cfg["top"]:
            term("tdep", "tdep", "td", b)
        if "dl" in c:
            term("dl", "dl", "dv", b)
        if self.cfg["dep"]:
            term("dep", "dep", "depv", b)
        if "npc" in c and (self.holds(st, "npc") or "npc" in E):
            ch = []
            term("npc/in1", "npc", "i1", ch)
            term("npc/in2", "npc", None, ch)
            b.append(["npc", None, all(x[2] for x in ch), ch])
            P.add("npc")
            if all(x[2] for x in ch):
                E.pop("npc", None)            # only defaults inside: a default container from now on
        if "pc" in c and "pc" in E:
            ch = []
            term("pc/pin", "pc", "p1", ch)
            b.append(["pc", None, False, ch])
            P.add("pc")
        if "dll" in c:
            if E.get("dll"):
                b += [leaf("dll", v) for v in E["dll"]]
                P.update("dll:" + v for v in E["dll"])
            elif self.holds(st, "dll") and not nodflt:
                b += [leaf("dll", "a", True), leaf("dll", "b", True)]
                P.update(["dll:a", "dll:b"])
        if "item" in c:
            for k, iv in (E.get("item") or {}).items():
                b.append(["item", None, False, [leaf("k", k)] + ([leaf("iv", iv)] if iv is not None else
                                                                [] if nodflt else [leaf("iv", "iv0", True)])])
                P.add("item:" + k)
        if "mode" in c:
            if "label" in E or "ival" in E:
                term("level", "level", "1", b)
                term("label", "label", None, b)
                if "ival" in E:
                    term("ival", "ival", None, b)
                else:
                    term("ilev", "ilev", "9", b)
            elif "value" in E:
                term("value", "value", None, b)
                term("mdef", "mdef", "m", b)
            else:
                term("level", "level", "1", b)
                term("ilev", "ilev", "9", b)
        if "uses" in c:
            term("ug", "ug", "u", b)
        kids = b + ctl if self.cfg["last"] else ctl + b
        if "aug" in c:
            term("aug1", "aug1", "a1", kids)
            term("aug2", "aug2", None, kids)
        top.append(["box", None, all(x[2] for x in kids), kids])
        st["P"] = P
        st["WT"] = set(P)
        return top

    # ---- rendering
    def xml(self, st):
        """the explicit content as a document"""
        E = st["E"]
        el = lambda n, v: "<%s>%s</%s>" % (n, v, n)
        out = ""
        if st["tsw"] is not None:
            out += '<tsw xmlns="urn:m1">%s</tsw>' % st["tsw"]
        if "tdl" in E:
            out += '<tdl xmlns="urn:m1">%s</tdl>' % E["tdl"]
        b = ""
        if st["sw"] is not None:
            b += el("sw", st["sw"])
        if st["x"] is not None:
            b += el("x", st["x"])
        b += "".join(el("ll", v) for v in st["ll"])
        for k in ("tdep", "dl", "dep"):
            if k in E:
                b += el(k, E[k])
        if "npc" in E:
            b += el("npc", "".join(el(k[4:], E[k]) for k in ("npc/in1", "npc/in2") if k in E))
        if "pc" in E:
            b += el("pc", el("pin", E["pc/pin"]) if "pc/pin" in E else "")
        b += "".join(el("dll", v) for v in E.get("dll", []))
        for k, iv in (E.get("item") or {}).items():
            b += el("item", el("k", k) + (el("iv", iv) if iv is not None else ""))
        for k in ("label", "ival", "value", "ug", "aug1", "aug2"):
            if k in E:
                b += el(k, E[k])
        if b:
            out += '<box xmlns="urn:m1">%s</box>' % b
        return out

    @classmethod
    def canon(cls, nodes):
        """instances of one leaf-list / list: order not compared"""
        out, i = [], 0
        nodes = [[n, v, d, cls.canon(ch)] for n, v, d, ch in nodes]
        while i < len(nodes):
            j = i
            while j < len(nodes) and nodes[j][0] == nodes[i][0]:
                j += 1
            out += sorted(nodes[i:j], key=repr)
            i = j
        return out

    @classmethod
    def show(cls, nodes, depth=0):
        s = ""
        for n, v, d, ch in nodes:
            s += "%s%s%s%s " % ("." * depth, n, "" if v is None else "=" + v, "(d)" if d else "") + cls.show(ch, depth + 1)
        return s

    @staticmethod
    def of_dump(dump):
        """lyx dump (module m1 only) -> the same nested form"""
        from vlib import unhex
        root = []
        stack = [(-1, root)]
        for sg in DfltModel.only_m1(dump).split(";"):
            if not sg or sg == "empty":
                continue
            p = sg.split(":")
            depth, name, val, flags = int(p[0]), p[2], p[3], p[4] if len(p) > 4 else ""
            node = [name, unhex(val[1:]).decode() if val.startswith("=") else None, "d" in flags, []]
            while stack[-1][0] >= depth:
                stack.pop()
            stack[-1][1].append(node)
            stack.append((depth, node[3]))
        return root


class WhenDefaults(oracles_mod.Oracle):
    """C07 with `when`: after a validation the default nodes are exactly those whose when (own, or inherited from a choice,
    case, uses or augment) holds, explicit nodes under a false when are rejected - or deleted if their when had been true
    before (LYD_WHEN_TRUE) -, the returned change set applied to the tree before gives the tree after, and a second
    validation changes and reports nothing. Histories: validate -> flip a controlling leaf -> validate -> flip back ->
    validate with explicit nodes created / removed in between (lyd_new_path + lyd_validate_all), and the explicit content
    parsed with validation (lyd_parse_data). Expected trees: WhenRef (python, conditions evaluated on its own record)."""
    name = "when-defaults"

    module_api = False           # True: lyd_validate_module through impl/t_valid.c (no diff there)

    class LyxScript(Script):
        """the history as commands of impl/lyx.c"""
        def start(self, yang):
            self.ctx(opts=0x04)
            self.mod(yang)

        def newpath(self, path, val):
            self.add("newpath", "t0", "c0", NEWPATH_UPDATE, hexs(path), hexs(val) if val != "~" else "~")

        def freepath(self, path):
            self.add("freepath", "t0", hexs(path))

        def parsed(self, xml):
            self.parse(5, "x", xml, popts=PARSE_STRICT, vopts=0)
            self.dump(5, 0)

        def validate(self):
            self.add("dup", "t0", "t1", oracles_mod.DUPF)
            self.add("val", "t0", "c0", 0, "t2")
            self.dump(0, 0)
            self.add("apply", "t1", "t2")
            self.add("cmp", "t1", "t0", oracles_mod.CMPX)
            self.add("val", "t0", "c0", 0, "t3")
            self.dump(0, 0)
            self.dump(3, 0)

        def implicit_fresh(self, xml, opts, withdiff):
            """lyd_new_implicit_all on the explicit content alone (parsed without validation), twice"""
            self.parse(6, "x", xml, popts=PARSE_STRICT | PARSE_ONLY, vopts=0)
            self.add("dup", "t6", "t8", oracles_mod.DUPF)
            self.add("implicit", "t6", "c0", opts, *(["t7"] if withdiff else []))
            self.dump(6, 0)
            if withdiff:
                self.add("apply", "t8", "t7")
                self.add("cmp", "t8", "t6", oracles_mod.CMPX)
            self.add("implicit", "t6", "c0", opts, *(["t9"] if withdiff else []))
            self.dump(6, 0)
            if withdiff:
                self.dump(9, 0)

        def implicit_live(self):
            """lyd_new_implicit_all on a copy of the validated tree: complete already"""
            self.add("dup", "t0", "t10", oracles_mod.DUPF)
            self.add("implicit", "t10", "c0", 0, "t11")
            self.dump(10, 0)
            self.dump(11, 0)

    class ValidScript(LyxScript):
        """the same history as commands of impl/t_valid.c: validation with lyd_validate_module"""
        def start(self, yang):
            self.add("mod", hexs(yang), 0x04)

        def newpath(self, path, val):
            self.add("newpath", "t0", NEWPATH_UPDATE, hexs(path), hexs(val) if val != "~" else "~")

        def parsed(self, xml):
            self.add("parse", "t5", "x", PARSE_STRICT, 0, hexs(xml))
            self.dump(5, 0)

        def validate(self):
            self.add("val", "t0", 0, "m")
            self.dump(0, 0)
            self.add("val", "t0", 0, "m")
            self.dump(0, 0)

        def implicit_fresh(self, xml, opts, withdiff):
            pass                              # impl/t_valid.c has no lyd_new_implicit_* command

        def implicit_live(self):
            pass

        def line(self):
            return "valid\t" + "\t".join(self.cmds)

    @staticmethod
    def events(line, r):
        """the case line and its results as (module text, [event]): ("new", path, value, result), ("free", path, result),
        ("parse", xml, result, dump), ("val", {rc1, d1, apply, cmp, rc2, d2, diff2}); None where the driver has no such step"""
        from vlib import unhex
        cmds = line.split("\t")[1:]
        txt = lambda h: None if h == "~" else unhex(h).decode()
        ev, k = [], 0
        if line.startswith("valid\t"):
            yang, ok, k = txt(cmds[0].split(" ")[1]), r[0] == "0", 1
        else:
            yang, ok, k = txt(cmds[1].split(" ")[3]), r[0] == "0" and r[1] == "0", 2
        if not ok or len(r) < len(cmds):
            return yang, None
        while k < len(cmds):
            w = cmds[k].split(" ")
            if w[0] == "newpath":
                ev.append(("new", txt(w[-2]), txt(w[-1]), r[k]))
            elif w[0] == "freepath":
                ev.append(("free", txt(w[2]), r[k]))
            elif w[0] == "parse" and w[2] == "t6":
                wd = len(cmds[k + 2].split(" ")) > 4
                d = {"xml": txt(w[-1]), "opts": int(cmds[k + 2].split(" ")[3]), "rc1": r[k + 2], "d1": r[k + 3]}
                if wd:
                    d.update({"apply": r[k + 4], "cmp": r[k + 5], "rc2": r[k + 6], "d2": r[k + 7], "diff2": r[k + 8]})
                else:
                    d.update({"apply": None, "cmp": None, "rc2": r[k + 4], "d2": r[k + 5], "diff2": None})
                ev.append(("impl", d))
                k += 8 if wd else 5
            elif w[0] == "dup" and w[1] == "t0" and w[2] == "t10":
                ev.append(("live", {"rc": r[k + 1], "d": r[k + 2], "diff": r[k + 3]}))
                k += 3
            elif w[0] == "parse":
                ev.append(("parse", txt(w[-1]), r[k], r[k + 1]))
                k += 1
            elif w[0] == "dup" and w[1] == "t0" and w[2] == "t1":
                ev.append(("val", {"rc1": r[k + 1], "d1": r[k + 2], "apply": r[k + 3], "cmp": r[k + 4], "rc2": r[k + 5],
                                   "d2": r[k + 6], "diff2": r[k + 7]}))
                k += 7
            elif w[0] == "val":
                ev.append(("val", {"rc1": r[k], "d1": r[k + 1], "apply": None, "cmp": None, "rc2": r[k + 2], "d2": r[k + 3],
                                   "diff2": None}))
                k += 3
            k += 1
        return yang, ev

    def gen(self, rng, tier, scale=1.0):
        L = []
        for i in range(self.n(tier, 500, 8000, scale)):
            ref = WhenRef.random(rng)
            st = ref.init()
            s = self.ValidScript() if self.module_api else self.LyxScript()
            s.start(ref.yang())
            flips = []
            for rnd in range(rng.choice([3, 4, 5, 6])):
                # the controlling leaves first: most explicit nodes are then created where their when holds, validated
                # (LYD_WHEN_TRUE) and meet a false when only in a later round
                ne = rng.choice([0, 1, 1, 2, 3]) if rnd else rng.choice([0, 0, 1, 2, 4])
                for what in sorted(rng.choice(["ctl", "ctl", "new", "new", "free"]) for _ in range(ne)):
                    self.edit(rng, ref, st, s, flips, what)
                if flips and rng.random() < 0.5:
                    p, v = flips.pop()                  # flip a controlling leaf back
                    self.emit(ref, st, s, p, v)
                if rng.random() < 0.3:
                    s.parsed(ref.xml(st))
                if rng.random() < 0.4 and not ref.false_units(st):
                    # the implicit-node API on the same explicit content: no option / NO_STATE / OUTPUT (no effect on
                    # config data) / NO_DEFAULTS (NP containers only), with and without the diff output
                    s.implicit_fresh(ref.xml(st), rng.choice([0, 0, 0x01, 0x04, 0x08]), rng.random() < 0.7)
                s.validate()
                bad, _ = ref.resolve(st)
                if bad:
                    break
                ref.nf(st)
                if rng.random() < 0.3:
                    s.implicit_live()
            L.append(s.line())
        return L

    @staticmethod
    def emit(ref, st, s, path, val):
        if val is None:
            ref.edit_free(st, path)
            s.freepath(path)
        else:
            ref.edit_new(st, path, val)
            s.newpath(path, val)

    def edit(self, rng, ref, st, s, flips, what):
        c, E = ref.c, st["E"]
        if what == "ctl":
            # a controlling leaf; often one that turns the when of an explicit node false
            k = rng.choice(["sw", "sw", "x", "ll", "ll"] + (["tsw"] if ref.cfg["top"] else []))
            live = [cd for u, _ in ref.explicit_units(st) if u != "tdl" and ref.holds(st, u) for cd in ref.conds_of(u)]
            if live and rng.random() < 0.6:
                cd = rng.choice(live)
                if cd == "sw":
                    flips.append(("/m1:box/sw", st["sw"]))
                    self.emit(ref, st, s, "/m1:box/sw", rng.choice(["off", None]))
                elif cd == "nx":
                    flips.append(("/m1:box/x", None))
                    self.emit(ref, st, s, "/m1:box/x", "here")
                else:
                    for v in list(st["ll"])[1:]:
                        flips.append(("/m1:box/ll[.='%d']" % v, "~"))
                        self.emit(ref, st, s, "/m1:box/ll[.='%d']" % v, None)
                return
            if k in ("sw", "tsw"):
                p = "/m1:box/sw" if k == "sw" else "/m1:tsw"
                new = rng.choice([v for v in ("on", "off", None) if v != st[k]])
                flips.append((p, st[k]))
                self.emit(ref, st, s, p, new)
            elif k == "x":
                flips.append(("/m1:box/x", st["x"]))
                self.emit(ref, st, s, "/m1:box/x", None if st["x"] is not None else "here")
            else:
                if len(st["ll"]) > 1 and rng.random() < 0.6:
                    v = rng.choice(st["ll"])
                    flips.append(("/m1:box/ll[.='%d']" % v, "~"))
                    self.emit(ref, st, s, "/m1:box/ll[.='%d']" % v, None)
                else:
                    for v in rng.sample([1, 2, 3, 4], 2 if not st["ll"] else 1):
                        if v not in st["ll"]:
                            flips.append(("/m1:box/ll[.='%d']" % v, None))
                            self.emit(ref, st, s, "/m1:box/ll[.='%d']" % v, "~")
            return
        if what == "free" and E:
            # remove an explicit node
            u, k = rng.choice(ref.explicit_units(st))
            if ":" in u:
                kk, v = u.split(":", 1)
                self.emit(ref, st, s, "/m1:box/dll[.='%s']" % v if kk == "dll" else "/m1:box/item[k='%s']" % v, None)
            elif u == "tdl":
                self.emit(ref, st, s, "/m1:tdl", None)
            elif u in ("npc", "pc") and rng.random() < 0.5:
                self.emit(ref, st, s, "/m1:box/" + rng.choice([x for x in E if ref.unit(x) == u and "/" in x] or [u]), None)
            else:
                self.emit(ref, st, s, "/m1:box/" + u, None)
            return
        # create an explicit conditional node
        cands = []
        if "dl" in c:
            cands += [("dl", "e1"), ("dl", "e2")]
        if ref.cfg["dep"]:
            cands.append(("dep", "e1"))
        if "npc" in c:
            cands += [("npc/in1", "e1"), ("npc/in2", "e2")]
        if "pc" in c:
            cands += [("pc", "~"), ("pc/pin", "e1")]
        if "dll" in c:
            cands += [("dll[.='%s']" % v, "~") for v in "pqr"]
        if "item" in c:
            cands += [("item[k='k1']", "~"), ("item[k='k2']/iv", "e1")]
        if "mode" in c:
            cands += [("label", "e1"), ("ival", "e1"), ("value", "e1"), ("value", "e2")]
        if "uses" in c:
            cands.append(("ug", "e1"))
        if "aug" in c:
            cands += [("aug1", "e1"), ("aug2", "e1")]
        if ref.cfg["top"]:
            cands += [("/m1:tdl", "e1"), ("tdep", "e1")]
        if rng.random() < 0.85:
            unit = lambda k: "tdl" if k == "/m1:tdl" else k.split("[")[0].split("/")[0]
            cands = [(k, v) for k, v in cands if ref.holds(st, unit(k))] or cands
        k, v = rng.choice(cands)
        if k in ("label", "ival") and "value" in E:
            self.emit(ref, st, s, "/m1:box/value", None)
        if k == "value":
            for o in ("label", "ival"):
                if o in E:
                    self.emit(ref, st, s, "/m1:box/" + o, None)
        self.emit(ref, st, s, k if k.startswith("/") else "/m1:box/" + k, v)

    def judge(self, line, out):
        import copy
        if oracles_mod.crashed(out):
            return (None, "crash: " + out)
        yang, ev = self.events(line, results(out))
        if ev is None:
            return (None, "the module of the case is not accepted: " + out[:200])
        ref = WhenRef.of_yang(yang)
        st = ref.init()
        rnd = 0
        for e in ev:
            if e[0] == "new":
                if not ref.edit_new(st, e[1], e[2]) or rc(e[3]) != 0:
                    return (None, "lyd_new_path failed: %s -> %s" % (e[1], e[3]))
            elif e[0] == "free":
                if not ref.edit_free(st, e[1]) or e[2] != "0":
                    return (None, "node to free not found: %s -> %s" % (e[1], e[2]))
            elif e[0] == "parse":
                if e[1] != ref.xml(st):
                    return None                       # not a document of the explicit content: not judged
                bad = ref.false_units(st)
                if bad and rc(e[2]) == 0:
                    return (None, "parsing with validation accepts the explicit node %s "
                            "whose when is false: %s" % (bad[0], e[1]))
                if not bad:
                    if rc(e[2]) != 0:
                        return (None, "parsing with validation rejects valid data (%s): %s" % (e[2][:150], e[1]))
                    want = ref.canon(ref.nf(copy.deepcopy(st)))
                    got = ref.canon(ref.of_dump(e[3]))
                    if got != want:
                        return (None, "parsed with validation, %s gives [%s], expected (when conditions evaluated by the "
                                      "reference) [%s]" % (e[1], ref.show(got), ref.show(want)))
            elif e[0] == "impl":
                v = e[1]
                if v["xml"] != ref.xml(st) or ref.false_units(st):
                    continue                          # not judged
                what = "lyd_new_implicit_all(options %d%s) on the explicit content %s" % (
                    v["opts"], ", diff" if v["apply"] is not None else "", v["xml"])
                if rc(v["rc1"]) != 0:
                    return (None, "%s fails: %s" % (what, v["rc1"]))
                want = ref.canon(ref.nf(copy.deepcopy(st), nodflt=bool(v["opts"] & 0x08)))
                got = ref.canon(ref.of_dump(v["d1"]))
                if got != want:
                    return (None, "%s gives [%s], expected (implicit nodes exactly where the when holds, as validation "
                                  "creates them) [%s]" % (what, ref.show(got), ref.show(want)))
                if v["apply"] is not None and (rc(v["apply"]) != 0 or v["cmp"] != "0"):
                    return (None, "%s: the returned change set applied to the tree before does not give the tree after "
                                  "(apply %s, compare %s)" % (what, v["apply"], v["cmp"]))
                if rc(v["rc2"]) != 0 or DfltModel.only_m1(v["d2"]) != DfltModel.only_m1(v["d1"]):
                    return (None, "%s: a second call changes the tree (%s): [%s]" % (what, v["rc2"], ref.show(ref.of_dump(v["d2"]))))
                if v["diff2"] not in (None, "empty"):
                    return (None, "%s: a second call reports a non-empty change set: %s" % (what, v["diff2"][:200]))
            elif e[0] == "live":
                v = e[1]
                # (the tree was validated just before: st is its record)
                got, want = ref.canon(ref.of_dump(v["d"])), ref.canon(ref.nf(copy.deepcopy(st)))
                if rc(v["rc"]) != 0 or got != want:
                    return (None, "lyd_new_implicit_all on a validated (complete) tree changes it (%s): [%s]"
                            % (v["rc"], ref.show(got)))
                if v["diff"] != "empty":
                    return (None, "lyd_new_implicit_all on a validated (complete) tree reports a non-empty change set: %s"
                            % v["diff"][:200])
            else:
                v = e[1]
                rnd += 1
                before = ref.xml(st)
                bad, deleted = ref.resolve(st)
                if bad:
                    if rc(v["rc1"]) == 0:
                        return (None, "round %d: validation accepts the explicit node %s whose "
                                "when is false and was never true (explicit content %s)" % (rnd, bad, before))
                    return None
                if rc(v["rc1"]) != 0:
                    return (None, "round %d: validation rejects valid data (%s); explicit content %s, nodes whose when "
                                  "turned false: %s" % (rnd, v["rc1"][:150], before, deleted))
                want = ref.canon(ref.nf(st))
                got = ref.canon(ref.of_dump(v["d1"]))
                if got != want:
                    tag, why = None, ""
                    if set(deleted) & {"label", "ival", "value"} and rc(v["rc2"]) == 0 and \
                            ref.canon(ref.of_dump(v["d2"])) == want and \
                            [x for x in want[-1][3] if x[0] not in ("level", "ilev", "mdef")] == got[-1][3]:
                        tag, why = "when-autodel-default-case", ": the explicit nodes of a case were deleted because the when " \
                            "of the case turned false, the default case is only instantiated by the NEXT validation"
                    return (tag, "round %d: after validation of explicit content %s (auto-deleted: %s) the tree is [%s], "
                                 "expected [%s]%s" % (rnd, before, deleted, ref.show(got), ref.show(want), why))
                if v["apply"] is not None and (rc(v["apply"]) != 0 or v["cmp"] != "0"):
                    return (None, "round %d: the returned change set applied to the tree before does not give the tree after "
                                  "(apply %s, compare %s)" % (rnd, v["apply"], v["cmp"]))
                if rc(v["rc2"]) != 0 or DfltModel.only_m1(v["d2"]) != DfltModel.only_m1(v["d1"]):
                    return (None, "round %d: the second validation changed the tree (%s): [%s]"
                            % (rnd, v["rc2"], ref.show(ref.of_dump(v["d2"]))))
                if v["diff2"] not in (None, "empty"):
                    return (None, "round %d: the second validation reports a non-empty change set" % rnd)
        return None


class WhenDefaultsModule(WhenDefaults):
    """the histories of when-defaults validated with lyd_validate_module (driver impl/t_valid.c; no change set there)"""
    name = "when-defaults-module"
    driver = "t_valid"
    module_api = True

    def n(self, tier, quick, thorough, scale=1.0):
        return super().n(tier, quick // 2, thorough // 2, scale)


class WhenResModel(Comp):
    """lyd_validate_unres_when (when resolution: postponed while a dependency is queued, auto-delete vs error, repeated
    until the set is empty) vs WhenRes.wrun on generated dependency graphs: leaves n0..nk, each a top-level node of the
    module or a child of container box, leaf i with an optional default and an optional when over the presence / value
    of leaves with smaller numbers on either level (any and / or / not combination, so chains and diamonds of
    conditional nodes, nested nodes that read top-level defaults and the reverse), histories of lyd_new_path /
    lyd_free_tree edits and two entries into the resolution: lyd_validate_all (every present conditional node is
    queued; one run) and lyd_new_implicit_all (only the nodes it created are queued, all as was-true; phase 1 the
    top-level ones, phase 2 the nested ones - C07_when_resolution_phases). After every call the present leaves, their
    values and default flags (or the rejection) must be what the model computes from ITS record of the tree before
    (ocaml/run_dflt.ml keeps the world, the default flags and which nodes were true before)."""
    name = "whenres"
    driver = "lyx"
    slice = "dflt"

    @staticmethod
    def rand_expr(rng, i, depth=2):
        r = rng.random()
        if depth == 0 or r < 0.45:
            d = rng.randrange(i)
            return ("H", d) if rng.random() < 0.5 else ("E", d, rng.choice([1, 2, 5, 6]))
        if r < 0.65:
            return ("N", WhenResModel.rand_expr(rng, i, depth - 1))
        return (rng.choice("AO"), WhenResModel.rand_expr(rng, i, depth - 1), WhenResModel.rand_expr(rng, i, depth - 1))

    @classmethod
    def prefix(cls, e):
        if e[0] == "H":
            return "H%d" % e[1]
        if e[0] == "E":
            return "E%d.%d" % (e[1], e[2])
        return ",".join([e[0]] + [cls.prefix(x) for x in e[1:]])

    @classmethod
    def xpath(cls, e, me_top, tops):
        """the condition as XPath text for a leaf on level me_top (context node: the leaf itself)"""
        def ref(d):
            if me_top:
                return "../n%d" % d if d in tops else "../box/n%d" % d
            return "../../n%d" % d if d in tops else "../n%d" % d
        if e[0] == "H":
            return ref(e[1])
        if e[0] == "E":
            return "%s = %d" % (ref(e[1]), e[2])
        if e[0] == "N":
            return "not(%s)" % cls.xpath(e[1], me_top, tops)
        return "(%s) %s (%s)" % (cls.xpath(e[1], me_top, tops), "and" if e[0] == "A" else "or", cls.xpath(e[2], me_top, tops))

    def gen(self, rng, tier, scale=1.0):
        L = []
        for i in range(self.n(tier, 600, 12000, scale)):
            k = rng.randrange(3, 9)
            tops = {j for j in range(k) if rng.random() < 0.4} if i % 2 else set()
            whens = {j: self.rand_expr(rng, j) for j in range(1, k) if rng.random() < 0.75}
            dflts = {j: rng.choice([1, 2]) for j in range(k) if rng.random() < 0.5}
            leaf = lambda j: 'leaf n%d {%s type uint8;%s }' % (
                j, ' when "%s";' % self.xpath(whens[j], j in tops, tops) if j in whens else "",
                ' default "%d";' % dflts[j] if j in dflts else "")
            path = lambda j: "/m1:n%d" % j if j in tops else "/m1:box/n%d" % j
            s = Script()
            s.add("#p", ";".join("%d:%s" % (j, self.prefix(e)) for j, e in sorted(whens.items())) or ";")
            s.add("#d", ";".join("%d=%d" % jv for jv in sorted(dflts.items())) or ";")
            s.add("#lv", ";".join(str(j) for j in sorted(tops)) or ";")
            s.ctx(opts=0x04)
            s.mod('module m1 { yang-version 1.1; namespace "urn:m1"; prefix m1; %s container box { %s } }'
                  % (" ".join(leaf(j) for j in range(k) if j in tops), " ".join(leaf(j) for j in range(k) if j not in tops)))
            for rnd in range(rng.choice([2, 3, 4, 5])):
                for _ in range(rng.choice([0, 1, 2, 3]) if rnd else rng.choice([0, 1, 2, 4])):
                    j = rng.randrange(k)
                    if rng.random() < 0.7:
                        v = rng.choice([5, 6])
                        s.add("#new", j, v)
                        s.add("newpath", "t0", "c0", NEWPATH_UPDATE, hexs(path(j)), hexs(str(v)))
                    else:
                        s.add("#free", j)
                        s.add("freepath", "t0", hexs(path(j)))
                if i % 2 and rng.random() < 0.5:
                    s.add("implicit", "t0", "c0", IMPLICIT_NO_STATE)
                    s.dump(0, 0)
                    if rng.random() < 0.5:
                        continue
                s.add("val", "t0", "c0", 0)
                s.dump(0, 0)
            L.append("whenres\t" + "\t".join(s.cmds))
        return L

    def norm(self, line, out):
        if out.startswith("V") or out.startswith("I") or out == "" or out.startswith("E "):
            # the model's answer; J=1: the executable instance of C07_when_resolution_phases_ext held on this call
            return out.replace(" J=1", "")
        if oracles_mod.crashed(out):
            return out
        from vlib import unhex
        r = results(out)
        cmds = line.split("\t")[1:]
        parts = []
        for k, c in enumerate(cmds):
            tag = "V" if c.startswith("val t0") else "I" if c.startswith("implicit t0") else None
            if not tag or k + 1 >= len(r):
                continue
            if rc(r[k]) != 0:
                parts.append(tag + "E")
                break
            ent = []
            for sg in DfltModel.only_m1(r[k + 1]).split(";"):
                p = sg.split(":")
                if len(p) > 4 and p[3].startswith("="):
                    ent.append((int(p[2][1:]), "%d=%s%s;" % (int(p[2][1:]), unhex(p[3][1:]).decode(), "d" if "d" in p[4] else "")))
            parts.append(tag + "0 " + "".join(t for _, t in sorted(ent)))
        return " | ".join(parts)

    def witness(self, line, model_out, impl_out):
        m, o = self.norm(line, model_out).split(" | "), self.norm(line, impl_out).split(" | ")
        for a, b in zip(m, o):
            if a != b:
                if a.startswith("I"):
                    return (None, "lyd_new_implicit_all gives %s, the resolution of the when conditions of the new default "
                                  "nodes (WhenRes.wrun in the phases nested / top-level / nested) gives %s" % (b, a))
                return (None, "lyd_validate_all gives %s, the resolution of the queued when conditions (WhenRes.wrun) gives %s"
                        % (b, a))
        return None
