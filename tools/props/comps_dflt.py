"""comps_dflt.py - T2 component of the dflt slice (coq/Implicit.v, coq/WithDefaults.v), property C07.

DfltModel: generated module (defaults, default leaf-lists, nested choices with default cases incl. choices nested in cases,
NP and presence containers, lists holding all of these; what Tree.v models, no when/must/unique) x trees built by a
PARSE_ONLY parse (no implicit nodes yet) and by edit histories (lyx commands freen / freepath / chgpath / newpath, and
a print with tagged defaults parsed back, which yields nodes that are new AND default) -> libyang (impl/lyx.c) runs
lyd_validate_all / lyd_new_implicit_all with the returned diff, dumps the tree (default and new flags) and the diff, and
prints the tree in the five with-defaults modes in XML AND in JSON -> the extracted model (validate_all / implicit_all /
wd_print_forest) must produce the identical dump, the same net change list and, per node INSTANCE in document order
(position-aware for leaf-lists and lists), the same printed nodes and default tags: the XML documents are read with expat
(attribute ncwd:default), the JSON documents with python's json (metadata objects "@name", the leaf-list metadata ARRAYS
with nulls of RFC 7952 5.2.2). Leaf-lists with several defaults often get explicit instances equal / not equal to default
values in every order (DfltInstGen). LYB is left out (it ignores the tag options: a C01 finding).

Two stages as in comps_tree.TreeIO: the tree BEFORE each validation is the model's input, so gen() runs the history once
on the implementation (stage 1) and stores the dump taken before every validation in the case line as a pseudo command
#t (lyx answers ?cmd to it). The model also reports, for every tree it validated, the executable hypotheses /
conclusions of the C07 theorems (Q line: normal form reached, change list replays, ...); the implementation side of the
comparison expects them to hold, so a tree libyang produces that breaks one shows up as a disagreement and witness()
names the property failure."""
import xml.parsers.expat

import treeenc
import yanggen
from lyxlib import (Script, results, rc, payload, PARSE_STRICT, PARSE_ONLY, VAL_PRESENT, PRINT_SIBLINGS, PRINT_SHRINK,
                    PRINT_KEEPEMPTY, WD_EXPLICIT, WD_TRIM, WD_ALL, WD_ALL_TAG, WD_IMPL_TAG, NEWPATH_UPDATE, IMPLICIT_NO_STATE, TEST_MODULES)
from props.comps import Comp
from props.comps_tree import stage1, pseudo
from props.oracles import xml_tree
import props.oracles as oracles_mod
from vlib import hexs

NCWD = "urn:ietf:params:xml:ns:yang:ietf-netconf-with-defaults default"


class DfltSchemaGen(yanggen.SchemaGen):
    """SchemaGen with more defaults, NP containers and (nested) choices with default cases"""

    def leaf(self, config=True, allow_mand=True):
        rng = self.rng
        t = yanggen.rand_type(rng, adversarial=False)
        default = None
        mand = False
        if rng.random() < 0.55 and not isinstance(t, yanggen.TEmpty):
            default = t.valid(rng)
        elif self.constraints and allow_mand and rng.random() < 0.08:
            mand = True
        return yanggen.SLeaf(self.nm("lf"), t, default=default, mandatory=mand, config=config)

    def leaflist(self, config=True):
        n = super().leaflist(config)
        if not n.defaults and not n.minel and self.rng.random() < 0.4:
            vals = []
            for _ in range(self.rng.randrange(1, 4)):
                v = n.type.valid(self.rng)
                if v not in vals:
                    vals.append(v)
            n.defaults = vals
            n.maxel = None
        return n

    def nodes(self, depth, config=True, count=None, in_case=False):
        rng = self.rng
        out = []
        for _ in range(count if count is not None else rng.randrange(2, 5)):
            r = rng.random()
            if r < 0.3 or depth <= 0:
                out.append(self.leaf(config, allow_mand=not in_case))
            elif r < 0.42:
                out.append(self.leaflist(config))
            elif r < 0.62:
                cfg = config and not (self.state and rng.random() < 0.15)
                out.append(yanggen.SContainer(self.nm("c"), self.nodes(depth - 1, cfg), presence=rng.random() < 0.3, config=cfg))
            elif r < 0.75:
                out.append(self.list(depth, config))
            else:
                out.append(self.choice(depth, config))
        return out

    def choice(self, depth, config=True):
        rng = self.rng
        cases = []
        r = rng.random()
        want_default = r < 0.55
        mand = (not want_default) and self.constraints and r < 0.65
        saved = self.constraints
        if want_default:
            self.constraints = False
        for _ in range(rng.randrange(2, 4)):
            cases.append((self.nm("cs"), self.nodes(depth - 1, config, count=rng.randrange(1, 3), in_case=True)))
        self.constraints = saved
        default = rng.choice(cases)[0] if want_default else None
        return yanggen.SChoice(self.nm("ch"), cases, default=default, mandatory=mand)


class DfltInstGen(yanggen.InstGen):
    """InstGen whose leaf-lists with schema defaults often mix explicit instances equal to a default value with others, in
    every order for user-ordered / state leaf-lists (report-all-tagged must tag exactly the default-valued instances)"""

    def instances(self, n, depth, forced=False):
        rng = self.rng
        if n.kind == "leaf-list" and n.defaults and not n.minel and rng.random() < 0.6:
            pool = list(n.defaults) + [n.type.valid(rng) for _ in range(3)]
            hi = n.maxel if n.maxel is not None else 5
            vals = []
            for _ in range(rng.randint(1, max(1, min(hi, 5)))):
                v = rng.choice(pool)
                if n.config and v in vals:
                    continue
                vals.append(v)
            if not n.userord and n.config:
                vals = sorted(vals, key=n.type.sort_key)
            return [self.term(n, v) for v in vals]
        return super().instances(n, depth, forced)


def dflt_case(rng, **kw):
    """(module, instance generator): what Tree.v models, no unique statements"""
    for _ in range(50):
        g = DfltSchemaGen(rng, adversarial=False, key_filter=treeenc.key_type_ok, **kw)
        m = g.module()
        for n in m.all_nodes():
            if n.kind == "list":
                n.unique = None
        if treeenc.supported(m):
            return m, DfltInstGen(rng, meta_prob=0.0)
    raise RuntimeError("no supported module generated")


def quote(v):
    return "'%s'" % v if "'" not in v else '"%s"' % v


def rand_path(rng, m, f=None):
    """(path, schema node) of a random data node position: keys of lists on the way get valid values, preferably those of
    an instance in f"""
    nodes, path, cur = m.nodes, "", f or []
    last = None
    for _ in range(6):
        flat = [n for n, _ in yanggen.flatten_children(nodes) if not (n.kind == "leaf" and n.is_key)]
        if not flat:
            break
        n = rng.choice(flat)
        path += "/" + ("m1:" if not path else "") + n.name
        insts = [d for d in cur if d.schema is n]
        inst = rng.choice(insts) if insts and rng.random() < 0.8 else None
        if n.kind == "list":
            for k in n.keys:
                kl = [c for c in n.children if c.name == k][0]
                v = None
                if inst is not None:
                    v = [c.value for c in inst.children if c.schema is kl][0]
                if v is None:
                    v = kl.type.valid(rng)
                if "'" in v and '"' in v:
                    return None, None
                path += "[%s=%s]" % (k, quote(v))
            if not n.keys:
                path += "[1]"
        last = n
        if n.kind in ("container", "list") and rng.random() < 0.75:
            nodes = n.children
            cur = inst.children if inst is not None else []
            continue
        break
    return path, last


PRINT_MODES = (WD_EXPLICIT, WD_TRIM, WD_ALL, WD_ALL_TAG, WD_IMPL_TAG)


class ValidateIdemC07(oracles_mod.ValidateIdem):
    """the API oracle of C07 (tools/props/oracles.py) with the vdiff-np-container classification also recognising the case
    in which the tree after validation is EMPTY (the auto-deleted default container was the only node left)"""

    @staticmethod
    def only_np_diff(a, b):
        sa = [x for x in a.split(";") if x and x != "empty" and ":i:" not in x]
        sb = [x for x in b.split(";") if x and x != "empty" and ":i:" not in x]
        return sa == sb

    def judge(self, line, out):
        j = super().judge(line, out)
        if not j or j[0] is not None or "(round " not in j[1]:
            return j
        # two more symptoms of listed findings, seen through the API: locate the round the oracle complains about
        r = results(out)
        cmds = line.split("\t")[1:]
        rnd = int(j[1].split("(round ")[1].split(")")[0])
        ks = [k for k, c in enumerate(cmds) if c.startswith("dup t0 t1")]
        if rnd > len(ks) or ks[rnd - 1] + 6 >= len(r):
            return j
        k = ks[rnd - 1]
        if "second validation changed the tree" in j[1] and r[k + 4].startswith("3/"):
            return ("vdiff-np-recreate", j[1] + ": the second validation returns LY_EINVAL while building its diff")
        if "non-empty change set" in j[1]:
            segs = [x for x in r[k + 6].split(";") if x]
            if segs and all(":i:" in x for x in segs):
                # an empty default NP container is auto-deleted (not recorded) and created again (recorded)
                return ("vdiff-np-container", j[1] + ": only (re)creations of non-presence containers: " + r[k + 6][:200])
        return j


class DfltModel(Comp):
    """lyd_validate_all / lyd_new_implicit_all (tree, flags, diff) and the with-defaults print modes vs Implicit.v /
    WithDefaults.v on PARSE_ONLY trees and edit histories"""
    name = "dfltmodel"
    driver = "lyx"
    slice = "dflt"

    def gen(self, rng, tier, scale=1.0):
        pre = []
        for i in range(self.n(tier, 1200, 40000, scale)):
            m, ig = dflt_case(rng, userord=(i % 3 == 0), state=(i % 2 == 0), constraints=(i % 4 != 3))
            if i % 5 == 0:
                ig.edp = 0.8                # many explicit nodes that carry the default value
            f = ig.forest(m, config_only=False)
            if i % 9 == 0:
                f = []                       # empty tree: only lyd_new_implicit_all does something
            s = Script()
            s.ctx(searchdir=TEST_MODULES, opts=0x04 if i % 2 else 0)     # CTX_NO_YANGLIBRARY: no ietf-yang-library state data
            s.mod(m.yang())
            s.load("ietf-netconf-with-defaults")
            s.parse(0, "x", yanggen.to_xml(f), popts=PARSE_STRICT | PARSE_ONLY, vopts=0)
            # a key-less list makes lyd_val_diff_add assert (known finding vdiff-dupinst): such modules are validated
            # without asking for the diff (tree and flags are still compared)
            dslot = [] if any(n.kind == "list" and not n.keys for n in m.all_nodes()) else ["t2"]
            marks = []                       # indices of the dumps taken before a validation
            for rnd in range(rng.choice([1, 2, 3, 3])):
                marks.append(s.dump(0, 1))
                if rnd == 0 and i % 2 and rng.random() < 0.35:
                    s.add("implicit", "t0", "c0", IMPLICIT_NO_STATE, *dslot)
                else:
                    s.add("val", "t0", "c0", VAL_PRESENT, *dslot)
                s.dump(0, 1)
                s.dump(2)
                ke = PRINT_KEEPEMPTY if rng.random() < 0.3 else 0
                for mode in PRINT_MODES:
                    s.print(0, "x", PRINT_SIBLINGS | PRINT_SHRINK | ke | mode)
                for mode in PRINT_MODES:
                    s.print(0, "j", PRINT_SIBLINGS | PRINT_SHRINK | ke | mode)
                # edits for the next round
                r = rng.random()
                if r < 0.12:
                    # print with tagged defaults and parse back without validation: nodes that are new and default
                    s.add("rt", "t0", "t0", "x", PRINT_SIBLINGS | rng.choice([WD_ALL_TAG, WD_IMPL_TAG]), PARSE_STRICT | PARSE_ONLY, 0)
                if rng.random() < 0.2:
                    # what a datastore does: the difference to another valid instance is applied without validation; the
                    # created explicit nodes sit next to the default instances until the next validation removes those
                    f2 = yanggen.cross(rng, f, ig.forest(m, config_only=False), m.nodes) if rng.random() < 0.7 else ig.forest(m, config_only=False)
                    s.parse(1, "x", yanggen.to_xml(f2))
                    s.add("ifok", "diff", "t0", "t1", 0, "t3")
                    s.add("ifok", "apply", "t0", "t3")
                if rng.random() < 0.15:
                    # move a subtree: unlink it and insert it back with the public lyd_insert_sibling / _child (the
                    # inserted node is flagged new since 06232b2, so validation looks at it again)
                    s.add("unlink", "t0#%d" % rng.randrange(0, 30), "t6")
                    if rng.random() < 0.6:
                        s.add("ifok", "ins", "sibling", "t0", "t6")
                    else:
                        s.add("ifok", "ins", "child", "t0#%d" % rng.randrange(0, 30), "t6")
                for _ in range(rng.randrange(1, 5)):
                    r = rng.random()
                    if r < 0.35:
                        s.add("freen", "t0#%d" % rng.randrange(0, 40))
                    else:
                        p, sn = rand_path(rng, m, f)
                        if not p:
                            continue
                        if r < 0.5:
                            s.add("freepath", "t0", hexs(p))
                        elif sn.kind in ("leaf", "leaf-list"):
                            if sn.kind == "leaf" and sn.default is not None and rng.random() < 0.4:
                                v = sn.default
                            elif sn.kind == "leaf-list" and sn.defaults and rng.random() < 0.4:
                                v = rng.choice(sn.defaults)
                            else:
                                v = sn.type.valid(rng)
                            if sn.kind == "leaf-list":
                                if "'" in v and '"' in v:
                                    continue
                                p += "[.=%s]" % quote(v)
                            if sn.kind == "leaf" and r < 0.65:
                                s.add("chgpath", "t0", hexs(p), hexs(v) if v else "-")
                            else:
                                s.add("newpath", "t0", "c0", NEWPATH_UPDATE if rng.random() < 0.5 else 0, hexs(p), hexs(v) if v else "-")
                        else:
                            s.add("newpath", "t0", "c0", 0, hexs(p), "~")
            pre.append((m, s, marks))
        outs = stage1([s.line() for _, s, _ in pre])
        # a crash: it may come after a FAILED validation (no guarantees for such a tree, the history ends there); find
        # the first validation that fails or crashes by running the prefixes that end after each validation
        for i, ((m, s, marks), out) in enumerate(zip(pre, outs)):
            if not (out.startswith("CRASH(") or out == "TIMEOUT"):
                continue
            ends = [k for k, c in enumerate(s.cmds) if c.startswith("val ") or c.startswith("implicit ")]
            pouts = stage1(["lyx\t" + "\t".join(s.cmds[:k + 1]) for k in ends])
            for k, po in zip(ends, pouts):
                if po.startswith("CRASH(") or po == "TIMEOUT":
                    s.cmds = s.cmds[:k + 1]          # the validation itself crashes: keep it, T2 reports it
                    break
                if rc(results(po)[k]) != 0:
                    s.cmds = s.cmds[:k + 1]          # ends with a failing validation
                    outs[i] = po
                    break
        L = []
        for (m, s, marks), out in zip(pre, outs):
            r = results(out)
            if out.startswith("CRASH(") or out == "TIMEOUT" or len(r) < len(s.cmds):
                cmds = [pseudo("s", treeenc.schema_line(m)), pseudo("n", treeenc.name_table(m))] + s.cmds
                L.append("dfltm\t" + "\t".join(cmds))
                continue
            if r[1] != "0" or rc(r[3]) != 0:
                continue                    # module or instance rejected: not a case for this component
            cmds = [pseudo("s", treeenc.schema_line(m)), pseudo("n", treeenc.name_table(m))]
            for k, c in enumerate(s.cmds):
                cmds.append(c)
                if k in marks:
                    cmds.append(pseudo("t", self.only_m1(r[k])))
                if (c.startswith("val ") or c.startswith("implicit ")) and rc(r[k]) != 0:
                    break                   # the history ends with the first failing validation
            L.append("dfltm\t" + "\t".join(cmds))
        return L

    # ---- reading the implementation's answer -------------------------------------------------------------
    @staticmethod
    def tables(line):
        """(kind by (parent, name), keys by (parent,name)) from the #s / #n pseudo commands"""
        sch, names = None, None
        for c in line.split("\t"):
            if c.startswith("#s "):
                sch = c[3:]
            elif c.startswith("#n "):
                names = c[3:]
        ent = {}
        for e in sch.split(";"):
            if e:
                p = e.split(",")
                ent[int(p[0])] = (p[1], None if p[2] == "-" else int(p[2]), [] if p[5] == "-" else [int(x) for x in p[5].split("+")])
        nm = {}
        for e in names.split(";"):
            if e:
                p = e.split(",")
                nm[int(p[0])] = p[3]
        by = {}
        for sid, (kind, parent, keys) in ent.items():
            by[(parent, nm[sid])] = (sid, kind, [nm[k] for k in keys])
        return by

    @staticmethod
    def only_m1(dump):
        """drop the top-level trees of other modules (lyd_new_implicit_all also creates the state containers of the
        internal modules ietf-yang-library / ietf-yang-schema-mount)"""
        if dump in ("empty", ""):
            return dump
        out, keep = [], True
        for sg in dump.split(";"):
            if not sg:
                continue
            p = sg.split(":", 2)
            if p[0] == "0":
                keep = p[1] == "m1"
            if keep:
                out.append(sg)
        return ";".join(out) + ";" if out else "empty"

    @classmethod
    def flatten_diff(cls, line, dump):
        """net change lines of a libyang diff tree dump: every node whose operation (own or inherited) is create/delete"""
        dump = cls.only_m1(dump)
        if dump in ("empty", ""):
            return "none"
        by = cls.tables(line)
        segs = [x for x in dump.split(";") if x]
        ents = []
        for sg in segs:
            p = sg.split(":")
            op = None
            for j in range(5, len(p) - 1):
                if p[j] == "@yang" and p[j + 1].startswith("operation="):
                    op = bytes.fromhex(p[j + 1][len("operation="):]).decode()
                if p[j] == "@yang" and p[j + 1].startswith("orig-default=") and op == "none":
                    op = "flag"
            ents.append((int(p[0]), p[2], p[3], p[4], op))
        out = []
        stack = []          # (sid, segment text, op)
        for idx, (depth, name, val, flags, op) in enumerate(ents):
            stack = stack[:depth]
            parent = stack[-1][0] if stack else None
            sid, kind, keys = by[(parent, name)]
            seg = name
            if kind == "k" and keys:
                kv = {}
                for (d2, n2, v2, _, _) in ents[idx + 1:]:
                    if d2 <= depth:
                        break
                    if d2 == depth + 1 and n2 in keys and n2 not in kv:
                        kv[n2] = v2[1:] if v2 != "=" else "-"
                seg += "[" + ",".join(kv.get(k, "?") for k in keys) + "]"
            eff = op if op else (stack[-1][2] if stack else None)
            if eff in ("flag", "replace") and not op:
                eff = "none"                  # not inherited
            stack.append((sid, seg, eff))
            if eff in ("create", "delete", "flag", "replace"):
                out.append("%s %s%s:%s" % (eff[0], "/".join(x[1] for x in stack), val, "d" if "d" in flags else ""))
            elif eff not in (None, "none"):
                out.append("%s %s%s:%s" % (eff, "/".join(x[1] for x in stack), val, "d" if "d" in flags else ""))
        return ";".join(sorted(out)) if out else "none"

    @staticmethod
    def printed(xmlbytes):
        try:
            t = xml_tree(xmlbytes)
        except xml.parsers.expat.ExpatError:
            return "unparsable"
        out = []

        def rec(ns, depth):
            for n in ns:
                if depth == 0 and n[0] != "urn:verif:m1":
                    continue
                tagged = any(a == NCWD and v == "true" for a, v in n[3])
                txt = "-" if n[4] or not n[2] else hexs(n[2])
                out.append("%d:%s:%s:%s;" % (depth, n[1], txt, "t" if tagged else ""))
                rec(n[4], depth + 1)
        rec(t, 0)
        return "".join(out) if out else "nothing"

    @classmethod
    def printed_json(cls, line, jsonbytes):
        """the same rendering from a JSON document (RFC 7951 / RFC 7952): one entry per node INSTANCE in document order,
        the default tag taken from the metadata object "@name" of a leaf, from the i-th element of the metadata ARRAY
        "@name" (null = no metadata) of the i-th leaf-list instance; read with python's json, member order kept"""
        import json
        txt = jsonbytes.decode("utf-8", "replace")
        if not txt.strip():
            return "nothing"
        try:
            doc = json.loads(txt, object_pairs_hook=list)
        except ValueError:
            return "unparsable"
        by = cls.tables(line)
        out = []

        def canon(v):
            if v is True:
                return "true"
            if v is False:
                return "false"
            if isinstance(v, list):          # [null]: type empty
                return ""
            return str(v)

        def is_tagged(meta):
            return isinstance(meta, list) and any(k == "ietf-netconf-with-defaults:default" and v is True for k, v in meta)

        def rec(pairs, parent, depth):
            metas = {k[1:]: v for k, v in pairs if k.startswith("@") and k != "@"}
            for name, val in pairs:
                if name.startswith("@"):
                    continue
                local = name
                if ":" in name:
                    mod, local = name.split(":", 1)
                    if mod != "m1":
                        continue
                ent = by.get((parent, local))
                if ent is None:
                    out.append("unknown-member:%s;" % name)
                    continue
                sid, kind, keys = ent
                meta = metas.get(name)
                if kind == "l":
                    v = canon(val)
                    out.append("%d:%s:%s:%s;" % (depth, local, hexs(v) if v else "-", "t" if is_tagged(meta) else ""))
                elif kind == "L":
                    for i, x in enumerate(val):
                        v = canon(x)
                        mi = meta[i] if isinstance(meta, list) and i < len(meta) else None
                        # a metadata ARRAY is a list of (objects as pair lists | None); a pair list is a tagged object
                        out.append("%d:%s:%s:%s;" % (depth, local, hexs(v) if v else "-", "t" if is_tagged(mi) else ""))
                    if isinstance(meta, list) and len(meta) > len(val):
                        out.append("meta-array-longer-than-leaf-list:%s;" % name)
                elif kind == "k":
                    for inst in val:
                        out.append("%d:%s:-:;" % (depth, local))
                        rec(inst, sid, depth + 1)
                else:
                    out.append("%d:%s:-:;" % (depth, local))
                    if isinstance(val, list):
                        rec(val, sid, depth + 1)
        rec(doc, None, 0)
        return "".join(out) if out else "nothing"

    def impl_parts(self, line, out, raw=False):
        r = results(out)
        cmds = line.split("\t")[1:]
        parts = []
        k = 0
        while k < len(cmds) and k < len(r):
            c = cmds[k]
            if c.startswith("#t "):
                parts.append("T " + self.only_m1(r[k - 1]))
            elif c.startswith("val ") or c.startswith("implicit "):
                tag = "V" if c[0] == "v" else "I"
                if rc(r[k]) != 0:
                    # an error (for the comparison any error; raw: with the code unless it is LY_EVALID = 7: on data the
                    # model rejects too, which error comes first does not matter)
                    parts.append(tag + "E" + ("" if (rc(r[k]) == 7 or not raw) else str(rc(r[k]))))
                    break
                if k + 2 < len(r):
                    parts.append("%s0 %s # %s" % (tag, self.only_m1(r[k + 1]),
                                                  self.flatten_diff(line, r[k + 2]) if len(c.split(" ")) > 4 else "-"))
                    if tag == "V":
                        parts.append("Q")
            elif c.startswith("print t0 x "):
                parts.append("P%s %s" % (c.split(" ")[3], self.printed(payload(r[k])) if rc(r[k]) == 0 else "print-failed"))
            elif c.startswith("print t0 j "):
                parts.append("PJ%s %s" % (c.split(" ")[3], self.printed_json(line, payload(r[k])) if rc(r[k]) == 0 else "print-failed"))
            k += 1
        return parts

    def norm(self, line, out):
        if " | end:" in out:
            return " | ".join(self.impl_parts(line, out))
        # model: the Q lines (theorem hypotheses / conclusions on this tree) are compared as a whole: all must hold;
        # so must the hypothesis / conclusion of the with-defaults theorem on every printed tree
        parts = []
        for p in out.split(" | "):
            if p.startswith("Q "):
                parts.append("Q" if self.q_ok(p) else p)
            elif p.startswith("P") and " W=" in p and p.endswith(" R=1"):
                parts.append(p.split(" W=")[0])       # the printed set is the RFC 6243 one
            else:
                parts.append(p)
        return " | ".join(parts)

    @staticmethod
    def q_ok(part):
        if not part.startswith("Q "):
            return False
        kv = dict(x.split("=", 1) for x in part[2:].split(" "))
        return kv["N"] == "1" and kv["A"] == "1" and kv["F"] == "1" and kv["C"] == "1" and kv["K"] == "1" and kv["D"] == "1"

    def witness(self, line, model_out, impl_out):
        """does the PROPERTY fail on the implementation for this case (not only the correspondence)?"""
        by = self.tables(line) if "#s " in line else {}
        dupinst = False
        for c in line.split("\t"):
            if c.startswith("#s "):
                for e in c[3:].split(";"):
                    p = e.split(",")
                    if len(p) > 5 and ((p[1] == "k" and p[5] == "-") or (p[1] == "L" and "s" in p[3])):
                        dupinst = True
        if impl_out.startswith("CRASH(") or impl_out == "TIMEOUT":
            if dupinst:
                return ("vdiff-dupinst", "crash while building the validation diff of a duplicate-instance list: " + impl_out[:80])
            return (None, "crash: " + impl_out)
        a = self.norm(line, model_out).split(" | ")
        b = self.impl_parts(line, impl_out, raw=True) if " | end:" in impl_out else self.norm(line, impl_out).split(" | ")
        for i, (x, y) in enumerate(zip(a, b)):
            if x == y:
                continue
            if x.startswith("Q ") and y == "Q":
                # the model agrees with libyang on the tree; a hypothesis / conclusion of the C07 theorems fails on it
                kv = dict(z.split("=", 1) for z in x[2:].split(" "))
                if kv["C"] != "1":
                    return (None, "the tree handed to validation is not in canonical order")
                if kv["F"] != "1":
                    return (None, "a non-presence container's default flag disagrees with its children before validation "
                                  "(lyd_np_cont_dflt_del / _set not applied by an edit)")
                if kv["N"] != "1" and kv.get("H") == "1":
                    # the hypothesis of C07_implicit_exact_edited_partial holds for the input: the model itself would
                    # contradict the theorem (cannot happen) - never a known finding
                    return (None, "edited input (Implicit.editedb) but the validated tree is not the normal form: " + x)
                if kv["N"] != "1":
                    why = set(kv["N"].split(":", 1)[1].split(","))
                    t = None
                    if why == {"llpartial"}:
                        t = "dflt-leaflist-partial"
                    return (t, "the validated tree is not the normal form of its explicit content (%s): %s"
                            % (",".join(sorted(why)), a[i - 1][:300]))
                if kv["A"] != "1":
                    # replaying the change list together with the unrecorded NP container deletions gives the tree after
                    t = "vdiff-np-container" if (kv["AS"] == "1" and kv["S"] != "") else None
                    return (t, "the change set applied to the tree before validation does not give the tree after (%s)" % kv["S"])
                return None
            if x.startswith("P") and " W=" in x and x.split(" W=")[0] == y:
                w = x.split(" W=")[1]
                why = set(w.split(" ")[0].split(":", 1)[1].split(",")) if w.startswith("0:") else set()
                if why == {"ll"}:
                    return ("wd-leaflist-partial-default", "with-defaults mode %s: the printed node set is not the one RFC 6243 "
                            "defines (an explicit leaf-list instance equals one default value): %s" % (x.split(" ")[0], x[:200]))
                return (None, "with-defaults printing: flags inconsistent or node set differs from RFC 6243 (%s)" % w)
            raw = model_out.split(" | ")
            if x.startswith("V0") and y.startswith("VE3") and " # " in x:
                # LY_EINVAL while building the diff: changes of duplicate-instance (leaf-)list instances (addressed by
                # position) cannot be merged ("Unable to merge operation delete with delete")
                dnames = self.dupinst_names(line)
                hit = [d for d in x.split(" # ")[1].split(";")
                       if any(("/" + sg).split("[")[0].split("=")[0].endswith("/" + nm) for sg in d.split(" ", 1)[-1].split("/") for nm in dnames)]
                if hit:
                    return ("vdiff-dupinst", "lyd_validate_all(.., &diff) returns LY_EINVAL: the change set holds changes of "
                                             "duplicate-instance list instances: %s" % hit[:3])
            if x.startswith("V0") and y.startswith("VE3") and i + 1 < len(raw) and raw[i + 1].startswith("Q ") and \
                    raw[i + 1].split(" S=")[1] != "":
                return ("vdiff-np-recreate", "lyd_validate_all(.., &diff) returns LY_EINVAL on valid data: a default NP container "
                                             "is auto-deleted (not recorded) and its path is used again by the same validation (%s)"
                        % raw[i + 1].split(" S=")[1])
            if x[:2] == "PJ" and y[:2] == "PJ" and x.split(" ")[0] == y.split(" ")[0]:
                # the XML output of the same tree with the same options agrees with the model: the two serialisations of
                # libyang disagree on which node instances are printed / carry the default tag
                xo = "P" + x.split(" ")[0][2:]
                xml_i = [z for z in b if z.split(" ")[0] == xo]
                if xml_i and xml_i[0].split(" ", 1)[1] != y.split(" ", 1)[1]:
                    return (None, "with-defaults print (options %s): the JSON document and the XML document of the same tree differ "
                                  "in the printed node instances / default tags: JSON %s, XML %s" % (xo[1:], y[:300], xml_i[0][:300]))
            if x[:1] == "P" and y[:1] == "P" and x.split(" ")[0] == y.split(" ")[0] and " R=1" in x:
                # the model's selection is the RFC 6243 view (R=1) and libyang printed something else
                return (None, "with-defaults print (%s, options %s): the printed node instances / default tags differ from the "
                              "RFC 6243 view of the tree: printed %s, RFC %s"
                        % ("JSON" if x[1] == "J" else "XML", x.split(" ")[0].lstrip("PJ"), y[:300], x[:300]))
            if x[:2] == "V0" and y[:2] == "V0" and x.split(" # ")[0] != y.split(" # ")[0]:
                # another tree than the model's: is libyang's tree the normal form?
                q = self.model_q(line, y.split(" # ")[0][3:])
                if q and "N=0" in q:
                    return (None, "the tree validation produced is not the normal form of its explicit content (%s): %s"
                            % (q, y[:300]))
                if q and ("C=0" in q or "D=0" in q):
                    return (None, "the tree validation produced is not canonical / holds an unsound default flag (%s)" % q)
                return None
            if x[:2] in ("V0", "I0") and y[:2] == x[:2] and x.split(" # ")[0] == y.split(" # ")[0]:
                # same tree, another change list
                from collections import Counter
                cx, cy = Counter(x.split(" # ")[1].split(";")), Counter(y.split(" # ")[1].split(";"))
                dx = set((cx - cy) + (cy - cx))
                dnames = self.dupinst_names(line)
                if dx and all(any(("/" + sg).split("[")[0].split("=")[0].endswith("/" + nm) for sg in d.split(" ", 1)[-1].split("/")
                                  for nm in dnames) for d in dx):
                    return ("vdiff-dupinst", "the validation diff lacks / misplaces changes inside a duplicate-instance list: %s"
                            % sorted(dx)[:3])
                return (None, "the returned change set differs from the changes validation made: %s" % sorted(dx)[:4])
            return None
        return None

    @staticmethod
    def model_q(line, dump):
        """run the model's checks (#q) on a tree libyang produced"""
        import vlib
        cmds = [c for c in line.split("\t")[1:] if c.startswith("#s ") or c.startswith("#n ")]
        try:
            outs, _ = vlib.run_cases(vlib.build_model("dflt"), ["dfltm\t" + "\t".join(cmds + ["#t " + dump, "#q"])], timeout=60)
        except Exception:
            return None
        parts = outs[0].split(" | ") if outs else []
        return parts[-1] if parts and parts[-1].startswith("Q ") else None

    @classmethod
    def dupinst_names(cls, line):
        out = []
        for (parent, name), (sid, kind, keys) in cls.tables(line).items():
            if kind == "k" and not keys:
                out.append(name)
        for c in line.split("\t"):
            if c.startswith("#s "):
                nm = {v[0]: k[1] for k, v in cls.tables(line).items()}
                for e in c[3:].split(";"):
                    p = e.split(",")
                    if len(p) > 5 and p[1] == "L" and "s" in p[3]:
                        out.append(nm[int(p[0])])
        return out
