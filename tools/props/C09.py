"""C09 - a failed schema operation leaves the context exactly as it was"""
from props import comps_ctx

PID = "C09"
LEVEL = "proof"


def components():
    return [comps_ctx.CtxScript(), comps_ctx.CtxInternals()]


def oracles_():
    return [comps_ctx.CtxRestore(), comps_ctx.CtxModelInv()]


MANIFEST = {
    "text": "placeholder",
    "note": "placeholder",
    "technique": "Coq proof over hand-written model + differential correspondence (extracted OCaml vs C) + property oracle",
}
