"""C09 - a failed schema operation leaves the context exactly as it was"""
from props import comps_ctx

PID = "C09"
LEVEL = "proof"


def components():
    return [comps_ctx.CtxScript(), comps_ctx.CtxInternals()]


def oracles_():
    return [comps_ctx.CtxRestore(), comps_ctx.CtxRich(), comps_ctx.CtxModelInv()]


TRUSTED = [
    "impl/t_ctx.c generates the YANG text of the abstract modules (imports, features with if-feature, one node per fault kind) "
    "and serves it through ly_ctx_set_module_imp_clb; the compiled schema is observed as the list of feature-dependent leaves",
]

ASSUMPTIONS = [
    "Model fragment (Coq theorems and T2 ctxs): context created with LY_CTX_NO_YANGLIBRARY | LY_CTX_DISABLE_SEARCHDIRS (+ "
    "LY_CTX_EXPLICIT_COMPILE), import callback set before the first module is loaded; modules have imports, features with "
    "if-feature and one node per fault kind; no submodules, augments, deviations, identities, cross-module leafref/when/must (no "
    "implicit implementing), acyclic imports; every user module has a data node (never a single-module dep set). "
    "LY_CTX_ALL_IMPLEMENTED is not modelled and never set in the scripts the model runs; ENABLE_IMP_FEATURES / REF_IMPLEMENTED are "
    "stored bits in the model (the modelled modules have nothing they act on); their effect, and the constructs excluded above, are "
    "checked by the oracle ctx-rich on the library only (no Coq counterpart)",
    "Outside everything: search directories, the yang-library module and ly_ctx_new_yl*, extension plugins, printed/compiled "
    "contexts, memory safety beyond the data-tree and dangling-pointer checks of the oracles",
]

MANIFEST = {
    "text": "Coq (Properties_C09_ctx.v; hand-written model Context.v = lys_parse_in / lys_parse_load / _lys_set_implemented / "
            "lys_implement / lys_unres_dep_sets_create / lys_compile_depset_all / lys_unres_glob_revert / ly_ctx_compile / "
            "ly_ctx_set_options / ly_ctx_unset_options transcribed update by update - modelled, not verified C; it follows /repo "
            "21681e3, af27b8d, d89c6b6, c018937; 1c17162 and d873110 touch nothing the model has; the state carries the options "
            "EXPLICIT_COMPILE, ENABLE_IMP_FEATURES, REF_IMPLEMENTED, SET_PRIV_PARSED). MAIN THEOREM C09_failed_op_restores: for every "
            "repository R, every state s reachable from a new context (either compile mode) with quiescent s = true (executable: "
            "nothing pending in unres, no to_compile mark, every implemented module compiled against the current features and "
            "compilable again) and every operation o of parse / load / set_implemented / compile / set_options / unset_options, if "
            "step returns RErr (a model run that ends in RFuel or RAbort = assert of the C code is not covered) then obs (modules, "
            "revisions, implemented, feature values, abstract compiled schema, get_module_latest/implemented answers, hashed fields, "
            "ly_ctx_get_options) is unchanged, whatever stage fails; no other hypothesis (the latest-revision invariant is proved for "
            "all reachable states). The two option calls are covered because they cannot fail there (C09_option_calls_quiescent_ok); "
            "C09_compile_quiescent_ok: neither can ly_ctx_compile, and it compiles nothing; C09_syntax_fault_restores: a syntax error "
            "always fails. C09_set_options_failed_keeps_options: in EVERY state (reachable or not, quiescent or not) a failing "
            "ly_ctx_set_options leaves the options as they were (modules not covered there); Example "
            "C09_set_options_or_first_refuted: the variant that ORs the flags in first (seeded change C09-7) does not, with "
            "C09_set_options_failed_witness on the model as coded. The statement over all reachable states is REFUTED "
            "(C09_failed_op_restores_refuted, C09_quiescent_necessary: explicit compilation with pending changes = known finding "
            "ctx-explicit-revert-pending); Example C09_hypotheses_satisfiable: ten failing operations, one per fault kind, in a "
            "reachable quiescent state. Regression theorems of fixed defects: C09_latest_flag_given_back (ctx-latest-rev-lost, fixed "
            "21681e3), C09_feature_bits_restored (ctx-features-kept-implemented / -imported, fixed af27b8d). Beyond obs: "
            "C09_later_load_unaffected (a later call depends on the C state `core` only) but C09_later_load_affected_refuted "
            "(LYS_MOD_IMPORTED_REV stays: known ctx-hidden-state-left), and hence the whole-history form is REFUTED too: "
            "C09_history_failed_ops_invisible_refuted (contexts without EXPLICIT_COMPILE: obs at the end of a history of calls from "
            "the new context is not always obs at the end of its calls that did not return RErr, succ_ops) with "
            "C09_history_counterexample_quiescent (in the counterexample every state between two calls is quiescent, so quiescence "
            "preservation is not the missing piece; the same history is the T2 ctxs witness imported-rev, where model and library "
            "agree line by line, and ctx-restore tags it on the library via the shadow context); C09_data_trees_still_valid_refuted (the failing call and the "
            "revert recompile old modules: known ctx-revert-recompiles) while C09_parse_failure_keeps_compiled_trees (a failure in the "
            "parse stage compiles nothing); C09_change_count_monotone (modulo 2^16, not restored, not in obs). Tie: T2 ctxs - model "
            "and real library print identical lines after every operation of witness, systematic (every fault kind at every "
            "position) and random scripts incl. option calls: result, change-count moved, per module revision / implemented / "
            "latest_revision bits / to_compile / feature values / feature-dependent leaves / recompiled-or-not, latest and "
            "implemented answers, hash recomputed as documented, options; an abort on assert must coincide (known ctx-assert-latest); "
            "T2 ctxint - table of the internal modules. Property oracles on the library itself: ctx-restore (same abstract modules: "
            "before/after observable, compiled YANG print hashes, data trees parsed before, shadow context that only saw the "
            "successful operations) and ctx-rich (oracle level only, no model: identities, submodules with own imports and features, "
            "augments, deviations, leafref/must into imports, option calls incl. ALL_IMPLEMENTED; identity derived[] sets, "
            "augmented_by/deviated_by back-links, compiled prints, options, shadow context). Fixed and retired at oracle level: "
            "ctx-imp-features-kept (d89c6b6), ctx-explicit-compile-partial (c018937), ctx-target-not-compiled (d873110), "
            "ctx-ref-implemented-set-late (1c17162).",
    "note": "The compiled schema of the model is abstract (which features of the module and of its imports were enabled, plus "
            "whether disabled nodes were already removed). Preservation of quiescence is tested on the model only (oracle ctx-model-inv, which "
            "also re-evaluates the main theorem along scripts), not proved: by successful calls without EXPLICIT_COMPILE, and (seen "
            "on every failing call of the generated scripts) by failing calls from a quiescent state; a proof needs one more "
            "invariant of the revert (a to_compile mark only inside the dependency sets being recompiled) and would extend the main "
            "theorem to runs of failing calls only, not to whole histories (see C09_history_counterexample_quiescent). Most failing operations "
            "of the random scripts (very roughly 85%) start from a quiescent state and are covered by the main theorem; the others "
            "are explicit-compile states with pending changes. Open known findings: ctx-explicit-revert-pending, "
            "ctx-hidden-state-left, ctx-revert-recompiles, ctx-assert-latest.",
    "technique": "Coq proof over hand-written model + differential correspondence (extracted OCaml vs C) + property oracle on the implementation",
}
