"""C09 - a failed schema operation leaves the context exactly as it was"""
from props import comps_ctx

PID = "C09"
LEVEL = "proof"


def components():
    return [comps_ctx.CtxScript(), comps_ctx.CtxInternals()]


def oracles_():
    return [comps_ctx.CtxRestore(), comps_ctx.CtxRich(), comps_ctx.CtxModelInv()]


TRUSTED = [
    "impl/t_ctx.c generates the YANG text of the abstract modules (imports, features with if-feature, one node per fault kind) "
    "and serves it through ly_ctx_set_module_imp_clb; the compiled schema is observed as the list of feature-dependent leaves",
]

ASSUMPTIONS = [
    "context created with LY_CTX_NO_YANGLIBRARY | LY_CTX_DISABLE_SEARCHDIRS (+ LY_CTX_EXPLICIT_COMPILE), import callback set before "
    "the first module is loaded; no submodules, augments, deviations, cross-module leafref/when/must (no implicit implementing), "
    "acyclic imports; every module has a data node (never a single-module dep set); LY_CTX_ALL_IMPLEMENTED is never set in "
    "the scripts the model runs, and ENABLE_IMP_FEATURES / REF_IMPLEMENTED are stored bits there (the modelled modules have nothing "
    "they act on; their effect on richer modules is checked by the oracle ctx-rich on the library only)",
]

MANIFEST = {
    "text": "Coq (Properties_C09_ctx.v, model Context.v = lys_parse_in / lys_parse_load / _lys_set_implemented / lys_implement / "
            "lys_unres_dep_sets_create / lys_compile_depset_all / lys_unres_glob_revert / ly_ctx_set_options / ly_ctx_unset_options "
            "transcribed update by update, as of /repo 21681e3, af27b8d, d89c6b6, c018937, d873110; the state carries the options "
            "EXPLICIT_COMPILE, ENABLE_IMP_FEATURES, REF_IMPLEMENTED, SET_PRIV_PARSED): MAIN THEOREM C09_failed_op_restores - in "
            "every reachable quiescent state (executable: nothing pending, implemented = compiled against the current features) a "
            "failing parse / load / implement / compile / set_options / unset_options leaves obs "
            "(modules, revisions, implemented, feature values, compiled schema, get_module_latest/implemented answers, hashed fields, "
            "ly_ctx_get_options) unchanged (the option calls because they cannot fail there: C09_option_calls_quiescent_ok); in EVERY "
            "state a failing ly_ctx_set_options leaves the options as they were (C09_set_options_failed_keeps_options; the variant "
            "that ORs the flags in first is refuted by a witness, C09_set_options_or_first_refuted = seeded change C09-7), for every failing stage and both compile modes; no other hypothesis (the latest-revision invariant is proved "
            "for all reachable states, the feature bits are restored by the revert). The full statement over all reachable states "
            "is still REFUTED (C09_failed_op_restores_refuted / C09_quiescent_necessary: explicit compilation with pending changes); "
            "regression theorems for the three fixed defects (C09_latest_flag_given_back, C09_feature_bits_restored); "
            "ly_ctx_compile of a quiescent context cannot fail; parse-stage failures compile nothing (data trees stay valid) while "
            "data_trees_still_valid and later_load_unaffected are refuted by witnesses (revert recompiles; LYS_MOD_IMPORTED_REV "
            "stays); change count is monotone modulo 2^16. Tie: T2 ctxs (model and real library print identical lines after every "
            "operation of random and systematic scripts, white-box fields included) and the property oracles on the library itself: "
            "ctx-restore (before/after observable, compiled YANG print hashes, data trees, shadow context that only saw the "
            "successful operations) and ctx-rich (modules with identities, submodules with own imports, augments, deviations: "
            "identity derived[] sets, augmented_by/deviated_by back-links, compiled prints, shadow context).",
    "note": "The compiled schema is abstract (which features of the module and of its imports were enabled, plus whether disabled "
            "nodes were already removed). Not modelled: see ASSUMPTIONS. Preservation of quiescence by successful operations is "
            "tested on the model (oracle ctx-model-inv), not proved. About 85% of the failing operations of random scripts start "
            "from a quiescent state (covered by the main theorem); the others are explicit-compile states with pending changes.",
    "technique": "Coq proof over hand-written model + differential correspondence (extracted OCaml vs C) + property oracle on the implementation",
}
