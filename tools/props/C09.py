"""C09 - a failed schema operation leaves the context exactly as it was"""
from props import comps_ctx

PID = "C09"
LEVEL = "proof"


def components():
    return [comps_ctx.CtxScript(), comps_ctx.CtxInternals()]


def oracles_():
    return [comps_ctx.CtxRestore(), comps_ctx.CtxModelInv()]


TRUSTED = [
    "impl/t_ctx.c generates the YANG text of the abstract modules (imports, features with if-feature, one node per fault kind) "
    "and serves it through ly_ctx_set_module_imp_clb; the compiled schema is observed as the list of feature-dependent leaves",
]

ASSUMPTIONS = [
    "context created with LY_CTX_NO_YANGLIBRARY | LY_CTX_DISABLE_SEARCHDIRS (+ LY_CTX_EXPLICIT_COMPILE), import callback set before "
    "the first module is loaded; no submodules, augments, deviations, cross-module leafref/when/must (no implicit implementing), "
    "acyclic imports; every module has a data node (never a single-module dep set)",
]

MANIFEST = {
    "text": "Coq (Properties_C09_ctx.v, model Context.v = lys_parse_in / lys_parse_load / _lys_set_implemented / lys_implement / "
            "lys_unres_dep_sets_create / lys_compile_depset_all / lys_unres_glob_revert transcribed update by update): the full "
            "statement failed_op_restores is REFUTED (C09_failed_op_restores_refuted; the library shows the same: 6 known findings, a 7th - the lost latest-revision flag - was fixed by /repo 21681e3 and is now a regression theorem C09_latest_flag_given_back). "
            "Proved: C09_failed_op_restores_partial - from a reachable quiescent state (executable: nothing pending, implemented = compiled "
            "against the current features) a failing parse / load / implement / compile that keeps the feature bits of the existing "
            "modules (executable condition on the state at the cleanup jump) leaves obs (modules, "
            "revisions, implemented, feature values, compiled schema, get_module_latest/implemented answers, hashed fields) unchanged, "
            "for every failing stage and both compile modes (uses the proved invariant that exactly the newest revision of a name carries LYS_MOD_LATEST_REV in every reachable state); C09_side_conditions_necessary (each of the two conditions alone is "
            "violated by a reachable witness that is not restored); unconditional corollaries for a syntax error and for "
            "lys_set_implemented(m, NULL); ly_ctx_compile of a quiescent context cannot fail; parse-stage failures compile nothing "
            "(data trees stay valid) while data_trees_still_valid and later_load_unaffected are refuted by witnesses "
            "(revert recompiles; LYS_MOD_IMPORTED_REV stays); change count is monotone modulo 2^16. Tie: T2 ctxs (model and real "
            "library print identical lines after every operation of random and systematic scripts, white-box fields included) and "
            "the property oracle ctx-restore on the library itself (before/after observable, compiled YANG print hashes, data "
            "trees, shadow context that only saw the successful operations).",
    "note": "The compiled schema is abstract (which features of the module and of its imports were enabled, plus whether disabled "
            "nodes were already removed). Not modelled: see ASSUMPTIONS. Preservation of quiescence by successful operations is "
            "tested on the model (oracle ctx-model-inv), not proved. About 77% of the failing operations of random scripts satisfy "
            "the conditions of the partial theorem; the others are instances of the known findings.",
    "technique": "Coq proof over hand-written model + differential correspondence (extracted OCaml vs C) + property oracle on the implementation",
}
