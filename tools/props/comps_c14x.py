"""comps_c14x.py - C14 oracles over impl/t_c14x.c: the option matrices of lyd_dup_* and lyd_merge_* on every node kind.

What oracles.MergeDup / comps_merge.MergeModel do not reach (generated schemas without anydata / anyxml / opaque nodes /
operations, dup only through lyd_dup_siblings(NULL parent) with three option sets, merge only through lyd_merge_siblings):

  DupMatrix   every combination of LYD_DUP_RECURSIVE / NO_META / WITH_PARENTS / WITH_FLAGS (/ WITH_PRIV) x lyd_dup_single,
              lyd_dup_siblings, lyd_dup_single_to_ctx, lyd_dup_siblings_to_ctx x with / without a `parent` argument x node
              position (top level, nested, list instance, leaf-list instance, key, default node, anydata / anyxml of every
              value representation, opaque node and opaque child, metadata on the node / ancestors / descendants / siblings).
              The EXPECTED tree is computed here from the dump of the ORIGINAL (dup_expect), never by calling libyang again.
  MergeKinds  LYD_MERGE_DESTRUCT / DEFAULTS / WITH_FLAGS in all combinations x lyd_merge_tree / lyd_merge_siblings /
              lyd_merge_module (callback log, module filter) on trees with anydata / anyxml (values of every representation
              differing between target and source), opaque nodes, metadata, two modules, an RPC tree; source subtrees missing
              in the target, source == target, empty source, empty target, nested source (refused). Expected result:
              merge_ref below (a reference written from the documentation of the merge, over the dumped operands).

Both read everything from the case line and the answer line (the schema facts they need travel in a pseudo command), so a
replay needs no other state."""
import json

import gens
import vlib
import yanggen
from lyxlib import (Script, results, rc, PARSE_STRICT, PARSE_ONLY, PARSE_OPAQ, VAL_PRESENT, DUP_RECURSIVE, DUP_NO_META, DUP_WITH_PARENTS,
                    DUP_WITH_FLAGS, MERGE_DESTRUCT, MERGE_DEFAULTS, MERGE_WITH_FLAGS)
from props.oracles import Oracle, crashed
from vlib import hexs, unhex

DUP_WITH_PRIV = 0x20
LY_EINVAL = 3
DRIVER = "t_c14x"


# ------------------------------------------------------------------------------------------------
# generator: yanggen modules + anydata / anyxml / when / a second module / an rpc; instances with values for them
# ------------------------------------------------------------------------------------------------
class SAny(yanggen.SNode):
    def __init__(self, name, kind, **kw):
        super().__init__(name, **kw)
        self.kind = kind              # "anydata" | "anyxml"

    def yang(self, ind, cfg_parent=True):
        s = "%s%s %s {" % (ind, self.kind, self.name)
        if not self.config and cfg_parent:
            s += " config false;"
        return s + self.common() + " }\n"


class SRaw(yanggen.SNode):
    """not a schema node: an instance of it is printed as the raw XML text in its value (elements the module does not
    define; parsed with LYD_PARSE_OPAQ they become opaque nodes created by the PARSER, with value prefix data)"""
    kind = "rawxml"


def add_raw(rng, m, dnodes, depth=0):
    for d in dnodes:
        if d.schema.kind in ("container", "list") and rng.random() < 0.5:
            add_raw(rng, m, d.children, depth + 1)
    if rng.random() < (0.8 if depth == 0 else 0.4):
        for nm in rng.sample(["u1", "u2", "u3"], rng.randrange(1, 3)):
            r = SRaw(nm)
            r.module = m
            xml = '<%s xmlns="%s" xmlns:p="urn:p"%s>%s</%s>' % (
                nm, m.ns, (' p:at="%s"' % word(rng)) if rng.random() < 0.5 else "",
                # (no prefixed value "p:x": lyd_compare_single() is not reflexive for it - reported, not a C14 matter - and
                # the invariant checker compares nodes)
                ("<in>%s</in>" % word(rng)) if rng.random() < 0.4 else word(rng), nm)
            dnodes.append(yanggen.DNode(r, value=xml))


def inject_any(rng, mod, nodes, config, parent, cnt, p):
    for n in list(nodes):
        if n.kind in ("container", "list"):
            inject_any(rng, mod, n.children, n.config, n, cnt, 0.6)
    if rng.random() < p:
        for _ in range(rng.randrange(1, 3)):
            cnt[0] += 1
            kind = "anydata" if rng.random() < 0.5 else "anyxml"
            a = SAny("%s%d" % ("ad" if kind == "anydata" else "ax", cnt[0]), kind, config=config)
            a.parent = parent
            a.module = mod
            nk = len([c for c in nodes if getattr(c, "is_key", False)])
            nodes.insert(rng.randrange(nk, len(nodes) + 1), a)


def gen_module(rng, state=True, rpc=False):
    g = yanggen.SchemaGen(rng, adversarial=rng.random() < 0.3, state=state, userord=True)
    m = g.module()
    cnt = [0]
    inject_any(rng, m, m.nodes, True, None, cnt, 0.9)
    for n in m.all_nodes():
        if n.kind != "choice" and not getattr(n, "is_key", False) and rng.random() < 0.1:
            n.when = ("true()", None)
    if rpc:
        saved = g.state
        g.state = False
        inp = g.nodes(2, count=rng.randrange(2, 4))
        g.state = saved
        for n in inp:
            if n.kind == "leaf":
                n.mandatory = False
        m.rpcs = [("op1", inp, [])]
        for n in m.all_nodes():
            n.module = m
        inject_any(rng, m, inp, True, None, cnt, 1.0)
    for n in m.all_nodes():
        # (a carriage return in a default makes the module text invalid)
        if n.kind == "leaf" and n.default:
            n.default = n.default.replace("\r", "")
        elif n.kind == "leaf-list":
            n.defaults = [d.replace("\r", "") for d in n.defaults]
    return m


M2_YANG = """module m2 {
  yang-version 1.1;
  namespace "urn:verif:m2";
  prefix m2;
  container c2x { leaf a { type string; } anydata ad2; leaf-list b { type int8; }
    list l2 { key "k"; leaf k { type int8; } leaf v { type string; } } }
  leaf top2 { type int8; }
  anyxml ax2;
  leaf-list tb { type int8; }
}
"""
M2_SCHEMA = {"m2:c2x": ("container", 0), "m2:a": ("leaf", 0), "m2:ad2": ("anydata", 1), "m2:b": ("leaf-list", 2),
             "m2:l2": ("list", 3), "m2:k": ("leaf", 0), "m2:v": ("leaf", 1),
             "m2:top2": ("leaf", 1), "m2:ax2": ("anyxml", 2), "m2:tb": ("leaf-list", 3)}


def m2_ints(rng, other=None):
    """sorted int8 values for the system-ordered (leaf-)lists of m2: long enough to own sorting trees; given the values of
    the other tree, mostly FEWER values, part of them new and in the gaps of the other's"""
    if other is not None and len(other) > 2 and rng.random() < 0.7:
        n = rng.randrange(2, len(other))
        vals = set(rng.sample(other, rng.randrange(0, n)))
        while len(vals) < n:
            vals.add(rng.randrange(-30, 31))
        return sorted(vals)
    return sorted(set(rng.randrange(-30, 31) for _ in range(rng.randrange(0, 9))))


def m2_doc(rng, other=None):
    """(document, int lists used) - other: the int lists of the other tree of the case"""
    ints = [m2_ints(rng, other[i] if other else None) for i in range(3)]
    s = ""
    if rng.random() < 0.85:
        s += '<c2x xmlns="urn:verif:m2">'
        if rng.random() < 0.7:
            s += "<a>%s</a>" % word(rng)
        if rng.random() < 0.7:
            s += "<ad2>%s</ad2>" % any_xml(rng, False)
        for v in ints[0]:
            s += "<b>%d</b>" % v
        for v in ints[1]:
            s += "<l2><k>%d</k>%s</l2>" % (v, ("<v>%s</v>" % word(rng)) if rng.random() < 0.5 else "")
        s += "</c2x>"
    if rng.random() < 0.6:
        s += '<top2 xmlns="urn:verif:m2">%d</top2>' % rng.randrange(-5, 5)
    if rng.random() < 0.6:
        s += '<ax2 xmlns="urn:verif:m2">%s</ax2>' % any_xml(rng, True)
    for v in ints[2]:
        s += '<tb xmlns="urn:verif:m2">%d</tb>' % v
    return s, ints


def word(rng):
    return "".join(rng.choice("abcdxyz019") for _ in range(rng.randrange(1, 6)))


def any_xml(rng, text_ok, depth=2):
    """content of an anydata / anyxml element: element children only (mixed content is a known parser finding)"""
    if text_ok and rng.random() < 0.2:
        return word(rng)
    out = ""
    for _ in range(rng.randrange(0 if depth == 2 else 1, 3)):
        nm = rng.choice(["e", "f", "g", "h"])
        at = (' at="%s"' % word(rng)) if rng.random() < 0.3 else ""
        if depth > 0 and rng.random() < 0.4:
            out += "<%s%s>%s</%s>" % (nm, at, any_xml(rng, False, depth - 1), nm)
        else:
            out += "<%s%s>%s</%s>" % (nm, at, word(rng), nm)
    return out


def add_any(rng, dnodes, schema_children, p=0.8):
    for d in dnodes:
        if d.schema.kind in ("container", "list"):
            add_any(rng, d.children, d.schema.children, p)
    for s, path in yanggen.flatten_children(schema_children):
        if isinstance(s, SAny) and not path and not any(d.schema is s for d in dnodes) and rng.random() < p:
            dnodes.append(yanggen.DNode(s, value=any_xml(rng, s.kind == "anyxml")))


def vary_any(rng, dnodes, p=0.7):
    for d in dnodes:
        if isinstance(d.schema, SAny):
            if rng.random() < p:
                d.value = any_xml(rng, d.schema.kind == "anyxml")
        else:
            vary_any(rng, d.children, p)


def add_meta(rng, dnodes, p):
    for d in dnodes:
        if not d.meta and rng.random() < p:
            d.meta.append(("m1", "note", word(rng)))
        add_meta(rng, d.children, p)


def to_xml(forest, parent_mod=None):
    out = []
    for n in forest:
        s = n.schema
        attrs = ""
        if s.module is not parent_mod:
            attrs += ' xmlns="%s"' % s.module.ns
        for mm, mn, mv in n.meta:
            attrs += ' xmlns:%s="urn:verif:%s" %s:%s="%s"' % (mm, mm, mm, mn, yanggen.xml_attr(mv))
        if s.kind == "rawxml":
            out.append(n.value)
        elif s.kind in ("anydata", "anyxml"):
            out.append("<%s%s>%s</%s>" % (s.name, attrs, n.value, s.name))
        elif s.kind in ("leaf", "leaf-list"):
            if isinstance(s.type, yanggen.TEmpty) or n.value == "":
                out.append("<%s%s/>" % (s.name, attrs))
            else:
                out.append("<%s%s>%s</%s>" % (s.name, attrs, yanggen.xml_text(n.value), s.name))
        else:
            out.append("<%s%s>%s</%s>" % (s.name, attrs, to_xml(n.children, s.module), s.name))
    return "".join(out)


# ------------------------------------------------------------------------------------------------
# schema families: a second module (m3) that defines EQUAL local names at the same level as m1 (augments into m1's
# containers, lists, choices, rpc input; top-level nodes named like m1's), feature-dependent nodes, another load order
# ------------------------------------------------------------------------------------------------
class ExtMod:
    name = "m3"
    ns = "urn:verif:m3"
    prefix = "m3"

    def __init__(self):
        self.tops = []          # top-level nodes
        self.augs = []          # (schema path text, [nodes], target SNode | ("rpc", name), case name | None)

    def nodes_for(self, target):
        """nodes augmented into the container / list / choice `target` (case name for a choice)"""
        return [(ns, case) for _, ns, t, case in self.augs if t is target]

    def yang(self):
        s = 'module m3 {\n  yang-version 1.1;\n  namespace "%s";\n  prefix m3;\n  import m1 { prefix m1; }\n' % self.ns
        for n in self.tops:
            s += n.yang("  ")
        for path, ns, _, case in self.augs:
            s += '  augment "%s" {\n' % path
            if case:
                s += "    case %s {\n" % case
            for n in ns:
                s += n.yang("      " if case else "    ")
            if case:
                s += "    }\n"
            s += "  }\n"
        return s + "}\n"


def set_module(nodes, mod):
    for n in nodes:
        n.module = mod
        if n.kind in ("container", "list"):
            set_module(n.children, mod)


def gen_ext(rng, m):
    """the augmenting module for m (names equal to existing children of the augmented node with probability 0.7)"""
    ext = ExtMod()
    g = yanggen.SchemaGen(rng, adversarial=False, state=False, userord=True, constraints=False, choices=False)
    g.n = 500
    cnt = [0]

    def fresh(config, like=None):
        r = rng.random()
        if like is not None and rng.random() < 0.5:
            r = {"leaf": 0.1, "leaf-list": 0.5, "container": 0.7, "list": 0.85}.get(like.kind, 0.95)
        if r < 0.45:
            n = g.leaf(config, allow_mand=False)
        elif r < 0.6:
            n = g.leaflist(config)
        elif r < 0.75:
            n = yanggen.SContainer(g.nm("c"), [g.leaf(config, allow_mand=False), g.leaf(config, allow_mand=False)],
                                   presence=rng.random() < 0.4, config=config)
        elif r < 0.9:
            n = g.list(1, config)
        else:
            cnt[0] += 1
            n = SAny("xa%d" % cnt[0], rng.choice(["anydata", "anyxml"]), config=config)
        return n

    usedall = set()

    def named(config, existing, used):
        like = rng.choice(existing) if existing and rng.random() < 0.7 else None
        n = fresh(config, like)
        if like is not None and like.name not in usedall:
            n.name = like.name
        usedall.add(n.name)
        return n

    targets = []

    def walk(children, path):
        for n in children:
            if n.kind in ("container", "list"):
                targets.append((n, path + "/m1:" + n.name))
                walk(n.children, path + "/m1:" + n.name)
            elif n.kind == "choice" and path:
                # (only choices that are not nested in another choice; not a TOP-LEVEL choice: the data parsers look a
                # top-level element of namespace m3 up among the top-level nodes of m3 only and reject it - reported)
                targets.append((n, path + "/m1:" + n.name))
    walk(m.nodes, "")
    for name, inp, _ in m.rpcs:
        targets.append((("rpc", name, inp), "/m1:%s/m1:input" % name))
        walk(inp, "/m1:%s/m1:input" % name)
    rng.shuffle(targets)
    for k, (t, path) in enumerate(targets):
        if k and rng.random() > 0.55:
            continue
        used = set()
        if isinstance(t, tuple):
            ns = [named(True, [c for c, _ in yanggen.flatten_children(t[2])], used) for _ in range(rng.randrange(1, 3))]
            ext.augs.append((path, ns, ("rpc", t[1]), None))
        elif t.kind == "choice":
            own = [c for c, _ in yanggen.flatten_children([t])]
            n = named(own[0].config if own else True, [c for c in own if c.kind == "leaf"], used)
            ext.augs.append((path, [n], t, "xcs%d" % k))
        else:
            existing = [c for c, _ in yanggen.flatten_children(t.children)]
            ns = [named(t.config, existing, used) for _ in range(rng.randrange(1, 3))]
            ext.augs.append((path, ns, t, None))
    used = set()
    ext.tops = [named(True, [c for c, _ in yanggen.flatten_children(m.nodes)], used) for _ in range(rng.randrange(1, 3))]
    set_module(ext.tops, ext)
    for _, ns, t, _ in ext.augs:
        set_module(ns, ext)
        for n in ns:
            n.parent = t if not isinstance(t, tuple) else None
    return ext


def ext_instance(rng, ig, n, forced=False):
    if isinstance(n, SAny):
        return [yanggen.DNode(n, value=any_xml(rng, n.kind == "anyxml"))] if (forced or rng.random() < 0.7) else []
    return ig.instances(n, 2, forced)


def add_ext(rng, ig, dnodes, parent, schema_children, ext, rpcname=None):
    """instances of the augmented nodes (valid by construction: the case of another module replaces the nodes of the other
    cases of its choice)"""
    for d in dnodes:
        if d.schema.kind in ("container", "list") and d.schema.module is not ext:
            add_ext(rng, ig, d.children, d.schema, d.schema.children, ext)
    if parent is not None or rpcname is not None:
        for _, ns, t, case in ext.augs:
            if case is None and (t is parent or (rpcname is not None and t == ("rpc", rpcname))):
                for n in ns:
                    dnodes += ext_instance(rng, ig, n)
    for ch in schema_children:
        if ch.kind == "choice":
            for ns, case in ext.nodes_for(ch):
                if rng.random() < 0.45:
                    mem = {id(c) for c, _ in yanggen.flatten_children([ch])}
                    dnodes[:] = [d for d in dnodes if id(d.schema) not in mem]
                    for n in ns:
                        dnodes += ext_instance(rng, ig, n, True)
    if parent is None and rpcname is None:
        for n in ext.tops:
            dnodes += ext_instance(rng, ig, n)


def inject_features(rng, m):
    """feature-dependent leaves (never instantiated): the two contexts of a case enable different feature sets"""
    m.features = ["f1"]
    k = [0]

    def rec(nodes, config, parent, p):
        for n in list(nodes):
            if n.kind in ("container", "list"):
                rec(n.children, n.config, n, 0.4)
        if rng.random() < p:
            k[0] += 1
            lf = yanggen.SLeaf("fx%d" % k[0], yanggen.TString(), config=config, iffeature="f1")
            lf.module = m
            lf.parent = parent
            nk = len([c for c in nodes if getattr(c, "is_key", False)])
            nodes.insert(rng.randrange(nk, len(nodes) + 1), lf)
    rec(m.nodes, True, None, 0.8)


def schema_desc(m, with_m2=False, ext=None):
    """facts about the schema the expectations need: kind, key?, number of keys, ordered-by user?, position among the
    data children of the parent (lys_getnext order), module index"""
    S = {}

    def entry(mod, n, pos, mi):
        S["%s:%s" % (mod, n.name)] = {"k": n.kind, "key": bool(getattr(n, "is_key", False)),
                                     "nk": len(n.keys) if n.kind == "list" else 0,
                                     "uo": bool(getattr(n, "userord", False)), "ord": pos, "mi": mi}

    def flatx(children):
        """data children in lys_getnext order: the nodes a case of another module adds to a choice follow the choice's own"""
        out = []
        for n in children:
            if n.kind == "choice":
                for _, cns in n.cases:
                    out += flatx(cns)
                if ext is not None:
                    for ns, _ in ext.nodes_for(n):
                        out += ns
            else:
                out.append(n)
        return out

    def rec(children, owner=None, base=0):
        fl = flatx(children)
        if ext is not None and owner is not None:
            for _, ns, t, case in ext.augs:
                if case is None and (t is owner or t == owner):
                    fl = fl + ns
        for pos, n in enumerate(fl):
            entry(n.module.name if getattr(n, "module", None) is not None else m.name, n, base + pos, 0)
            if n.kind in ("container", "list"):
                rec(n.children, n)
    rec(m.nodes)
    for i, (name, inp, _) in enumerate(m.rpcs):
        S["%s:%s" % (m.name, name)] = {"k": "rpc", "key": False, "nk": 0, "uo": False, "ord": 10000 + i, "mi": 0}
        rec(inp, ("rpc", name))
    if ext is not None:
        for pos, n in enumerate(ext.tops):
            entry("m3", n, pos, 2)
            if n.kind in ("container", "list"):
                rec(n.children, n)
    if with_m2:
        for k, (kind, pos) in M2_SCHEMA.items():
            S[k] = {"k": kind, "key": k == "m2:k", "nk": 1 if kind == "list" else 0, "uo": False, "ord": pos, "mi": 1}
    return S


# ------------------------------------------------------------------------------------------------
# the dump as a tree
# ------------------------------------------------------------------------------------------------
class XN:
    __slots__ = ("mod", "name", "opq", "val", "flags", "priv", "meta", "children")

    def key(self):
        return self.mod + ":" + self.name

    def copy(self, deep=True):
        m = XN()
        m.mod, m.name, m.opq, m.val, m.flags, m.priv = self.mod, self.name, self.opq, self.val, self.flags, self.priv
        m.meta = list(self.meta)
        m.children = [c.copy() for c in self.children] if deep else []
        return m


def parse_xdump(s):
    root = []
    if s in ("empty", "", "-"):
        return root
    stack = []
    for ent in s.split(";"):
        if not ent:
            continue
        f = ent.split(":")
        d = int(f[0])
        n = XN()
        n.opq = f[1].startswith("?")
        n.mod = f[1][1:] if n.opq else f[1]
        n.name, n.val, n.flags, n.priv = f[2], f[3], f[4], f[5]
        rest = f[6:]
        n.meta = [rest[i] + ":" + rest[i + 1] for i in range(0, len(rest) - 1, 2)]
        n.children = []
        (root if d == 0 else stack[d - 1].children).append(n)
        stack[d:] = [n]
    return root


def render_one(n, depth=0):
    return "%d:%s%s:%s:%s:%s:%s%s;" % (depth, "?" if n.opq else "", n.mod, n.name, n.val, n.flags, n.priv,
                                        "".join(":" + m for m in n.meta))


def render(forest, depth=0):
    return "".join(render_one(n, depth) + render(n.children, depth + 1) for n in forest)


def flat(forest):
    """DFS pre-order: list of (node, ancestors (top first), sibling list, index among the siblings)"""
    out = []

    def rec(lst, anc):
        for i, n in enumerate(lst):
            out.append((n, anc, lst, i))
            rec(n.children, anc + (n,))
    rec(forest, ())
    return out


def pretty(dump, limit=900):
    """readable form of a dump for failure details"""
    out = []
    for ent in dump.split(";"):
        if not ent:
            continue
        f = ent.split(":")
        v = f[3]
        if v.startswith("=") or v.startswith("o"):
            try:
                v = v[0] + unhex(v[1:]).decode("utf-8", "replace")
            except ValueError:
                pass
        elif v.startswith("a") and len(v) > 24:
            v = v[:24] + ".."
        out.append("%s%s%s %s [%s]%s%s" % ("  " * int(f[0]), "?" if f[1].startswith("?") else "" if f[1] == "m1" else f[1] + ":", f[2], v, f[4],
                                          (" priv=" + f[5]) if f[5] != "0" else "", " " + ":".join(f[6:]) if len(f) > 6 else ""))
    s = " / ".join(out)
    return s if len(s) <= limit else s[:limit] + " ..."


def first_diff(exp, got):
    a, b = exp.split(";"), got.split(";")
    for i, (x, y) in enumerate(zip(a, b)):
        if x != y:
            return "entry %d: expected {%s} observed {%s}" % (i, pretty(x + ";"), pretty(y + ";"))
    if len(a) != len(b):
        longer, what = (a, "missing") if len(a) > len(b) else (b, "unexpected")
        return "entry %d: %s {%s}" % (min(len(a), len(b)) - 1, what, pretty(longer[min(len(a), len(b)) - 1] + ";"))
    return "equal"


# ------------------------------------------------------------------------------------------------
# expected result of lyd_dup_*(), from the documentation of the options
# ------------------------------------------------------------------------------------------------
def is_key(S, n):
    return (not n.opq) and S.get(n.key(), {}).get("key", False)


def dup_node(S, n, opts):
    m = n.copy(deep=False)
    if not opts & DUP_WITH_FLAGS:
        # default behaviour: the copy is a new (not validated) node; only the default / ext marks are kept
        m.flags = ("d" if "d" in n.flags else "") + "n" + ("e" if "e" in n.flags else "")
    m.priv = n.priv if opts & DUP_WITH_PRIV else "0"
    if opts & DUP_NO_META:
        m.meta = []
    if opts & DUP_RECURSIVE:
        m.children = [dup_node(S, c, opts) for c in n.children]
    elif not n.opq and S.get(n.key(), {}).get("k") == "list" and S[n.key()]["nk"]:
        # "list's keys are always duplicated"
        for c in n.children:
            if not is_key(S, c):
                break
            m.children.append(dup_node(S, c, opts))
    return m


def dup_expect(S, forest, idx, opts, single, pforest=None, pidx=None):
    """-> ("ok", result forest, returned node, connect node or None) | ("einval",) | ("skip",)
    forest: the original (not modified); pforest: a COPY of the tree holding the parent argument (modified in place)"""
    F = flat(forest)
    node, anc, sibs, si = F[idx]
    origs = [node] if single else sibs[si:]
    parent, panc = (flat(pforest)[pidx][0], flat(pforest)[pidx][1]) if pforest is not None else (None, ())

    def connect(x):
        # inserting an explicit node removes the default mark of the non-presence containers above it
        parent.children.append(x)
        if "d" not in x.flags:
            for a in (parent,) + tuple(reversed(panc)):
                if "d" not in a.flags:
                    break
                a.flags = a.flags.replace("d", "")
    popts = opts & (DUP_WITH_FLAGS | DUP_NO_META)
    top = None
    local = parent
    if opts & DUP_WITH_PARENTS:
        chain = []
        connected = parent is None
        for a in reversed(anc):
            if parent is not None and not a.opq and not parent.opq and a.key() == parent.key():
                connected = True
                break
            chain.append(dup_node(S, a, popts))
        if not connected:
            return ("einval",)
        for i in range(len(chain) - 1):
            chain[i + 1].children.append(chain[i])
        if chain:
            local, top = chain[0], chain[-1]
            if parent is not None:
                connect(top)
    first = None
    tops = []
    keyl = False
    for o in origs:
        if is_key(S, o) and local is not None:
            # (an existing key is looked up in the parent; through its children hash table when it has >= 4 children)
            keyl = keyl or len(local.children) >= 4
            d = next((c for c in local.children if not c.opq and c.key() == o.key()), None)
            if d is None:
                return ("skip",)
        else:
            d = dup_node(S, o, opts)
            if local is parent and parent is not None:
                connect(d)
            elif local is not None:
                local.children.append(d)
            else:
                tops.append(d)
        first = first or d
    if parent is not None:
        return ("ok", pforest, first, parent, keyl)
    return ("ok", [top] if top is not None else tops, first, None, keyl)


# ------------------------------------------------------------------------------------------------
# expected result of lyd_merge_*(), from the documentation
# ------------------------------------------------------------------------------------------------
def kind_of(S, n):
    return "opaque" if n.opq else S.get(n.key(), {}).get("k", "?")


def keyvals(S, n):
    return [c.val for c in n.children if is_key(S, c)]


def merge_find(S, tlist, src):
    k = kind_of(S, src)
    for t in tlist:
        if t.opq != src.opq:
            continue
        if src.opq:
            if t.name == src.name:
                return t
        elif t.key() == src.key():
            if k == "list" and keyvals(S, t) != keyvals(S, src):
                continue
            if k == "leaf-list" and t.val != src.val:
                continue
            return t
    return None


def order_of(S, n):
    if n.opq:
        return (1 << 30, 0)
    d = S.get(n.key(), {})
    return (d.get("mi", 0), d.get("ord", 0))


def merge_insert(S, tlist, new):
    o = order_of(S, new)
    i = 0
    while i < len(tlist) and order_of(S, tlist[i]) <= o:
        i += 1
    tlist.insert(i, new)


def add_new(n):
    if "n" not in n.flags:
        n.flags = "".join(c for c in "dwne" if c in n.flags or c == "n")
    for c in n.children:
        add_new(c)


def any_equal(a, b):
    """equality of two anydata values as the merge sees it (lyd_compare_single): same representation and content; in a
    data tree the metadata / attributes of the nodes do not count"""
    if a == b:
        return True
    if not (a.startswith("at") and b.startswith("at")):
        return False

    def bare(v):
        out = []
        for ent in unhex(v[2:]).decode("utf-8", "replace").split(";"):
            f = ent.split(":")
            if len(f) > 3 and f[3].startswith("at"):
                f[3] = "at" + hexs(bare(f[3]))
            out.append(":".join(f[:6]))
        return ";".join(out)
    return bare(a) == bare(b)


def merge_sibling(S, tlist, src, opts, log):
    k = kind_of(S, src)
    t = merge_find(S, tlist, src)
    if t is None:
        new = src.copy()
        if not opts & MERGE_DESTRUCT:
            # the copy is a duplicate: private pointers are not copied
            for x, _, _, _ in flat([new]):
                x.priv = "0"
        if not opts & MERGE_WITH_FLAGS:
            add_new(new)
        merge_insert(S, tlist, new)
        log.append(src.name + "+")
        return
    log.append(src.name + "=")
    if k == "opaque":
        t.val = src.val
    elif k == "leaf":
        if (opts & MERGE_DEFAULTS) or "d" not in src.flags:
            fl = set(t.flags)
            if t.val != src.val:
                t.val = src.val
                fl.add("n")
            if "d" in src.flags:
                fl.add("d")
            else:
                fl.discard("d")
            t.flags = "".join(c for c in "dwne" if c in fl)
            if opts & MERGE_WITH_FLAGS:
                t.flags = src.flags
    elif k == "leaf-list":
        if "d" in t.flags and "d" not in src.flags:
            t.flags = t.flags.replace("d", "")
    elif k in ("anydata", "anyxml"):
        if not any_equal(t.val, src.val):
            t.val = src.val
            fl = set(src.flags)
            if not opts & MERGE_WITH_FLAGS:
                fl.add("n")
            t.flags = "".join(c for c in "dwne" if c in fl)
    for c in src.children:
        if not is_key(S, c):
            merge_sibling(S, t.children, c, opts, log)


def owner_mod(S, n, nsmap):
    if n.opq:
        try:
            return nsmap.get(unhex(n.mod).decode() if n.mod != "~" else "", None)
        except ValueError:
            return None
    return n.mod


def merge_ref(S, target, source, first, opts, entry, mod):
    """reference result: (merged forest, callback log). target / source are parsed dumps (copied here); first = index of
    the source sibling handed to the function"""
    T = [n.copy() for n in target]
    log = []
    nsmap = {"urn:verif:m1": "m1", "urn:verif:m2": "m2", "urn:verif:m3": "m3", "m1": "m1", "m2": "m2", "m3": "m3"}
    for n in source[first:]:
        if mod and owner_mod(S, n, nsmap) != mod:
            continue
        merge_sibling(S, T, n, opts, log)
        if entry == "t":
            break
    return T, log


def canon(S, forest, top=True):
    """comparison form: the default mark of non-presence containers is left to comps_merge.MergeModel / C07 (not judged
    here); instances of one system-ordered (leaf-)list are compared as a set (their order is judged by `inv`); at top level
    the order BETWEEN the modules is not compared (it follows the history of insertions; `inv` judges that the nodes of one
    module are contiguous), the order inside a module is"""
    out = []
    for n in forest:
        m = n.copy(deep=False)
        if kind_of(S, n) in ("container", "rpc"):
            m.flags = m.flags.replace("d", "")
        m.children = canon(S, n.children, False)
        out.append(m)
    if top:
        out.sort(key=lambda x: (1, "") if x.opq else (0, x.mod))
    res = []
    i = 0
    while i < len(out):
        j = i
        k = kind_of(S, out[i])
        if k in ("list", "leaf-list") and not S[out[i].key()]["uo"]:
            while j + 1 < len(out) and not out[j + 1].opq and out[j + 1].key() == out[i].key():
                j += 1
        res += sorted(out[i:j + 1], key=lambda x: render([x]))
        i = j + 1
    return res


# ------------------------------------------------------------------------------------------------
# case construction shared by the two oracles
# ------------------------------------------------------------------------------------------------
def stage1(lines):
    exe = vlib.build_driver(DRIVER, "rel")
    outs, _ = vlib.run_sharded(exe, lines, timeout=600)
    return outs


def script_line(s):
    return "c14x\t" + "\t".join(s.cmds)


def doc_of(m, forest, rpc):
    if rpc:
        return '<%s xmlns="%s">%s</%s>' % (m.rpcs[0][0], m.ns, to_xml(forest, m), m.rpcs[0][0])
    return to_xml(forest)


def parse_cmd(s, c, t, doc, rpc, opaq=False):
    if rpc:
        s.add("parseop", "c%d" % c, "t%d" % t, "x", "r", hexs(doc))
    elif opaq:
        s.add("parse", "c%d" % c, "t%d" % t, "x", PARSE_ONLY | PARSE_OPAQ, 0, hexs(doc))
    else:
        s.add("parse", "c%d" % c, "t%d" % t, "x", PARSE_STRICT, VAL_PRESENT, hexs(doc))


def new_opq(ns, name):
    x = XN()
    x.mod, x.name, x.opq, x.val, x.flags, x.priv, x.meta, x.children = hexs(ns), name, True, "o", "", "0", [], []
    return x


def plan_edits(rng, forest, S, ns, p_any=0.5, p_opq=0.5, names=("o1", "o2", "o3"), p_top=None):
    """edits applied after parsing (by node index in the parsed tree): anydata values of the other representations,
    opaque nodes with attributes. Returns the edit list and applies the STRUCTURAL effect to forest (a parsed dump)"""
    cmds = []
    F = flat(forest)
    for i, (n, _, _, _) in enumerate(F):
        if kind_of(S, n) in ("anydata", "anyxml") and rng.random() < p_any:
            r = rng.random()
            if r < 0.3:
                e = ("any", i, "x", "<q>%s</q>" % word(rng))
            elif r < 0.6:
                e = ("any", i, "j", '{"q":"%s"}' % word(rng))
            elif r < 0.75:
                e = ("any", i, "s", word(rng))
            elif r < 0.85:
                e = ("any", i, "t", None)
            elif r < 0.93:
                e = ("any", i, "b", None)
            else:
                e = ("any", i, "N", None)
            n.val = "a" + e[2]
            cmds.append(e)
    # opaque children of inner nodes: highest index first so that the indices of the later edits stay valid
    inner = [i for i, (n, _, _, _) in enumerate(F) if kind_of(S, n) in ("container", "list", "rpc")]
    if inner and rng.random() < p_opq:
        for i in sorted(rng.sample(inner, min(len(inner), rng.randrange(1, 3))), reverse=True):
            for nm in rng.sample(names, rng.randrange(1, 3)):
                cmds.append(("opq", i, nm, word(rng), ns, [("at1", word(rng))] if rng.random() < 0.6 else []))
                F[i][0].children.append(new_opq(ns, nm))
    # top-level opaque nodes (known and unknown namespace), some with an opaque child
    if rng.random() < (p_opq if p_top is None else p_top) and not any(kind_of(S, n) == "rpc" for n in forest):
        for nm in rng.sample(names, rng.randrange(1, 3)):
            tns = rng.choice([ns, ns, "urn:unknown"])
            idx = len(flat(forest))
            cmds.append(("opq", None, nm, word(rng), tns, [("at2", word(rng))] if rng.random() < 0.5 else []))
            x = new_opq(tns, nm)
            forest.append(x)
            if rng.random() < 0.5:
                cmds.append(("opq", idx, "oc", word(rng), tns, []))
                x.children.append(new_opq(tns, "oc"))
    return cmds


def emit_edits(s, cmds, c, t, valslot):
    """the edit commands for slot t in context c; valslot = slot of the tree used as anydata data-tree / LYB value"""
    for e in cmds:
        if e[0] == "any":
            _, i, typ, val = e
            if typ in ("t", "b"):
                s.add("xanyset", "t%d#%d" % (t, i), typ, "t%d" % valslot)
            elif typ == "N":
                s.add("xanyset", "t%d#%d" % (t, i), "N", "-")
            else:
                s.add("xanyset", "t%d#%d" % (t, i), typ, hexs(val))
        else:
            _, i, nm, val, ns, attrs = e
            s.add("xopaq", "c%d" % c, ("t%d^" % t) if i is None else "t%d#%d" % (t, i), nm, hexs(val), hexs(ns),
                  *[w for a, v in attrs for w in (a, hexs(v))])


def marker_check(cmds, r, k):
    """pseudo commands that state what the NEXT / PREVIOUS results must be:
       #must0 <words>   the next command must return 0 (<words> say what it is)
       #eqres <i> <j>   the results of the commands i and j positions back must be equal"""
    if k and cmds[k - 1].startswith("#must0") and rc(r[k]) != 0:
        made = next((cmds[i] for i in range(k - 1, -1, -1) if cmds[i].startswith(("xdup ", "xmerge "))), "")
        return "%s failed: %s -> %s (the copy was made by: %s)" % (cmds[k - 1][7:], cmds[k][:60], r[k][:80], made[:60])
    if cmds[k].startswith("#eqres"):
        w = cmds[k].split(" ")
        i, j = int(w[1]), int(w[2])
        if r[k - i] != r[k - j]:
            return "%s: results of [%s] and [%s] differ: %s" % (" ".join(w[3:]), cmds[k - i][:50], cmds[k - j][:50],
                                                               first_diff_text(r[k - i], r[k - j]))
    return None


def first_diff_text(a, b):
    n = next((i for i, (x, y) in enumerate(zip(a, b)) if x != y), min(len(a), len(b)))
    return "at offset %d: ...%s | ...%s" % (n, a[max(0, n - 40):n + 60], b[max(0, n - 40):n + 60])


# ------------------------------------------------------------------------------------------------
# DupMatrix
# ------------------------------------------------------------------------------------------------
ENTRIES = ["s", "b", "S", "B"]
ENTRY_NAME = {"s": "lyd_dup_single", "b": "lyd_dup_siblings", "S": "lyd_dup_single_to_ctx", "B": "lyd_dup_siblings_to_ctx"}


def opt_names(o):
    return "|".join(n for b, n in ((1, "RECURSIVE"), (2, "NO_META"), (4, "WITH_PARENTS"), (8, "WITH_FLAGS"), (0x20, "WITH_PRIV"))
                    if o & b) or "0"


def position_classes(S, forest):
    """node index lists per position class"""
    F = flat(forest)
    cls = {}

    def has_meta_below(n):
        return any(c.meta or has_meta_below(c) for c in n.children)
    for i, (n, anc, sibs, si) in enumerate(F):
        k = kind_of(S, n)
        c = []
        c.append("top" if not anc else ("deep" if len(anc) >= 2 else "nested"))
        c.append("kind-" + k)
        if is_key(S, n):
            c.append("key")
        if "d" in n.flags:
            c.append("default")
        if k in ("anydata", "anyxml"):
            c.append("any-" + n.val[:2])
        if anc and anc[-1].opq:
            c.append("opaque-child")
        if n.meta:
            c.append("meta-self")
        if any(a.meta for a in anc):
            c.append("meta-ancestor")
        if has_meta_below(n):
            c.append("meta-descendant")
        if any(x.meta for x in sibs if x is not n):
            c.append("meta-sibling")
        if any(kind_of(S, a) == "list" for a in anc):
            c.append("in-list")
        if si > 0:
            c.append("not-first-sibling")
        if not n.opq and n.mod == "m3":
            c.append("mod-m3")
        if any(not a.opq and a.mod == "m3" for a in anc):
            c.append("below-m3")
        if not n.opq and any(x is not n and not x.opq and x.name == n.name and x.mod != n.mod for x in sibs):
            c.append("same-name-sibling")
        for x in c:
            cls.setdefault(x, []).append(i)
    return cls


class DupMatrix(Oracle):
    """C14 dup: option matrix x entry point x parent argument x node position on trees with anydata / anyxml / opaque nodes /
    metadata / operations; expected tree computed from the dump of the original; heap disjointness, context ownership,
    original untouched, duplicate survives editing / freeing of the original"""
    name = "dupmatrix"
    driver = DRIVER
    quick_sanitize = True
    NODES = 7
    COMBOS = 9
    QUICK, THOROUGH = 240, 2500
    CROSS_BIAS = 0.0            # share of the same-context entry points turned into their *_to_ctx variant
    ROUNDTRIP = 0.15            # share of the cross-context duplicates that are duplicated back
    TWIN_PARENT = 0.0
    CLASSES_FIRST = []

    def make_case(self, rng, i):
        """one module in both contexts"""
        rpc = (i % 6 == 5)
        m = gen_module(rng, state=(i % 3 == 0), rpc=rpc)
        ig = yanggen.InstGen(rng, meta_prob=0.3 if i % 4 else 0.0)
        schema = m.rpcs[0][1] if rpc else m.nodes
        f0 = ig.children_of(schema)
        add_any(rng, f0, schema)
        f1 = yanggen.cross(rng, f0, ig.children_of(schema), schema)
        add_any(rng, f1, schema, 0.3)
        vary_any(rng, f1)
        if i % 4:
            add_meta(rng, f0, 0.25)
            add_meta(rng, f1, 0.15)
        opaq = (i % 5 == 4) and not rpc
        if opaq:
            # not validated trees with opaque nodes created by the parser
            add_raw(rng, m, f0)
            add_raw(rng, m, f1)
        return {"S": schema_desc(m), "mods": [[(m.yang(), "-")], [(m.yang(), "-")]], "ns": m.ns, "rpc": rpc, "opaq": opaq,
                "doc0": doc_of(m, f0, rpc), "doc1": doc_of(m, f1, rpc)}

    def gen(self, rng, tier, scale=1.0):
        ncase = self.n(tier, self.QUICK, self.THOROUGH, scale)
        pre = []
        for i in range(ncase):
            case = self.make_case(rng, i)
            rpc, opaq = case["rpc"], case["opaq"]
            s = Script()
            s.add("#S", hexs(json.dumps(case["S"], separators=(",", ":"))))
            for c in (0, 1):
                s.ctx(c)
                for text, feats in case["mods"][c]:
                    s.mod(text, c, feats)
            parse_cmd(s, 0, 0, case["doc0"], rpc, opaq)
            parse_cmd(s, 0, 1, case["doc1"], rpc, opaq)
            parse_cmd(s, 1, 2, case["doc1"], rpc, opaq)
            n0 = len(s.cmds)
            s.add("xdump", "t0")
            s.add("xdump", "t1")
            pre.append((case, s, n0))
        outs = stage1([script_line(s) for _, s, _ in pre])
        # all (options, entry, parent?) combinations, dealt round robin so that a few hundred calls cover the matrix
        combos = [(o, e, p) for o in range(16) for e in ENTRIES for p in (0, 1)]
        rng.shuffle(combos)
        ci = 0
        classes_order = self.CLASSES_FIRST + ["top", "nested", "deep", "kind-list", "kind-leaf-list", "key", "default", "kind-anydata", "kind-anyxml",
                         "kind-opaque", "opaque-child", "meta-self", "meta-ancestor", "meta-descendant", "meta-sibling",
                         "kind-container", "kind-leaf", "in-list", "not-first-sibling", "kind-rpc", "any-ax", "any-aj", "any-as",
                         "any-ab", "any-at", "any-aN"]
        ki = 0
        L = []
        for (case, s, n0), out in zip(pre, outs):
            r = results(out)
            if crashed(out) or len(r) < n0 + 3 or any(rc(x) != 0 for x in r[1:n0]):
                # module or instance rejected: keep the case (judge counts it as not judged)
                L.append(script_line(s))
                continue
            S = case["S"]
            s.cmds = s.cmds[:n0]
            F0 = parse_xdump(r[n0])
            F1 = parse_xdump(r[n0 + 1])
            e0 = plan_edits(rng, F0, S, case["ns"])
            e1 = plan_edits(rng, F1, S, case["ns"], p_any=0.3, p_opq=0.3)
            s.add("dup", "t1", "t9", DUP_RECURSIVE)        # value trees for anydata values (copies of the second tree)
            s.add("dup", "t2", "t10", DUP_RECURSIVE)
            for (es, c, t) in ((e0, 0, 0), (e1, 0, 1), (e1, 1, 2)):
                emit_edits(s, es, c, t, 9 if c == 0 else 10)
            s.add("xpriv", "t0")
            s.add("xdump", "t0")
            s.add("#keep", "t0")
            s.add("xdump", "t1")
            s.add("xdump", "t2")
            cls = position_classes(S, F0)
            Fl0, Fl1 = flat(F0), flat(F1)
            picked = []
            tries = 0
            while len(picked) < self.NODES and tries < 60:
                tries += 1
                c = classes_order[ki % len(classes_order)]
                ki += 1
                if c in cls:
                    i = rng.choice(cls[c])
                    if i not in picked:
                        picked.append(i)
            for i in picked:
                node, anc, sibs, si = Fl0[i]
                for _ in range(self.COMBOS):
                    o, e, wantp = combos[ci % len(combos)]
                    ci += 1
                    if rng.random() < 0.25:
                        o |= DUP_WITH_PRIV
                    if e in "sb" and rng.random() < self.CROSS_BIAS:
                        e = e.upper()
                    ctx = "c1" if e in "SB" else "-"
                    if e in "SB" and rng.random() < 0.15:
                        ctx = "c0"
                    pj = None
                    if wantp:
                        if o & DUP_WITH_PARENTS:
                            names = {a.key() for a in anc if not a.opq}
                            if rng.random() < 0.12:
                                names = {n.key() for n, _, _, _ in Fl1 if kind_of(S, n) in ("container", "list", "rpc")} - names
                        else:
                            names = {anc[-1].key()} if anc and not anc[-1].opq else set()
                        cand = [j for j, (n, _, _, _) in enumerate(Fl1) if not n.opq and n.key() in names]
                        if (o & DUP_WITH_PARENTS) and rng.random() < self.TWIN_PARENT:
                            # a parent named like an ancestor but of the OTHER module: must be refused
                            an = {a.name for a in anc if not a.opq}
                            twin = [j for j, (n, _, _, _) in enumerate(Fl1) if not n.opq and n.name in an and
                                    n.key() not in {a.key() for a in anc if not a.opq} and kind_of(S, n) in ("container", "list")]
                            cand = twin or cand
                        if cand:
                            pj = rng.choice(cand)
                    if pj is None:
                        s.add("xdup", e, "t0#%d" % i, "t5", o, ctx, "-")
                        s.add("xdump", "t5")
                        s.add("xshare", "t0", "t5")
                        s.add("xctxof", "t5", "c1" if ctx == "c1" else "c0")
                        if rng.random() < 0.3:
                            s.add("inv", "t5")
                        if ctx == "c1" and rng.random() < self.ROUNDTRIP:
                            # and back into the first context
                            s.add("xdup", "B", "t5", "t11", rng.choice([1, 9, 0x29, 3, 0]), "c0", "-")
                            s.add("xdump", "t11")
                            s.add("xctxof", "t11", "c0")
                    else:
                        # the parent lives in a fresh copy of the second tree (same context, or the other one)
                        wrongctx = (e in "sb") and rng.random() < 0.06
                        src = "t2" if (ctx == "c1" or wrongctx) else "t1"
                        s.add("dup", src, "t6", DUP_RECURSIVE | DUP_WITH_FLAGS)
                        s.add("xdump", "t6")
                        s.add("xdup", e, "t0#%d" % i, "t6", o, ctx, "t6#%d" % pj)
                        s.add("xdump", "t6")
                        s.add("xshare", "t0", "t6")
                        if rng.random() < 0.3:
                            s.add("inv", "t6")
            s.add("xdump", "t0")
            # independence: edit / free the copy, free the original
            o = rng.choice([1, 9, 0x29, 3])
            s.add("xdup", "b", "t0", "t7", o, "-", "-")
            s.add("xdump", "t7")
            for _ in range(3):
                s.add("chg", "t7#%d" % rng.randrange(0, max(1, len(Fl0))), hexs("1"))
            s.add("freen", "t7#%d" % rng.randrange(0, max(1, len(Fl0))))
            s.add("xanyset", "t7#%d" % rng.choice([k for k, (n, _, _, _) in enumerate(Fl0) if kind_of(S, n) in ("anydata", "anyxml")] or [0]),
                  "s", hexs("edited"))
            s.add("free", "t7")
            s.add("xdump", "t0")
            # the whole forest into the other context and back: nothing may change (private pointers and flags included)
            s.add("xdup", "B", "t0", "t12", 0x29, "c1", "-")
            s.add("xdump", "t12")
            s.add("xctxof", "t12", "c1")
            s.add("inv", "t12")
            s.add("xdup", "B", "t12", "t13", 0x29, "c0", "-")
            s.add("xdump", "t13")
            s.add("xctxof", "t13", "c0")
            s.add("#same", "t0", "t13")
            s.add("cmp", "t0", "t13", 3)
            s.add("xdup", "B" if rng.random() < 0.3 else "b", "t0", "t8", DUP_RECURSIVE | rng.choice([0, 8, 2]), "c1", "-")
            s.add("xdump", "t8")
            s.add("#keep", "t8")
            s.add("free", "t0")
            s.add("xdump", "t8")
            s.add("inv", "t8")
            L.append(script_line(s))
        return L

    def judge(self, line, out):
        if crashed(out):
            return (None, "crash: " + out)
        cmds = line.split("\t")[1:]
        r = results(out)
        if len(r) != len(cmds) + 1:
            return (None, "driver protocol: %d commands, %d results" % (len(cmds), len(r)))
        S = {}
        last, keep, pend, sctx = {}, {}, {}, {}
        for k, (c, res) in enumerate(zip(cmds, r)):
            w = c.split(" ")
            op = w[0]
            f = marker_check(cmds, r, k)
            if f:
                return (None, f)
            if op == "#S":
                S = json.loads(unhex(w[1]).decode())
            elif op in ("ctx", "mod", "parse", "parseop"):
                if rc(res) != 0:
                    self.skipped = getattr(self, "skipped", 0) + 1
                    return None
                if op.startswith("parse"):
                    sctx[w[2]] = w[1]
            elif op == "#keep":
                keep[w[1]] = last.get(w[1])
            elif op == "xdump":
                t = w[1]
                last[t] = res
                if t in keep and keep[t] is not None and res != keep[t]:
                    return (None, "a tree that no call may modify changed (%s, command %d: after %s): %s"
                            % (t, k, cmds[k - 1][:60], first_diff(keep[t], res)))
                if t in pend:
                    exp, cpath, desc = pend.pop(t)
                    got = parse_xdump(res)
                    if cpath is not None:
                        # children of the connect node compared as a multiset
                        gp = flat(got)
                        if cpath >= len(gp):
                            return (None, desc + ": result tree lost the parent node")
                        gp[cpath][0].children.sort(key=lambda x: render([x]))
                    gr = render(got)
                    if gr != exp:
                        return (None, "%s: %s || expected %s || observed %s" % (desc, first_diff(exp, gr), pretty(exp), pretty(gr)))
            elif op == "xdup":
                e, src, dst, o, ctx, par = w[1], w[2], w[3], int(w[4]), w[5], w[6]
                st = src.split("#")[0]
                if last.get(st) is None or res == "-":
                    continue
                forest = parse_xdump(last[st])
                i = int(src.split("#")[1]) if "#" in src else 0
                desc = "%s(%s node #%d%s, options %s)" % (ENTRY_NAME[e], st, i, "" if par == "-" else ", parent " + par, opt_names(o))
                if i >= len(flat(forest)):
                    continue
                if par == "-":
                    x = dup_expect(S, forest, i, o, e in "sS")
                    tslot = dst
                    sctx[dst] = ctx if ctx != "-" else sctx.get(st, "c0")
                else:
                    tslot = par.split("#")[0]
                    if last.get(tslot) is None:
                        continue
                    pf = parse_xdump(last[tslot])
                    pj = int(par.split("#")[1])
                    if e in "sb" and sctx.get(tslot, "c0") != sctx.get(st, "c0"):
                        x = ("einval",)         # lyd_dup_single / _siblings: "Different contexts used in node duplication"
                    else:
                        x = dup_expect(S, forest, i, o, e in "sS", pf, pj)
                if x[0] == "skip":
                    continue
                if x[0] == "einval":
                    if rc(res) != LY_EINVAL or "!" in res:
                        return (None, "%s: expected LY_EINVAL (the parent is no duplicate of an ancestor / another context), "
                                "result %s" % (desc, res[:60]))
                    pend[tslot] = (last[tslot] if par != "-" else "", None, desc + " (refused, tree must be unchanged)")
                    continue
                _, ef, first, connect, keyl = x
                if rc(res) != 0:
                    return (None, "%s failed: %s" % (desc, res[:80]))
                parts = res.split(" ")
                if connect is not None:
                    connect.children.sort(key=lambda y: render([y]))
                    cpath = pj
                else:
                    cpath = None
                    fi = [id(n) for n, _, _, _ in flat(ef)].index(id(first))
                    if int(parts[1]) != fi:
                        return (None, "%s: returned node is #%s of the result, expected #%d (the first duplicated node)"
                                % (desc, parts[1], fi))
                if parts[2] != render_one(first, 0):
                    return (None, "%s: returned node {%s}, expected {%s}" % (desc, pretty(parts[2]), pretty(render_one(first, 0))))
                pend[tslot] = (render(ef), cpath, desc)
            elif op == "#same":
                a, b = last.get(w[1]), last.get(w[2])
                if a is not None and b is not None and a != b:
                    return (None, "duplicating %s into the other context and back (%s) changed the tree: %s || original %s || "
                            "round trip %s" % (w[1], w[2], first_diff(a, b), pretty(a), pretty(b)))
            elif op == "cmp":
                if res != "0" and last.get(w[1]) is not None and last.get(w[1]) == last.get(w[2]):
                    return (None, "lyd_compare_siblings(%s, %s, %s) = %s although the dumps are equal" % (w[1], w[2], w[3], res))
            elif op == "xshare":
                if res != "ok":
                    return (None, "duplicate and original share a heap block (%s after %s)" % (res, cmds[k - 2][:80]))
            elif op == "xctxof":
                if res != "ok":
                    return (None, "a node of the duplicate belongs to another context than the target context (%s after %s)"
                            % (res, cmds[k - 3][:80]))
            elif op == "inv":
                if res != "ok":
                    return (None, "duplicate breaks a tree invariant: %s (after %s)" % (res, cmds[k - 2][:80]))
            elif op in ("free", "freen", "chg", "dup", "xanyset", "xopaq", "xpriv", "rt", "val"):
                t = (w[2] if op in ("dup", "xopaq", "rt") else w[1]).split("#")[0].rstrip("^")
                last[t] = None
                pend.pop(t, None)
                if op == "free":
                    keep.pop(t, None)
                if op == "dup":
                    sctx[t] = sctx.get(w[1].split("#")[0], "c0")
                if op in ("xanyset", "xopaq") and res != "-" and rc(res) != 0 and not (op == "xanyset" and w[2] == "b" and rc(res) == 6):
                    # (a LYB value that cannot be printed - sibling hash collision, known C01 finding lyb-hash-collision -
                    # leaves the node as it was)
                    return (None, "setup command failed: %s -> %s" % (c[:60], res[:40]))
        if pend:
            return (None, "script error: expectation without a dump")
        return None


def family_case(rng, i, merge=False):
    """m1 + m3 (equal local names at the same level, see gen_ext) + m2; context 1 holds the same modules loaded in another
    order and with another feature set. Returns the case description used by DupMatrix.gen / MergeKinds.gen"""
    rpc = (i % 5 == 4)
    m = gen_module(rng, state=False, rpc=rpc)
    ext = gen_ext(rng, m)
    ig = yanggen.InstGen(rng, meta_prob=0.2 if i % 3 else 0.0)
    schema = m.rpcs[0][1] if rpc else m.nodes
    f0 = ig.children_of(schema)
    add_any(rng, f0, schema)
    r = rng.random()
    if merge and r >= 0.85:
        f1 = None
    else:
        f1 = yanggen.cross(rng, f0, ig.children_of(schema), schema) if r < 0.7 else ig.children_of(schema)
        add_any(rng, f1, schema, 0.4)
        vary_any(rng, f1)
    rn = m.rpcs[0][0] if rpc else None
    add_ext(rng, ig, f0, None, schema, ext, rn)
    if f1 is None:
        f1 = [n.clone() for n in f0]
    else:
        add_ext(rng, ig, f1, None, schema, ext, rn)
    if i % 3:
        add_meta(rng, f0, 0.15)
    inject_features(rng, m)
    d0, d1 = doc_of(m, f0, rpc), doc_of(m, f1, rpc)
    if not rpc:
        x, ints = m2_doc(rng)
        d0 += x
        d1 += x if (merge and r >= 0.85) else m2_doc(rng, ints)[0]
    fe = rng.choice([("f1", "-"), ("-", "f1"), ("f1", "f1")])
    mods = [[(m.yang(), fe[0]), (ext.yang(), "-"), (M2_YANG, "-")], [(M2_YANG, "-"), (m.yang(), fe[1]), (ext.yang(), "-")]]
    return {"S": schema_desc(m, True, ext), "mods": mods, "ns": m.ns, "rpc": rpc, "opaq": False, "doc0": d0, "doc1": d1,
            "same": merge and r >= 0.85}


class DupFamilies(DupMatrix):
    """C14 dup across contexts over schema families: a second module defines equal local names at the same level (augments
    into the other module's containers / lists / choices / rpc input, top-level nodes of equal name), the target context
    holds the same modules loaded in another order with another feature set; module-qualified dumps against dup_expect,
    and the round trip context 1 -> 2 -> 1"""
    name = "dupfamilies"
    QUICK, THOROUGH = 120, 1500
    NODES = 6
    COMBOS = 7
    CROSS_BIAS = 0.6
    ROUNDTRIP = 0.5
    TWIN_PARENT = 0.3
    CLASSES_FIRST = ["mod-m3", "same-name-sibling", "mod-m3", "below-m3", "same-name-sibling", "mod-m3"]

    def make_case(self, rng, i):
        return family_case(rng, i)


# ------------------------------------------------------------------------------------------------
# MergeKinds
# ------------------------------------------------------------------------------------------------
class MergeKinds(Oracle):
    """C14 merge: option matrix x lyd_merge_tree / _siblings / _module(callback, module filter) on trees with anydata /
    anyxml values of every representation, opaque nodes, metadata, two modules, operations; the result, the callback log
    and the source afterwards are compared with a reference merge of the dumped operands"""
    name = "mergekinds"
    driver = DRIVER
    quick_sanitize = True
    QUICK, THOROUGH = 360, 4000
    TCTX = 0                    # context of the target (the source is parsed in context 0)
    MODS = ["m1", "m1", "m2"]

    def copy_source(self, s):
        """working copy t3 of the source t1 (in the context of the target)"""
        s.add("dup", "t1", "t3", DUP_RECURSIVE | DUP_WITH_FLAGS)

    def make_case(self, rng, i):
        rpc = (i % 7 == 6)
        m = gen_module(rng, state=False, rpc=rpc)
        ig = yanggen.InstGen(rng, meta_prob=0.15 if i % 3 else 0.0)
        if i % 5 == 0:
            ig.edp = 0.8
        if i % 3 == 1:
            ig.max_inst = 9             # long (leaf-)lists: sorting trees, recycled tree nodes
        schema = m.rpcs[0][1] if rpc else m.nodes
        ft = ig.children_of(schema)
        add_any(rng, ft, schema)
        r = rng.random()
        if r < 0.7:
            fs = yanggen.cross(rng, ft, ig.children_of(schema), schema)
            add_any(rng, fs, schema, 0.4)
            vary_any(rng, fs)
        elif r < 0.85:
            fs = ig.children_of(schema)
            add_any(rng, fs, schema)
        else:
            fs = [n.clone() for n in ft]        # source == target
        dt, ds = doc_of(m, ft, rpc), doc_of(m, fs, rpc)
        if not rpc:
            x, ints = m2_doc(rng)
            dt += x
            ds = dt if r >= 0.85 else ds + m2_doc(rng, ints)[0]
        return {"S": schema_desc(m, True), "mods": [[(m.yang(), "-"), (M2_YANG, "-")]], "ns": m.ns, "rpc": rpc,
                "doc0": dt, "doc1": ds, "same": r >= 0.85}

    def gen(self, rng, tier, scale=1.0):
        ncase = self.n(tier, self.QUICK, self.THOROUGH, scale)
        pre = []
        for i in range(ncase):
            case = self.make_case(rng, i)
            rpc = case["rpc"]
            s = Script()
            s.add("#S", hexs(json.dumps(case["S"], separators=(",", ":"))))
            for c in range(len(case["mods"])):
                s.ctx(c)
                for text, feats in case["mods"][c]:
                    s.mod(text, c, feats)
            parse_cmd(s, self.TCTX, 0, case["doc0"], rpc)
            parse_cmd(s, 0, 1, case["doc1"], rpc)
            n0 = len(s.cmds)
            s.add("xdump", "t0")
            s.add("xdump", "t1")
            pre.append((case, s, n0, case["same"]))
        outs = stage1([script_line(s) for _, s, _, _ in pre])
        combos = [(o, e) for o in range(8) for e in ("t", "s", "m", "M")]
        rng.shuffle(combos)
        ci = 0
        L = []
        for (case, s, n0, same), out in zip(pre, outs):
            r = results(out)
            if crashed(out) or len(r) < n0 + 3 or any(rc(x) != 0 for x in r[1:n0]):
                L.append(script_line(s))
                continue
            S = case["S"]
            ns = case["ns"]
            tc = self.TCTX
            s.cmds = s.cmds[:n0]
            FT, FS = parse_xdump(r[n0]), parse_xdump(r[n0 + 1])
            s.add("dup", "t1", "t9", DUP_RECURSIVE)
            s.add("dup", "t0", "t10", DUP_RECURSIVE)
            # opaque nodes anywhere in both trees (the aborts this used to cause are fixed: 1e72cd5 aad6b04 c60598c; their
            # witnesses are regression cases in corpus/mergekinds.txt)
            if same:
                es = et = plan_edits(rng, FT, S, ns, p_opq=0.6)
                FS = FT
            else:
                et = plan_edits(rng, FT, S, ns, p_opq=0.6)
                es = plan_edits(rng, FS, S, ns, p_any=0.7, p_opq=0.6)
            emit_edits(s, et, tc, 0, 10)
            emit_edits(s, es, 0, 1, 9)
            s.add("xdump", "t0")
            s.add("#keep", "t0")
            s.add("xdump", "t1")
            s.add("#keep", "t1")
            ntop = len(FS)
            for _ in range(5):
                o, e = combos[ci % len(combos)]
                ci += 1
                first = rng.randrange(0, ntop) if (ntop and rng.random() < 0.4) else 0
                modarg = []
                if e == "m":
                    modarg = ["-"]
                elif e == "M":
                    e = "m"
                    modarg = [rng.choice(self.MODS)]
                # working copies: target t2, source t3
                s.add("dup", "t0", "t2", DUP_RECURSIVE | DUP_WITH_FLAGS)
                if (o & MERGE_DESTRUCT) and self.TCTX == 0 and rng.random() < 0.5:
                    # a consumed source that OWNS the sorting trees of its (leaf-)lists (freshly parsed, not a duplicate):
                    # their nodes are recycled for the lists of the target, which has none (duplicate)
                    parse_cmd(s, 0, 3, case["doc1"], case["rpc"])
                    first = 0
                else:
                    self.copy_source(s)
                s.add("xdump", "t2")
                s.add("xdump", "t3")
                s.add("xmerge", e, "t2", "t3#%d" % self.top_index(FS, first), o, *modarg)
                s.add("xdump", "t2")
                s.add("xdump", "t3")
                s.add("inv", "t2")
                if not o & MERGE_DESTRUCT:
                    s.add("xshare", "t2", "t3")
                    s.add("xmerge", e, "t2", "t3#%d" % self.top_index(FS, first), o, *modarg)     # again: nothing changes
                    s.add("xdump", "t2")
                    s.add("xdump", "t3")
            # empty target, empty source, nested source
            o = rng.randrange(0, 8)
            s.add("free", "t2")
            s.add("xdump", "t2")
            self.copy_source(s)
            s.add("xdump", "t3")
            s.add("xmerge", "s", "t2", "t3", o)
            s.add("xdump", "t2")
            s.add("xdump", "t3")
            s.add("free", "t3")
            s.add("xdump", "t3")
            s.add("dup", "t0", "t2", DUP_RECURSIVE | DUP_WITH_FLAGS)
            s.add("xdump", "t2")
            s.add("xmerge", rng.choice(["s", "t", "m"]), "t2", "t3", o)
            s.add("xdump", "t2")
            s.add("xdump", "t3")
            nested = [i for i, (n, anc, _, _) in enumerate(flat(FS)) if anc and not n.opq and not anc[0].opq]
            if nested:
                self.copy_source(s)
                s.add("xdump", "t3")
                s.add("xmerge", "s", "t2", "t3#%d" % rng.choice(nested), o & ~MERGE_DESTRUCT)
                s.add("xdump", "t2")
                s.add("xdump", "t3")
            s.add("xdump", "t0")
            s.add("xdump", "t1")
            L.append(script_line(s))
        return L

    @staticmethod
    def top_index(forest, k):
        """DFS index of the k-th top-level node"""
        return sum(len(flat([n])) for n in forest[:k])

    def judge(self, line, out):
        if crashed(out):
            return (None, "crash: " + out)
        cmds = line.split("\t")[1:]
        r = results(out)
        if len(r) != len(cmds) + 1:
            return (None, "driver protocol: %d commands, %d results" % (len(cmds), len(r)))
        S = {}
        last, keep, pend = {}, {}, {}
        for k, (c, res) in enumerate(zip(cmds, r)):
            w = c.split(" ")
            op = w[0]
            f = marker_check(cmds, r, k)
            if f:
                return (None, f)
            if op == "#S":
                S = json.loads(unhex(w[1]).decode())
            elif op in ("ctx", "mod", "parse", "parseop"):
                if rc(res) != 0:
                    self.skipped = getattr(self, "skipped", 0) + 1
                    return None
            elif op == "#keep":
                keep[w[1]] = last.get(w[1])
            elif op == "xdump":
                t = w[1]
                last[t] = res
                if t in keep and keep[t] is not None and res != keep[t]:
                    return (None, "an operand that no call may modify changed (%s, command %d): %s" % (t, k, first_diff(keep[t], res)))
                if t in pend:
                    exp, cn, desc = pend.pop(t)
                    gr = render(canon(S, parse_xdump(res))) if cn else res
                    if gr != exp:
                        return (None, "%s: %s || expected %s || observed %s" % (desc, first_diff(exp, gr), pretty(exp), pretty(gr)))
            elif op == "xmerge":
                e, tt, src, o = w[1], w[2], w[3], int(w[4])
                mod = w[5] if len(w) > 5 and w[5] != "-" else None
                st = src.split("#")[0]
                if last.get(tt) is None or last.get(st) is None:
                    continue
                T, Sf = parse_xdump(last[tt]), parse_xdump(last[st])
                i = int(src.split("#")[1]) if "#" in src else 0
                desc = "%s(%s <- %s, options %s%s)" % ({"t": "lyd_merge_tree", "s": "lyd_merge_siblings", "m": "lyd_merge_module"}[e], tt, src,
                                                       "|".join(n for b, n in ((1, "DESTRUCT"), (2, "DEFAULTS"), (4, "WITH_FLAGS")) if o & b) or "0",
                                                       (", module " + mod) if mod else "")
                tops = [MergeKinds.top_index(Sf, j) for j in range(len(Sf))]
                if Sf and i not in tops:
                    # nested source: refused, nothing changes
                    if rc(res) != LY_EINVAL:
                        return (None, "%s: a nested source node must be refused with LY_EINVAL, result %s" % (desc, res[:40]))
                    pend[tt] = (last[tt], False, desc + " (refused: target must be unchanged)")
                    pend[st] = (last[st], False, desc + " (refused: source must be unchanged)")
                    continue
                if rc(res) != 0:
                    return (None, "%s failed: %s" % (desc, res[:60]))
                exp, log = merge_ref(S, T, Sf, tops.index(i) if Sf else 0, o, e, mod)
                if e == "m":
                    got = res.split(" ", 1)[1] if " " in res else "-"
                    if got != (",".join(log) or "-"):
                        return (None, "%s: callback calls differ: expected %s observed %s" % (desc, ",".join(log) or "-", got))
                pend[tt] = (render(canon(S, exp)), True, desc)
                if o & MERGE_DESTRUCT and Sf:
                    pend[st] = ("empty", False, desc + " (source consumed)")
                else:
                    pend[st] = (last[st], False, desc + " (source must be untouched)")
            elif op == "xshare":
                if res != "ok":
                    return (None, "merged tree and its not consumed source share a heap block (%s)" % res)
            elif op == "inv":
                if res != "ok":
                    return (None, "merged tree breaks a tree invariant: %s (after %s)" % (res, cmds[k - 3][:80]))
            elif op == "xdup":
                last[w[3]] = None
                pend.pop(w[3], None)
                if rc(res) != 0:
                    return (None, "duplicating the source into the context of the target failed: %s -> %s" % (c[:60], res[:40]))
            elif op == "xctxof":
                if res != "ok":
                    return (None, "a node of the duplicated source belongs to another context (%s)" % res)
            elif op in ("free", "dup", "xanyset", "xopaq", "rt", "val"):
                t = (w[2] if op in ("dup", "xopaq", "rt") else w[1]).split("#")[0].rstrip("^")
                last[t] = None
                pend.pop(t, None)
                if op in ("xanyset", "xopaq") and res != "-" and rc(res) != 0 and not (op == "xanyset" and w[2] == "b" and rc(res) == 6):
                    # (a LYB value that cannot be printed - sibling hash collision, known C01 finding lyb-hash-collision -
                    # leaves the node as it was)
                    return (None, "setup command failed: %s -> %s" % (c[:60], res[:40]))
        if pend:
            return (None, "script error: expectation without a dump")
        return None


class MergeFamilies(MergeKinds):
    """C14 merge over schema families and across contexts: target and source hold nodes of two modules with equal local
    names at the same level (see DupFamilies); the target lives in a second context (other load order, other features), the
    source is duplicated into it with lyd_dup_siblings_to_ctx before every merge; result against merge_ref"""
    name = "mergefamilies"
    QUICK, THOROUGH = 120, 1500
    TCTX = 1
    MODS = ["m1", "m3", "m3", "m2"]

    def copy_source(self, s):
        s.add("xdup", "B", "t1", "t3", DUP_RECURSIVE | DUP_WITH_FLAGS, "c1", "-")
        s.add("xctxof", "t3", "c1")

    def make_case(self, rng, i):
        return family_case(rng, i, merge=True)


# ------------------------------------------------------------------------------------------------
# OriginUse: origin format of the source x later use of the copy
# ------------------------------------------------------------------------------------------------
M4_YANG = """module m4 {
  yang-version 1.1;
  namespace "urn:verif:m4";
  prefix m4;
  import ietf-yang-metadata { prefix md; }
  identity base-id;
  identity id-a { base base-id; }
  identity id-b { base base-id; }
  typedef u-all {
    type union {
      type int8;
      type enumeration { enum up; enum down; }
      type bits { bit b0; bit b1; bit b7 { position 7; } }
      type identityref { base base-id; }
      type boolean;
      type decimal64 { fraction-digits 2; }
      type instance-identifier { require-instance false; }
      type binary { length "3"; }
      type string { length "1..9"; }
    }
  }
  md:annotation mu { type u-all; }
  container top {
    leaf u1 { type u-all; }
    leaf u2 { type u-all; }
    leaf u3 { type u-all; default "down"; }
    leaf-list ul { type u-all; ordered-by user; }
    leaf-list sl { type union { type int16; type enumeration { enum up; enum down; } type string { length "1..4"; } } }
    list l {
      key "k";
      leaf k { type union { type int8; type enumeration { enum up; enum down; } type string { length "1..4"; } } }
      leaf v { type u-all; }
      leaf liid { type instance-identifier { require-instance false; } }
      leaf-list w { type u-all; }
    }
    leaf idr { type identityref { base base-id; } }
    leaf iid { type instance-identifier; }
    leaf lr { type leafref { path "../idr"; } }
    leaf lru { type leafref { path "../u1"; } }
    leaf bin { type binary; }
    leaf bts { type bits { bit x; bit y; bit z; } }
    leaf d64 { type decimal64 { fraction-digits 3; } }
    anydata ad;
    anyxml ax;
  }
  leaf-list tu { type u-all; }
}
"""


def m4_schema():
    def e(k, o, key=False, nk=0, uo=False):
        return {"k": k, "key": key, "nk": nk, "uo": uo, "ord": o, "mi": 0}
    S = {"m4:top": e("container", 0), "m4:tu": e("leaf-list", 1)}
    for i, (n, k) in enumerate([("u1", "leaf"), ("u2", "leaf"), ("u3", "leaf"), ("ul", "leaf-list"), ("sl", "leaf-list"), ("l", "list"),
                                ("idr", "leaf"), ("iid", "leaf"), ("lr", "leaf"), ("lru", "leaf"), ("bin", "leaf"), ("bts", "leaf"),
                                ("d64", "leaf"), ("ad", "anydata"), ("ax", "anyxml")]):
        S["m4:" + n] = e(k, i, nk=1 if k == "list" else 0, uo=(n == "ul"))
    S["m4:k"] = e("leaf", 0, key=True)
    S["m4:v"] = e("leaf", 1)
    S["m4:liid"] = e("leaf", 2)
    S["m4:w"] = e("leaf-list", 3)
    return S


U_MEMBERS = [lambda r: str(r.randrange(-128, 128)), lambda r: r.choice(["up", "down"]), lambda r: r.choice(["b0", "b0 b1", "b1 b7", "b7"]),
             lambda r: r.choice(["m4:id-a", "m4:id-b"]), lambda r: r.choice(["true", "false"]),
             lambda r: "%d.%02d" % (r.randrange(-99, 100), r.randrange(0, 100)),
             lambda r: r.choice(["/m4:top/m4:u1", "/m4:top/m4:l[m4:k='up']/m4:v", "/m4:tu[.='7']"]),
             lambda r: r.choice(["AQID", "////", "QUJD"]),
             lambda r: r.choice(["zz zz", "x", "a:b", "not/id", "Hello!"])]


def u_val(rng):
    return U_MEMBERS[rng.randrange(len(U_MEMBERS))](rng)


def m4_doc(rng, keys=None):
    """(XML document, list keys used): every value kind with format-dependent stored state"""
    ks = list(keys) if keys and rng.random() < 0.8 else []
    pool = ["1", "-7", "up", "down", "ab", "zz", "42", "q"]
    while len(ks) < 2 or (len(ks) < 5 and rng.random() < 0.5):
        k = rng.choice(pool)
        if k not in ks:
            ks.append(k)
    if keys and rng.random() < 0.5:
        ks = rng.sample(ks, rng.randrange(1, len(ks) + 1))

    def leaf(n, v, meta=True):
        a = (' m4:mu="%s"' % yanggen.xml_attr(u_val(rng))) if meta and rng.random() < 0.25 else ""
        return "<%s%s>%s</%s>" % (n, a, yanggen.xml_text(v), n)
    x = '<top xmlns="urn:verif:m4" xmlns:m4="urn:verif:m4">'
    x += leaf("u1", u_val(rng))
    if rng.random() < 0.8:
        x += leaf("u2", u_val(rng))
    if rng.random() < 0.5:
        x += leaf("u3", u_val(rng))
    seen = set()
    for _ in range(rng.randrange(0, 5)):
        v = u_val(rng)
        if v not in seen:
            seen.add(v)
            x += leaf("ul", v)
    for v in sorted(set(rng.choice(["-3", "5", "300", "up", "down", "ab", "zz"]) for _ in range(rng.randrange(0, 5)))):
        x += leaf("sl", v)
    for k in ks:
        x += "<l>" + leaf("k", k, False)
        if rng.random() < 0.8:
            x += leaf("v", u_val(rng))
        if rng.random() < 0.5:
            x += leaf("liid", rng.choice(["/m4:top/m4:u2", "/m4:top/m4:l[m4:k='%s']/m4:v" % k]))
        seen = set()
        for _ in range(rng.randrange(0, 3)):
            v = u_val(rng)
            if v not in seen:
                seen.add(v)
                x += leaf("w", v)
        x += "</l>"
    idr = rng.random() < 0.8
    if idr:
        x += leaf("idr", rng.choice(["m4:id-a", "m4:id-b"]))
    if rng.random() < 0.7:
        x += leaf("iid", "/m4:top/m4:u1")
    if idr and rng.random() < 0.6:
        x += leaf("lr", x.split("<idr")[1].split(">")[1].split("<")[0])
    if rng.random() < 0.6:
        x += leaf("lru", x.split("<u1")[1].split(">")[1].split("<")[0].replace("&lt;", "<").replace("&amp;", "&"))
    if rng.random() < 0.7:
        x += leaf("bin", rng.choice(["AQID", "", "aGVsbG8=", "/w=="]))
    if rng.random() < 0.7:
        x += leaf("bts", rng.choice(["x", "x z", "y z", ""]))
    if rng.random() < 0.7:
        x += leaf("d64", "%d.%03d" % (rng.randrange(-50, 50), rng.randrange(0, 1000)))
    if rng.random() < 0.6:
        x += "<ad>%s</ad>" % any_xml(rng, False)
    if rng.random() < 0.6:
        x += "<ax>%s</ax>" % any_xml(rng, True)
    x += "</top>"
    seen = set()
    for _ in range(rng.randrange(0, 4)):
        v = u_val(rng)
        if v not in seen:
            seen.add(v)
            x += '<tu xmlns="urn:verif:m4" xmlns:m4="urn:verif:m4">%s</tu>' % yanggen.xml_text(v)
    return x, ks


class OriginUse(Oracle):
    """C14 origin format x later use of the copy: source trees obtained from XML, JSON and LYB documents (validated and
    LYD_PARSE_ONLY) holding every value type with format-dependent stored state (unions of every member kind - also as list
    keys, leaf-list values and metadata -, instance-identifier, identityref, leafref, binary, bits, decimal64, anydata); every
    duplicate (all entry points, other context) and every merge result (copying and consuming) is judged like in dupmatrix /
    mergekinds AND then used: printed as XML, JSON and LYB, each parsed back and compared with lyd_compare_siblings, the LYB
    bytes compared with those of the original, lyd_validate_all on the copy, compared with the original"""
    name = "originuse"
    driver = DRIVER
    quick_sanitize = True
    P_ALL = 0x21                      # LYD_PRINT_WITHSIBLINGS | LYD_PRINT_WD_ALL
    ORIGINS = [("x", 0), ("j", 0), ("b", 0), ("x", 1), ("j", 1), ("b", 1)]       # (format, LYD_PARSE_ONLY?)

    def __init__(self):
        self._d = DupMatrix()
        self._m = MergeKinds()

    def use(self, s, c, t, orig=None, exact=False, validated=True, flags=False):
        """push the copy in slot t (context c) through the printers, the parsers, validation and compare. orig: slot of the
        tree the copy must be equal to (exact: a full duplicate with metadata; flags: the node flags were copied too). The
        XML / JSON round trip itself is C01's matter: here the copy only has to behave like its original"""
        what = "t%d" % t
        names = {"x": "XML", "j": "JSON", "b": "LYB"}
        for fmt in "xj":
            s.add("#must0", "printing the copy (%s) as %s" % (what, names[fmt]))
            s.add("print", "t%d" % t, fmt, self.P_ALL)
            if orig is not None and exact:
                s.add("print", "t%d" % orig, fmt, self.P_ALL)
                s.add("#eqres", 2, 1, "%s document of the duplicate (%s) and of the original (t%d)" % (names[fmt], what, orig))
                s.add("rt", "t%d" % orig, "t14", fmt, self.P_ALL, PARSE_ONLY | PARSE_STRICT, 0, "c%d" % c)
                s.add("rt", "t%d" % t, "t15", fmt, self.P_ALL, PARSE_ONLY | PARSE_STRICT, 0, "c%d" % c)
                s.add("#eqres", 2, 1, "parsing the %s print of the original (t%d) and of the duplicate (%s)" % (names[fmt], orig, what))
                s.add("#must0", "lyd_compare_siblings(%s print of the original parsed back, %s print of the duplicate parsed back)"
                      % (names[fmt], names[fmt]))
                s.add("cmp", "t14", "t15", 1)
        s.add("#must0", "printing the copy (%s) as LYB and parsing it back" % what)
        s.add("rt", "t%d" % t, "t15", "b", self.P_ALL, PARSE_ONLY | PARSE_STRICT, 0, "c%d" % c)
        s.add("#must0", "lyd_compare_siblings(copy %s, its LYB print parsed back)" % what)
        s.add("cmp", "t%d" % t, "t15", 1)
        if orig is not None and exact and flags:
            s.add("print", "t%d" % orig, "b", 1)
            s.add("print", "t%d" % t, "b", 1)
            s.add("#eqres", 2, 1, "LYB document of the original (t%d) and of its duplicate (%s)" % (orig, what))
        if validated:
            s.add("dump", "t%d" % t, 2)
            s.add("#must0", "lyd_validate_all on the copy (%s)" % what)
            s.add("val", "t%d" % t, "c%d" % c, VAL_PRESENT)
            s.add("dump", "t%d" % t, 2)
            s.add("#eqres", 4, 1, "validating the copy (%s) changed it" % what)
            s.add("#must0", "printing the validated copy (%s) as LYB and parsing it back" % what)
            s.add("rt", "t%d" % t, "t15", "b", self.P_ALL, PARSE_ONLY | PARSE_STRICT, 0, "c%d" % c)
        if orig is not None and exact:
            s.add("#must0", "lyd_compare_siblings(original t%d, duplicate %s)" % (orig, what))
            s.add("cmp", "t%d" % orig, "t%d" % t, 1)

    def gen(self, rng, tier, scale=1.0):
        S = m4_schema()
        pre = []
        for i in range(self.n(tier, 30, 400, scale)):
            da, keys = m4_doc(rng)
            db, _ = m4_doc(rng, keys)
            for kind in ("dup", "merge"):
                s = Script()
                s.add("#S", hexs(json.dumps(S, separators=(",", ":"))))
                s.add("#J", kind)
                for c in (0, 1):
                    s.ctx(c)
                    s.mod(M4_YANG, c)
                s.parse(0, "x", da)
                s.parse(1, "x", db)
                # the origin trees: slots 20.. (of A) and 26.. (of B), one per (format, validated?)
                for j, (fmt, ponly) in enumerate(self.ORIGINS):
                    for base, src in ((20, 0), (26, 1)):
                        if fmt == "x" and not ponly:
                            s.add("dup", "t%d" % src, "t%d" % (base + j), DUP_RECURSIVE | DUP_WITH_FLAGS)
                        elif fmt == "x":
                            s.parse(base + j, "x", da if src == 0 else db, PARSE_ONLY | PARSE_STRICT, 0)
                        else:
                            s.add("rt", "t%d" % src, "t%d" % (base + j), fmt, 1, (PARSE_ONLY if ponly else 0) | PARSE_STRICT,
                                  0 if ponly else VAL_PRESENT)
                n0 = len(s.cmds)
                for t in range(20, 32):
                    s.add("count", "t%d" % t)
                pre.append((s, n0, kind, "<ad>" in da or "<ax>" in da))
        outs = stage1([script_line(s) for s, _, _, _ in pre])
        L = []
        for (s, n0, kind, hasany), out in zip(pre, outs):
            r = results(out)
            if crashed(out) or len(r) < n0 + 13 or any(rc(x) != 0 for x in r[2:9]):
                L.append(script_line(s))
                continue
            # (an origin tree that could not be produced - the print / parse round trip of the format is C01's matter - is
            # not used)
            usable = [t for t in range(20, 32) if r[n0 + t - 20] not in ("0", "")]
            s.cmds = s.cmds[:n0]
            order = [j for j in range(len(self.ORIGINS)) if 20 + j in usable]
            rng.shuffle(order)
            tail = Script()
            for j in order[:4 if tier != "thorough" else 6]:
                fmt, ponly = self.ORIGINS[j]
                o = 20 + j
                s.add("xdump", "t%d" % o)
                if kind == "dup":
                    s.add("#keep", "t%d" % o)
                    opts = rng.choice([1, 9, 0x29])
                    s.add("xdup", "b", "t%d" % o, "t5", opts, "-", "-")
                    s.add("xdump", "t5")
                    s.add("xshare", "t%d" % o, "t5")
                    self.use(s, 0, 5, o, exact=True, validated=not ponly, flags=bool(opts & DUP_WITH_FLAGS) and not hasany)
                    # (into the other context: at the end of the script, see the known finding dup-to-ctx-union-member)
                    tail.add("xdump", "t%d" % o)
                    tail.add("xdup", "B", "t%d" % o, "t5", rng.choice([1, 9]), "c1", "-")
                    tail.add("xdump", "t5")
                    tail.add("xctxof", "t5", "c1")
                    self.use(tail, 1, 5, None, validated=not ponly)
                    # single nodes with their parents: a union leaf, a list instance, a key
                    for _ in range(2):
                        e = rng.choice(["s", "S"])
                        q = tail if e == "S" else s
                        q.add("xdup", e, "t%d#%d" % (o, rng.randrange(1, 12)), "t5", rng.choice([5, 4, 13, 7]), "c1" if e == "S" else "-", "-")
                        q.add("xdump", "t5")
                        self.use(q, 1 if e == "S" else 0, 5, None, validated=False)
                    s.add("xdump", "t%d" % o)
                else:
                    tj = rng.choice([t for t in usable if t >= 26] or [1])
                    for mo in (0, MERGE_DESTRUCT, rng.choice([2, 4, 6, 3, 5, 7])):
                        s.add("dup", "t%d" % tj, "t2", DUP_RECURSIVE | DUP_WITH_FLAGS)
                        s.add("dup", "t%d" % o, "t3", DUP_RECURSIVE | DUP_WITH_FLAGS)
                        src = 3
                        if not mo & MERGE_DESTRUCT and rng.random() < 0.6:
                            src = o                   # the origin tree itself is the (not consumed) source
                        s.add("xdump", "t2")
                        s.add("xdump", "t%d" % src)
                        s.add("xmerge", rng.choice(["s", "m"]), "t2", "t%d" % src, mo)
                        s.add("xdump", "t2")
                        s.add("xdump", "t%d" % src)
                        s.add("inv", "t2")
                        self.use(s, 0, 2, None, validated=False)
                    # into an empty target: a copy of the source
                    s.add("free", "t2")
                    s.add("xdump", "t2")
                    s.add("xmerge", "s", "t2", "t%d" % o, 0)
                    s.add("xdump", "t2")
                    s.add("xdump", "t%d" % o)
                    self.use(s, 0, 2, o, exact=True, validated=not ponly)
            s.cmds += tail.cmds
            L.append(script_line(s))
        return L

    def judge(self, line, out):
        j = self._m if "\t#J merge\t" in line else self._d
        j.last_err = getattr(self, "last_err", "")
        j.skipped = 0
        res = j.judge(line, out)
        self.skipped = getattr(self, "skipped", 0) + j.skipped
        if res and res[0] is None and "LYB print parsed back) failed" in res[1] and (" c1 -)" in res[1]) and \
                ("made by: xdup S " in res[1] or "made by: xdup B " in res[1]):
            return ("dup-to-ctx-union-member", res[1])
        return res
