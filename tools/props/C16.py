"""C16 - one context can be shared by concurrent readers (PARTIAL: locking logic proved on a model, memory model not)"""
from props import comps_conc

PID = "C16"
LEVEL = "proof"


def components():
    return [comps_conc.ConcModel()]


def oracles_():
    return [comps_conc.ConcSerial()]


TRUSTED = [
    "clang ThreadSanitizer (-fsanitize=thread, halt_on_error=0) and llvm-symbolizer: reports parsed by impl/t_conc.c; one "
    "suppression (race:tzset_internal: glibc serialises tzset()/localtime_r() with a lock TSan does not see)",
    "GNU ld --wrap: pthread_mutex_lock/unlock, lyht_find/insert/remove(_with_resize_cb), lydict_insert_zc and free are wrapped by "
    "impl/t_conc.c (lock-set trace, forced schedules; on the release build the error table arena freed during a forced err-rec "
    "scenario is zeroed and kept so that a regression of 75f292f loses error records deterministically)",
]

ASSUMPTIONS = [
    "PARTIAL. The Coq theorems are about a state machine whose steps are atomic and sequentially consistent (coq/Sched.v); "
    "the C11 memory model, real pthread mutexes (beyond mutual exclusion) and the heap are outside any proof here",
    "that the C code takes and drops dict.lock / lyb_hash_lock where the model does is checked on the running code only "
    "(lock-set trace through link-time wrappers: every lyht_* call on ctx->dict.hash_tab / ctx->err_ht with the lock held), "
    "not proved from the source",
    "data races, crashes and leaks of everything that is not modelled (parsers, printers, validation, XPath, diff, schema "
    "printers working on private trees and on one shared tree) are SEARCHED, not proved absent: per-thread results equal to "
    "a run alone, dictionary balance, ThreadSanitizer; a race that needs a rare interleaving can be missed",
    "the dictionary is modelled as a reference count per string; that dict.c on top of hash_table.c implements this is the "
    "subject of slice ht (C04/C17), not of this property",
]

MANIFEST = {
    "text": "PARTIAL. Coq (Sched.v: threads = lists of atomic steps over a shared state with the two locks of a context, the "
            "dictionary, the per-thread error records stored inline in a resizable arena, lazily cached canonical strings, the "
            "LYB hash cache; schedule = list of thread ids): C16_lock_discipline (every schedule of programs that pass a static "
            "lock check - all sequences of the modelled API calls do - touches the dictionary table, the error table and the "
            "hash cache only with the guarding lock held), C16_dict_linearizable (every schedule of lock-bracketed "
            "lydict_insert/remove, cut anywhere, is equivalent to the serial execution of the calls in the order they "
            "returned, which respects program order; every call got the serial result), C16_dict_final_refcounts (if threads "
            "only give back references they hold, every call succeeds and final counts = initial + references still held, "
            "for every schedule), C16_err_records_isolated (ly_err_first/last only returns items the same thread stored; "
            "arbitrary programs), C16_err_rec_pointer_stable (arbitrary programs, any number of threads, every schedule: the "
            "record handle returned by ly_err_get_rec/ly_err_new_rec names a live record whenever it is used after the lock was "
            "dropped; true since /repo 75f292f, the former 6-thread refutation witness is kept as Example "
            "C16_former_err_rec_witness), C16_private_ops_schedule_independent, C16_type_refcount_atomic_no_lost_update (reference "
            "count of a compiled type of the shared schema taken / given back from private data trees with the atomic "
            "operations: in every schedule the counter is its initial value plus the operations that took effect; "
            "type_refcount_plain_increment_refuted: a plain ++ loses an increment or overwrites a decrement), "
            "C16_scratch_local_interference_free (the values a thread reads back from a "
            "thread-local scratch buffer - struct tm of gmtime_r/localtime_r - are in every schedule the ones it reads alone, "
            "whatever other threads do with the process-wide buffer; Example C16_static_scratch_shared for gmtime()), "
            "C16_slot_read_in_section_valid (programs passing the lock check and the slot check read err_ht slots only "
            "through pointers into the current arena; Example C16_err_slot_read_after_unlock: read after the unlock is an "
            "unlocked access through a pointer into a freed arena), C16_hash_read_after_own_fill (a thread that went through "
            "the locked fill of all nodes always reads cached LYB hashes; Example C16_hash_cache_double_checked: an unlocked "
            "fast path reads a hash that is not stored yet), C16_log_temp_override_isolated (when library code silences the "
            "logger only through the thread-local override ly_temp_log_options - all compiled API programs do - a thread "
            "without an override of its own always logs with the options the application set, in every schedule; Example "
            "C16_log_global_window_visible: the same trial done with the process-wide ly_log_options() is seen by other "
            "threads and overlapping windows leave the options at 0). Refuted with an explicit schedule "
            "(vm_compute): canon_cache_single_ref_refuted (two readers of one shared value both pass the unlocked test of "
            "_canonical, one dictionary reference leaks). Tie: T2 "
            "runs forced schedules (call-level interleavings, preemption between the _canonical test and the store, "
            "preemption between ly_err_get_rec and the dereference) through the extracted model and through the C code "
            "(impl/t_conc.c: sequencing operations + link-time hooks) and compares strings left in the dictionary, lock-set "
            "violations and every ly_err_last result. Oracle conc-serial: 2..8 threads on one context "
            "and one shared tree (parse XML/JSON/LYB with drawn parser options (OPAQ, STRICT, ONLY, NO_STATE, ORDERED), "
            "validation options and printer options, the threads' own ly_temp_log_options, validate, print, XPath, dup, diff, "
            "apply, dictionary calls, schema find/print, failing parses + error reads, tight loops that duplicate / compare / diff / merge / free private trees full of instance-identifiers with key "
            "and leaf-list predicates, leafrefs, unions, identityrefs, bits and enumeration keys, tight loops of failing parses that "
            "check code/message/path after each while other threads stay inside the OPAQ XML parser on documents with "
            "hundreds of leaf-list instances; shared-tree prints, find_path, find_xpath, eval_xpath, compare) must "
            "give every thread the results it gets alone in a fresh context, bring the dictionary back to the post-setup "
            "size, never touch a table without its lock, leave every lysc_type.refcount of the shared schema at its value before the threads ran "
            "(white box), leave the process-wide state as the case set it (ly_log_options round "
            "trip, ly_log_level, log callback, the main thread's temporary options, context options and change count), and "
            "(ThreadSanitizer build) raise no report.",
    "note": "Known finding (still in the code): canon-lazy-cache, with a deterministic forced-schedule replay on the release "
            "build; err-rec-resize is fixed (75f292f) and its forced schedule is a regression case (model, T2 and oracle). Cases "
            "are constructed so that the listed race is either excluded (shared tree warmed or absent) - then nothing may be "
            "reported - or possible - then only reports with its stacks / consequences are attributed to it. Not covered: "
            "concurrent context changes (not allowed by the property), plugins other than the built-in ones, "
            "ly_log_options/ly_log_level changes while threads run, LY_CTX_LEAFREF_LINKING.",
    "technique": "Coq proof over a hand-written concurrency model (interleaving semantics) + forced-schedule correspondence "
                 "(extracted OCaml vs C with link-time hooks) + serial-equivalence and ThreadSanitizer search",
}
