"""C16 - one context can be shared by concurrent readers (PARTIAL: locking logic proved on a model, memory model not)"""
from props import comps_conc

PID = "C16"
LEVEL = "proof"


def components():
    return [comps_conc.ConcModel()]


def oracles_():
    return [comps_conc.ConcSerial()]


TRUSTED = [
    "clang ThreadSanitizer (-fsanitize=thread, halt_on_error=0) and llvm-symbolizer: reports parsed by impl/t_conc.c; one "
    "suppression (race:tzset_internal: glibc serialises tzset()/localtime_r() with a lock TSan does not see)",
    "GNU ld --wrap: pthread_mutex_lock/unlock, lyht_find/insert/remove(_with_resize_cb), lydict_insert_zc and free are wrapped by "
    "impl/t_conc.c (lock-set trace, forced schedules; on the release build the error table arena freed during a forced err-rec "
    "scenario is zeroed and kept so that a regression of 75f292f loses error records deterministically)",
]

ASSUMPTIONS = [
    "PARTIAL. The Coq theorems are about a state machine whose steps are atomic and sequentially consistent (coq/Sched.v); "
    "the C11 memory model, real pthread mutexes (beyond mutual exclusion) and the heap are outside any proof here",
    "that the C code takes and drops dict.lock / lyb_hash_lock where the model does is checked on the running code only "
    "(lock-set trace through link-time wrappers: every lyht_* call on ctx->dict.hash_tab / ctx->err_ht with the lock held), "
    "not proved from the source",
    "data races, crashes and leaks of everything that is not modelled (parsers, printers, validation, XPath, diff, schema "
    "printers working on private trees and on one shared tree) are SEARCHED, not proved absent: per-thread results equal to "
    "a run alone, dictionary balance, ThreadSanitizer; a race that needs a rare interleaving can be missed",
    "the dictionary is modelled as a reference count per string; that dict.c on top of hash_table.c implements this is the "
    "subject of slice ht (C04/C17), not of this property",
    "only the dictionary, error-record and lazy-canonical parts of the model are tied to the C code by T2; the hash cache, "
    "logging-option, type-reference-count, scratch and slot parts are regression models of seeded defect classes",
]

MANIFEST = {
    "text": "PARTIAL. Coq model Sched.v: threads = lists of atomic, sequentially consistent steps over one shared state (the two "
            "locks of a context, the dictionary as a reference count per string, the per-thread error records as separately "
            "allocated cells whose pointers sit in a resizable table arena, lazily cached canonical strings, the LYB hash cache "
            "filled node by node, the process-wide logging options and the thread-local override, the reference count of a "
            "shared compiled type, process-wide and thread-local scratch buffers); a schedule is a list of thread ids; the API "
            "calls are hand-transcribed step programs (compile). Theorems, each for EVERY schedule: C16_lock_discipline "
            "(programs passing the static lock check disc touch the dictionary table, the error table and the hash cache only "
            "with the guarding lock held); C16_dict_linearizable (threads running only lock-bracketed lydict_insert/remove, cut "
            "anywhere: equivalent to the serial execution of the calls in the order they returned, which respects program "
            "order; every call got the serial result); C16_dict_final_refcounts (same programs, if threads only give back "
            "references they hold: every call succeeds, final counts = initial + references still held); Example "
            "C16_dict_unlocked_not_linearizable (without the lock two removes of one reference both succeed); "
            "C16_err_records_isolated and C16_err_rec_pointer_stable (arbitrary programs, any number of threads: ly_err_first/"
            "last only returns items the same thread stored, and the record handle is live whenever it is used after the lock "
            "was dropped; true since /repo 75f292f, former 6-thread witness kept as Example C16_former_err_rec_witness); "
            "C16_slot_read_in_section_valid (programs passing disc and the slot check schk read err_ht slots only through "
            "pointers into the current arena; Example C16_err_slot_read_after_unlock); C16_hash_read_after_own_fill (programs "
            "passing hchk - every read preceded by the thread's own completed locked fill - read cached LYB hashes; Examples "
            "C16_hash_cache_double_checked, C16_hash_double_checked_rejected); C16_private_ops_schedule_independent and "
            "C16_scratch_local_interference_free (programs with no Priv / scratch step in a conditionally skipped block: private "
            "results and the values read back from a thread-local buffer are those of a run alone, whatever others do; Example "
            "C16_static_scratch_shared for a process-wide buffer); C16_type_refcount_atomic_no_lost_update (programs without "
            "plain increments: counter = initial + operations that took effect; type_refcount_plain_increment_refuted and "
            "Example C16_type_refcount_witnesses: a plain ++ loses an increment / overwrites a decrement); "
            "C16_log_temp_override_isolated (no program writes the process-wide options: a thread without an override of its "
            "own logs with the initial options; Example C16_log_global_window_visible for the process-wide variant). The "
            "C16_api_programs_* theorems show that all compiled API programs meet each of these hypotheses. Refuted with an "
            "explicit schedule (vm_compute): canon_cache_single_ref_refuted (two readers of one shared value both pass the "
            "unlocked test of _canonical, one dictionary reference leaks; Example C16_canon_serial_single_ref for the serial "
            "order). Tie T2 (release build only): forced schedules (call-level interleavings, preemption between the "
            "_canonical test and the store, preemption between ly_err_get_rec and the use of the record) of dictionary calls, "
            "log_store / ly_err_last / ly_err_clean and the lazily caching print run through the extracted model and through "
            "the C code (impl/t_conc.c: sequencing operations + link-time hooks); compared: strings left in the dictionary, "
            "lock-set violations, every ly_err_last result. The hash cache, logging options, type reference count, scratch and "
            "slot parts of the model have NO T2 tie: they mirror seeded defect classes and are covered on the C side by the "
            "oracle only. Oracle conc-serial (release and ThreadSanitizer builds): 2..8 threads on one context and one shared "
            "tree run generated workloads (parse XML/JSON/LYB with drawn parser, validation and printer options, the threads' "
            "own ly_temp_log_options, validate, print, XPath, dup, diff, apply, merge, dictionary calls, schema find/print, "
            "failing parses + error reads in tight loops while other threads stay inside the OPAQ XML parser on big documents, "
            "loops that duplicate / compare / diff / merge / free private trees full of instance-identifiers with predicates, "
            "leafrefs, unions, identityrefs, bits and enumeration keys; shared-tree print, find_path, find_xpath, eval_xpath, "
            "compare) and must give every thread the results it gets alone in a fresh context, bring the dictionary back to the "
            "post-setup size, never call a lyht_* function on the dictionary / error table without its lock (link-time trace), "
            "leave every lysc_type.refcount of the shared schema (white box) and the process-wide state (ly_log_options round "
            "trip, ly_log_level, log callback, main thread's temporary options, context options and change count) unchanged, "
            "and raise no ThreadSanitizer report.",
    "note": "Modelled, not verified: the step programs are transcribed by hand from dict.c, log.c, lyb.c, path.c and the "
            "lazily caching type plugins; refcount++ / refcount-- of a dictionary record and every other step are atomic in the "
            "model. Known finding (still in the code): canon-lazy-cache, with a deterministic forced-schedule replay on the "
            "release build; err-rec-resize is fixed (75f292f), its forced schedule is a regression case (model Example, T2, "
            "oracle). Oracle cases are built so that the listed race is either excluded (shared tree warmed or absent: nothing "
            "may be reported) or possible (only reports with its stacks / consequences are attributed to it; the attribution "
            "is by stack-function patterns). LYD_VALIDATE_MULTI_ERROR is not drawn while a thread has switched error storing "
            "off (a single-threaded crash reported for C05). Not covered: concurrent context changes (not allowed by the "
            "property), plugins other than the built-in ones, ly_log_options/ly_log_level changes while threads run, "
            "LY_CTX_LEAFREF_LINKING, rare interleavings the search does not hit.",
    "technique": "Coq proof over a hand-written concurrency model (interleaving semantics) + forced-schedule correspondence "
                 "(extracted OCaml vs C with link-time hooks) + serial-equivalence and ThreadSanitizer search",
}
