"""comps_xpath.py - slice `xpath` (property C08): XPath 1.0 evaluation on data trees.

Driver impl/t_xpath.c (lyxp_eval / lyd_eval_xpath4 of the tree under test), model ocaml/run_xpath.ml over
coq/XPathConv.v, XPathTree.v, XPathSem.v.

Components (Comp):
  XPathEval   `xp <yang> <xml> <dump> <ctx> <expr-hex> <ast>`  typed result of the evaluation.
              The model answers `<spec>|<as coded>|<switches>`: the XPath 1.0 reference result, the result with every
              modelled departure of src/xpath.c switched on, and (when they differ) a minimal set of switches that
              explains the as-coded answer. A case passes when the library answers the reference result. When it answers
              the as-coded result instead, the case is a DEVIATION of libyang from XPath 1.0 that is already listed:
              witness() names it by its first switch (tag xpath-<switch>); anything else is a new violation.
  XPathS2N / XPathN2S   `xpk s2n|n2s <hex>`  the conversion kernels as coded (cast_string_to_number, lyxp_set_cast)
Oracles:
  XPathFastPair  `xp2 ...`  a key predicate answered by the hash lookup and a semantically identical expression that
              forces generic evaluation select the same nodes (lists with <= 3 and >= 4 instances, i.e. without and with
              the children hash table)
  XPathSan    (sanitizer builds only) no evaluation has a memory error or undefined behaviour other than the listed ones

Repaired deviations: gen() replays the canonical witness of every switch (known_findings.d/xpath.json); a switch whose
witness is answered as the reference semantics expects is put back to the recommendation in the as-coded model
(fixed_switches()), so fixes of libyang need no change here and the remaining deviations are still attributed exactly.

The data tree the model sees is the dump of the tree as the library holds it after parsing and validation (default
nodes included): gen() asks the driver for it (`xpd`) and puts it into the case line; the driver checks it again.
"""
import os
import re
import subprocess

import vlib
from props.comps import Comp
from vlib import hexs, unhex

# ------------------------------------------------------------------------------------------------
# schema family
# ------------------------------------------------------------------------------------------------
YANG_A = '''module a { yang-version 1.1; namespace "urn:a"; prefix a;
  container c {
    leaf s { type string; }
    leaf n { type int32; }
    leaf d { type decimal64 { fraction-digits 2; } }
    leaf bo { type boolean; }
    leaf e { type enumeration { enum one; enum two; } }
    leaf dn { type int32; default 7; }
    leaf ds { type string; default "dflt"; }
    leaf u { type uint8; }
    leaf-list ll { type string; ordered-by user; }
    leaf-list ln { type int32; }
    list l1 { key k; leaf k { type string; } leaf v { type int32; } leaf w { type string; default "w0"; }
      container in { leaf x { type string; } leaf y { type int32; default 3; } }
      leaf-list t { type string; ordered-by user; }
      choice ch { case one { leaf ca { type string; } } case two { leaf cb { type string; } } } }
    list l2 { key "k1 k2"; leaf k1 { type string; } leaf k2 { type int32; } leaf v { type string; } }
    list lu { key k; ordered-by user; leaf k { type uint8; } leaf v { type decimal64 { fraction-digits 1; } } }
    container np { leaf z { type string; default "zz"; } }
    container p { presence "p"; leaf q { type string; } }
  }
  leaf tl { type string; }
  leaf-list tll { type string; ordered-by user; }
  list top { key id; leaf id { type string; } leaf val { type int32; }
    container tc { leaf z { type string; } leaf sel { type string; }
      list e { key k; leaf k { type string; } leaf v { type string; } } }
    leaf gsel { type string; }
    list g { key k; leaf k { type string; } leaf v { type int32; } } }
}'''
YANG_B = '''module b { yang-version 1.1; namespace "urn:b"; prefix b; import a { prefix a; }
  augment /a:c { leaf s { type string; } leaf bx { type string; }
    container bc { leaf s { type string; } leaf-list m { type int32; } } }
  augment /a:c/a:l1 { leaf v { type string; } }
  leaf tl { type string; }
  container bt { leaf q { type string; } }
}'''
YANGS = hexs(YANG_A) + "," + hexs(YANG_B)

# (module, name) -> children in schema order; leaves: type tag
STR_POOL = ["a", "b", "c", "x", "y", "p\tq", "l1\nl2", "5", "5.0", "05", "-1.5", " 5 ", "1e3", "+5", "0x10", "inf", "nan", "true", "false",
            "a b", "é", "äöx", "x'y", "12", "2.5", "abc", "ab", "", "0", "-0", "1", "2", "3", "10", "w0", "zz", "7"]
KEY_POOL = ["a", "b", "c", "x", "", "5", "5.0", "05", " 5", "1e3", "true", "é", "12", "2", "1", "k'q", "-1", "0", "abc"]
INT_POOL = [0, 1, 2, 3, 5, 7, 10, 12, -1, -3, 100, 255, 1000, -7]
DEC_POOL = ["2.5", "0.25", "-1.5", "3", "10.75", "0.1", "-0.05", "7.0"]


def xesc(s):
    return s.replace("&", "&amp;").replace("<", "&lt;").replace(">", "&gt;")


class Inst:
    """random instance of modules a + b; to_xml() gives the document"""

    def __init__(self, rng, big=None, last_leaf=None):
        self.rng = rng
        r = rng.random
        big = rng.random() < 0.5 if big is None else big
        cnt = (lambda lo, hi: rng.randrange(4, hi + 1)) if big else (lambda lo, hi: rng.randrange(lo, 4))
        self.x = []
        c = []
        if r() < 0.8:
            c.append(("a", "s", rng.choice(STR_POOL)))
        if r() < 0.7:
            c.append(("a", "n", str(rng.choice(INT_POOL))))
        if r() < 0.6:
            c.append(("a", "d", rng.choice(DEC_POOL)))
        if r() < 0.4:
            c.append(("a", "bo", rng.choice(["true", "false"])))
        if r() < 0.4:
            c.append(("a", "e", rng.choice(["one", "two"])))
        if r() < 0.3:
            c.append(("a", "dn", str(rng.choice(INT_POOL))))
        if r() < 0.3:
            c.append(("a", "ds", rng.choice(STR_POOL)))
        if r() < 0.4:
            c.append(("a", "u", str(rng.choice([0, 5, 12, 255]))))
        for v in rng.sample(STR_POOL, rng.choice([0, 1, 2, 3, 5])):
            c.append(("a", "ll", v))
        for v in rng.sample(INT_POOL, rng.choice([0, 0, 2, 4])):
            c.append(("a", "ln", str(v)))
        for k in rng.sample(KEY_POOL, cnt(0, 6)):
            ch = [("a", "k", k)]
            if r() < 0.7:
                ch.append(("a", "v", str(rng.choice(INT_POOL))))
            if r() < 0.4:
                ch.append(("a", "w", k if r() < 0.4 else rng.choice(STR_POOL)))
            if r() < 0.6:
                inn = []
                if r() < 0.7:
                    inn.append(("a", "x", k if r() < 0.3 else rng.choice(STR_POOL)))
                if r() < 0.4:
                    inn.append(("a", "y", str(rng.choice(INT_POOL))))
                ch.append(("a", "in", inn))
            for v in rng.sample(STR_POOL, rng.choice([0, 0, 1, 2, 3])):
                ch.append(("a", "t", v))
            if r() < 0.5:
                ch.append(("a", rng.choice(["ca", "cb"]), k if r() < 0.5 else rng.choice(KEY_POOL)))
            if r() < 0.3:
                ch.append(("b", "v", rng.choice(STR_POOL)))
            c.append(("a", "l1", ch))
        seen = set()
        for _ in range(cnt(0, 5)):
            k1, k2 = rng.choice(KEY_POOL[:6]), rng.choice([1, 2, 5, 12, -1])
            if (k1, k2) in seen:
                continue
            seen.add((k1, k2))
            ch = [("a", "k1", k1), ("a", "k2", str(k2))]
            if r() < 0.7:
                ch.append(("a", "v", rng.choice(STR_POOL)))
            c.append(("a", "l2", ch))
        for k in rng.sample([0, 1, 2, 5, 12, 50, 255], cnt(0, 5)):
            ch = [("a", "k", str(k))]
            if r() < 0.6:
                ch.append(("a", "v", ("%d.0" % k) if r() < 0.3 else rng.choice(["2.5", "0.5", "-1.5", "3.0", "10.1"])))
            c.append(("a", "lu", ch))
        if r() < 0.3:
            c.append(("a", "np", [("a", "z", rng.choice(STR_POOL))] if r() < 0.7 else []))
        if r() < 0.4:
            c.append(("a", "p", [("a", "q", rng.choice(STR_POOL))] if r() < 0.6 else []))
        if r() < 0.5:
            c.append(("b", "s", rng.choice(STR_POOL)))
        if r() < 0.3:
            c.append(("b", "bx", rng.choice(STR_POOL)))
        if r() < 0.4:
            bc = []
            if r() < 0.7:
                bc.append(("b", "s", rng.choice(STR_POOL)))
            for v in rng.sample(INT_POOL, rng.choice([0, 1, 3])):
                bc.append(("b", "m", str(v)))
            c.append(("b", "bc", bc))
        if r() < 0.92:
            self.x.append(("a", "c", c))
        if r() < 0.4:
            self.x.append(("a", "tl", rng.choice(STR_POOL)))
        for v in rng.sample(STR_POOL, rng.choice([0, 0, 1, 3])):
            self.x.append(("a", "tll", v))
        for k in rng.sample(KEY_POOL, rng.choice([0, 1, 2, 4, 5])):
            ch = [("a", "id", k)]
            if r() < 0.7:
                ch.append(("a", "val", str(rng.choice(INT_POOL))))
            if r() < 0.6:
                tc = []
                if r() < 0.6:
                    tc.append(("a", "z", rng.choice(STR_POOL)))
                eks = rng.sample(KEY_POOL[:8], rng.choice([0, 1, 2, 3, 4]))
                if r() < 0.7:
                    tc.append(("a", "sel", rng.choice(eks) if eks and r() < 0.8 else rng.choice(KEY_POOL)))
                for ek in eks:
                    tc.append(("a", "e", [("a", "k", ek)] + ([("a", "v", rng.choice(STR_POOL))] if r() < 0.5 else [])))
                ch.append(("a", "tc", tc))
            # a list directly in a list: [k=../gsel] must take gsel of the own parent instance
            gks = rng.sample(KEY_POOL[:8], rng.choice([0, 0, 1, 2, 3, 4]))
            if r() < 0.8:
                ch.append(("a", "gsel", rng.choice(gks) if gks and r() < 0.85 else rng.choice(KEY_POOL)))
            for gk in gks:
                ch.append(("a", "g", [("a", "k", gk)] + ([("a", "v", str(rng.choice(INT_POOL)))] if r() < 0.8 else [])))
            self.x.append(("a", "top", ch))
        # the last top-level node: a leaf (b:tl) provokes the get_node_pos() restart crash, a container with a child
        # (b:bt/q) does not
        last_leaf = (r() < 0.12) if last_leaf is None else last_leaf
        if last_leaf:
            self.x.append(("b", "tl", rng.choice(STR_POOL)))
        else:
            if r() < 0.3:
                self.x.append(("b", "tl", rng.choice(STR_POOL)))
            self.x.append(("b", "bt", [("b", "q", rng.choice(STR_POOL))]))

    def to_xml(self):
        out = []

        def rec(n, pmod):
            m, name, v = n
            ns = ' xmlns="urn:%s"' % m if m != pmod else ""
            if isinstance(v, list):
                out.append("<%s%s>" % (name, ns))
                for ch in v:
                    rec(ch, m)
                out.append("</%s>" % name)
            else:
                out.append("<%s%s>%s</%s>" % (name, ns, xesc(v), name))
        for n in self.x:
            rec(n, None)
        return "".join(out)


class Node:
    __slots__ = ("idx", "depth", "kind", "mod", "name", "val", "dflt", "ty", "keys", "parent", "children")


def parse_dump(d):
    nodes = []
    if d in ("-", ""):
        return nodes
    stack = []
    for i, r in enumerate(d.split(";")):
        f = r.split(":")
        n = Node()
        n.idx, n.depth, n.kind, n.mod, n.name = i, int(f[0]), f[1], f[2], f[3]
        n.val, n.dflt, n.ty, n.keys = unhex(f[4]), f[5] == "1", f[6], ([] if f[7] == "-" else f[7].split(","))
        n.children = []
        while len(stack) > n.depth:
            stack.pop()
        n.parent = stack[-1] if stack else None
        if n.parent:
            n.parent.children.append(n)
        stack.append(n)
        nodes.append(n)
    return nodes


# ------------------------------------------------------------------------------------------------
# expressions: AST, text, s-expression
#   ("root",) ("ctx",) ("step", base, ds, axis, ntest, [pred]) ("filter", e, [pred]) ("or"|"and"|"union", a, b)
#   ("cmp", op, a, b) ("ar", op, a, b) ("neg", a) ("lit", bytes) ("num", text) ("fn", name, [args])
#   ntest: ("name", pfx|None, name) ("star", pfx|None) ("node",) ("text",) ("any",) = the test of "." and ".."
# ------------------------------------------------------------------------------------------------
AXES = ["child", "descendant", "descendant-or-self", "parent", "ancestor", "ancestor-or-self", "following",
        "following-sibling", "preceding", "preceding-sibling", "self", "attribute", "namespace"]
ARITY = {"last": (0, 0), "position": (0, 0), "count": (1, 1), "local-name": (0, 1), "name": (0, 1), "string": (0, 1),
         "concat": (2, 99), "starts-with": (2, 2), "contains": (2, 2), "substring-before": (2, 2),
         "substring-after": (2, 2), "substring": (2, 3), "string-length": (0, 1), "normalize-space": (0, 1),
         "translate": (3, 3), "boolean": (1, 1), "not": (1, 1), "true": (0, 0), "false": (0, 0), "number": (0, 1),
         "sum": (1, 1), "floor": (1, 1), "ceiling": (1, 1), "round": (1, 1), "current": (0, 0)}
PREC = {"or": 1, "and": 2, "=": 3, "!=": 3, "<": 4, "<=": 4, ">": 4, ">=": 4, "+": 5, "-": 5, "*": 6, "div": 6, "mod": 6,
        "neg": 7, "union": 8}


def r_ntest(nt):
    if nt[0] == "name":
        return (nt[1] + ":" if nt[1] else "") + nt[2]
    if nt[0] == "star":
        return (nt[1] + ":" if nt[1] else "") + "*"
    return ("node" if nt[0] == "any" else nt[0]) + "()"


def r_lit(b):
    s = b.decode("utf-8")
    return '"%s"' % s if "'" in s else "'%s'" % s


def prec_of(e):
    k = e[0]
    if k in ("or", "and", "union", "neg"):
        return PREC[k]
    if k in ("cmp", "ar"):
        return PREC[e[1]]
    return 9


def render(e, abbrev=True, top=True):
    """text of the expression; a bare "/" that is an operand is written "(/)" (after "/" the lexer reads "*", "mod" ...
    as a name test)"""
    s = render1(e, abbrev)
    return s


def operand(e, abbrev):
    return "(/)" if e[0] == "root" else render1(e, abbrev)


def render1(e, abbrev=True):
    k = e[0]
    if k == "root":
        return "/"
    if k == "ctx":
        return "."
    if k == "step":
        base, ds, ax, nt, ps = e[1], e[2], e[3], e[4], e[5]
        if ax == "self" and nt == ("any",):
            st = "."
        elif ax == "parent" and nt == ("any",):
            st = ".."
        elif abbrev and ax == "child":
            st = r_ntest(nt)
        elif abbrev and ax == "attribute":
            st = "@" + r_ntest(nt)
        else:
            st = ax + "::" + r_ntest(nt)
        st += "".join("[" + render(p, abbrev) + "]" for p in ps)
        sep = "//" if ds else "/"
        if base[0] == "root":
            return sep + st
        if base[0] == "ctx":
            return (".//" + st) if ds else st
        b = render(base, abbrev)
        if base[0] not in ("step", "fn", "filter"):
            b = "(" + b + ")"
        return b + sep + st
    if k == "filter":
        b = render(e[1], abbrev)
        return "(" + b + ")" + "".join("[" + render(p, abbrev) + "]" for p in e[2])
    if k in ("or", "and", "union", "cmp", "ar"):
        op = {"union": "|"}.get(k, k) if k in ("or", "and", "union") else e[1]
        a, b = (e[1], e[2]) if k in ("or", "and", "union") else (e[2], e[3])
        p = prec_of(e)
        sa, sb = operand(a, abbrev), operand(b, abbrev)
        if prec_of(a) < p:
            sa = "(" + sa + ")"
        if prec_of(b) <= p:
            sb = "(" + sb + ")"
        return sa + " " + op + " " + sb
    if k == "neg":
        s = operand(e[1], abbrev)
        if prec_of(e[1]) < 8:
            s = "(" + s + ")"
        return "- " + s
    if k == "lit":
        return r_lit(e[1])
    if k == "num":
        return e[1]
    if k == "fn":
        return e[1] + "(" + ", ".join(render(a, abbrev) for a in e[2]) + ")"
    raise ValueError(e)


def sx(e):
    """s-expression for ocaml/run_xpath.ml; `bad` for what the grammar / function library rejects"""
    k = e[0]
    if k == "root":
        return "( root )"
    if k == "ctx":
        return "( ctx )"
    if k == "step":
        nt = e[4]
        if nt[0] == "name":
            s_nt = "( name %s %s )" % (hexs(nt[1]) if nt[1] else "-", hexs(nt[2]))
        elif nt[0] == "star":
            s_nt = "( star %s )" % (hexs(nt[1]) if nt[1] else "-")
        else:
            s_nt = "( %s )" % nt[0]
        return "( step %s %d %s %s %s )" % (sx(e[1]), 1 if e[2] else 0, e[3], s_nt, " ".join(sx(p) for p in e[5]))
    if k == "filter":
        return "( filter %s %s )" % (sx(e[1]), " ".join(sx(p) for p in e[2]))
    if k in ("or", "and", "union"):
        return "( %s %s %s )" % (k, sx(e[1]), sx(e[2]))
    if k in ("cmp", "ar"):
        return "( %s %s %s %s )" % (k, e[1], sx(e[2]), sx(e[3]))
    if k == "neg":
        return "( neg %s )" % sx(e[1])
    if k == "lit":
        return "( lit %s )" % hexs(e[1])
    if k == "num":
        return "( num %s )" % hexs(e[1])
    if k == "fn":
        name, args = e[1], e[2]
        if name not in ARITY or not (ARITY[name][0] <= len(args) <= ARITY[name][1]):
            return "bad"
        if name == "concat" and len(args) > 2:
            return sx(("fn", "concat", [args[0], ("fn", "concat", args[1:])]))
        return "( f%d %s %s )" % (len(args), name, " ".join(sx(a) for a in args))
    raise ValueError(e)


# ---- parser of the XPath 1.0 grammar (for hand-written expressions of the fixed corpus) ----
_TOK = re.compile(r"\s*(?:(\d+(?:\.\d*)?|\.\d+)|('[^']*'|\"[^\"]*\")|(//|::|\.\.|!=|<=|>=|[/()\[\]@,|+\-=<>*.])|"
                  r"([A-Za-z_][\w.\-]*(?::(?:[A-Za-z_][\w.\-]*|\*))?))")


def tokenize(s):
    out, pos = [], 0
    s = s.rstrip()
    while pos < len(s):
        m = _TOK.match(s, pos)
        if not m:
            raise ValueError("token at %d in %r" % (pos, s))
        pos = m.end()
        if m.group(1) is not None:
            out.append(("num", m.group(1)))
        elif m.group(2) is not None:
            out.append(("lit", m.group(2)[1:-1]))
        elif m.group(3) is not None:
            out.append(("op", m.group(3)))
        else:
            out.append(("name", m.group(4)))
    return out


class Parser:
    def __init__(self, s):
        self.t = tokenize(s)
        self.i = 0

    def peek(self, k=0):
        return self.t[self.i + k] if self.i + k < len(self.t) else ("eof", "")

    def eat(self, v=None):
        tk = self.peek()
        if v is not None and tk != ("op", v):
            raise ValueError("expected %s, got %s" % (v, tk))
        self.i += 1
        return tk

    def is_op(self, v, k=0):
        return self.peek(k) == ("op", v)

    def opname(self, names):
        """operator names are names only where an operator is expected"""
        tk = self.peek()
        return tk[0] == "name" and tk[1] in names

    def expr(self):
        a = self.and_()
        while self.opname(("or",)):
            self.i += 1
            a = ("or", a, self.and_())
        return a

    def and_(self):
        a = self.eq()
        while self.opname(("and",)):
            self.i += 1
            a = ("and", a, self.eq())
        return a

    def eq(self):
        a = self.rel()
        while self.is_op("=") or self.is_op("!="):
            op = self.eat()[1]
            a = ("cmp", op, a, self.rel())
        return a

    def rel(self):
        a = self.add()
        while any(self.is_op(o) for o in ("<", "<=", ">", ">=")):
            op = self.eat()[1]
            a = ("cmp", op, a, self.add())
        return a

    def add(self):
        a = self.mul()
        while self.is_op("+") or self.is_op("-"):
            op = self.eat()[1]
            a = ("ar", op, a, self.mul())
        return a

    def mul(self):
        a = self.unary()
        while self.is_op("*") or self.opname(("div", "mod")):
            op = self.eat()[1] if self.is_op("*") else self.t[self.i][1]
            if op in ("div", "mod"):
                self.i += 1
            a = ("ar", op, a, self.unary())
        return a

    def unary(self):
        if self.is_op("-"):
            self.eat()
            return ("neg", self.unary())
        return self.union()

    def union(self):
        a = self.path()
        while self.is_op("|"):
            self.eat()
            a = ("union", a, self.path())
        return a

    def preds(self):
        ps = []
        while self.is_op("["):
            self.eat()
            ps.append(self.expr())
            self.eat("]")
        return ps

    def path(self):
        tk = self.peek()
        if tk == ("op", "/") or tk == ("op", "//"):
            self.eat()
            nxt = self.peek()
            if tk[1] == "/" and not (nxt[0] == "name" or nxt in (("op", "."), ("op", ".."), ("op", "@"), ("op", "*"))):
                return ("root",)
            return self.rel_path(("root",), tk[1] == "//")
        primary = None
        if tk == ("op", "("):
            self.eat()
            primary = self.expr()
            self.eat(")")
        elif tk[0] == "lit":
            self.i += 1
            primary = ("lit", tk[1].encode("utf-8"))
        elif tk[0] == "num":
            self.i += 1
            primary = ("num", tk[1])
        elif tk[0] == "name" and self.is_op("(", 1) and tk[1] not in ("node", "text"):
            self.i += 2
            args = []
            if not self.is_op(")"):
                args.append(self.expr())
                while self.is_op(","):
                    self.eat()
                    args.append(self.expr())
            self.eat(")")
            primary = ("fn", tk[1], args)
        if primary is None:
            return self.rel_path(("ctx",), False)
        ps = self.preds()
        if ps:
            primary = ("filter", primary, ps)
        if self.is_op("/") or self.is_op("//"):
            ds = self.eat()[1] == "//"
            return self.rel_path(primary, ds)
        return primary

    def rel_path(self, base, ds):
        base = self.step(base, ds)
        while self.is_op("/") or self.is_op("//"):
            ds = self.eat()[1] == "//"
            base = self.step(base, ds)
        return base

    def step(self, base, ds):
        if self.is_op("."):
            self.eat()
            return ("step", base, ds, "self", ("any",), [])
        if self.is_op(".."):
            self.eat()
            return ("step", base, ds, "parent", ("any",), [])
        ax = "child"
        if self.is_op("@"):
            self.eat()
            ax = "attribute"
        elif self.peek()[0] == "name" and self.is_op("::", 1):
            ax = self.peek()[1]
            self.i += 2
        tk = self.peek()
        if tk == ("op", "*"):
            self.eat()
            nt = ("star", None)
        elif tk[0] == "name" and tk[1] in ("node", "text") and self.is_op("(", 1):
            self.i += 2
            self.eat(")")
            nt = (tk[1],)
        elif tk[0] == "name":
            self.i += 1
            if ":" in tk[1]:
                p, n = tk[1].split(":")
                nt = ("star", p) if n == "*" else ("name", p, n)
            else:
                nt = ("name", None, tk[1])
        else:
            raise ValueError("step at %s" % (tk,))
        return ("step", base, ds, ax, nt, self.preds())


def parse(s):
    p = Parser(s)
    e = p.expr()
    if p.i != len(p.t):
        raise ValueError("trailing tokens in %r" % s)
    return e


# ------------------------------------------------------------------------------------------------
# generators
# ------------------------------------------------------------------------------------------------
SCHEMA_NAMES = [("a", n) for n in ["c", "s", "n", "d", "bo", "e", "dn", "ds", "u", "ll", "ln", "l1", "k", "v", "w", "in", "x",
                                   "y", "t", "l2", "k1", "k2", "lu", "np", "z", "p", "q", "tl", "tll", "top", "id", "val", "tc", "ca", "cb", "sel", "e"]] + \
               [("b", n) for n in ["s", "bx", "bc", "m", "v", "tl", "bt", "q"]]
CHILDREN = {None: [("a", "c"), ("a", "tl"), ("a", "tll"), ("a", "top"), ("b", "tl"), ("b", "bt")],
            ("a", "c"): [("a", n) for n in ["s", "n", "d", "bo", "e", "dn", "ds", "u", "ll", "ln", "l1", "l2", "lu", "np", "p"]] +
                        [("b", "s"), ("b", "bx"), ("b", "bc")],
            ("a", "l1"): [("a", "k"), ("a", "v"), ("a", "w"), ("a", "in"), ("a", "t"), ("a", "ca"), ("a", "cb"), ("b", "v")],
            ("a", "in"): [("a", "x"), ("a", "y")],
            ("a", "l2"): [("a", "k1"), ("a", "k2"), ("a", "v")],
            ("a", "lu"): [("a", "k"), ("a", "v")],
            ("a", "np"): [("a", "z")], ("a", "p"): [("a", "q")],
            ("a", "top"): [("a", "id"), ("a", "val"), ("a", "tc")], ("a", "tc"): [("a", "z"), ("a", "sel"), ("a", "e")], ("a", "e"): [("a", "k"), ("a", "v")],
            ("b", "bc"): [("b", "s"), ("b", "m")], ("b", "bt"): [("b", "q")]}
NUM_LITS = ["0", "1", "2", "3", "5", "10", "1.5", "2.5", "0.5", "0.25", "12", "7", "100", "0.1", "3.75"]


class ExprGen:
    def __init__(self, rng, nodes, prefixed=True):
        self.rng = rng
        self.nodes = nodes
        self.prefixed = prefixed
        self.vals = [n.val for n in nodes if n.kind in "ft"] or [b"a"]
        self.nums = sorted({n.val.decode() for n in nodes if n.kind in "ft" and re.fullmatch(rb"\d+(\.\d+)?", n.val)}) or ["1"]

    def name_test(self, under=None):
        rng = self.rng
        r = rng.random()
        if r < 0.07:
            return ("star", None)
        if r < 0.10:
            return ("star", rng.choice(["a", "b"]))
        if r < 0.14:
            return ("node",)
        if r < 0.17:
            return ("text",)
        if under in CHILDREN and rng.random() < 0.8:
            m, n = rng.choice(CHILDREN[under])
        else:
            m, n = rng.choice(SCHEMA_NAMES)
        return ("name", m if self.prefixed else None, n)

    def axis(self):
        rng = self.rng
        if rng.random() < 0.55:
            return "child"
        return rng.choice(AXES[:11] + ["attribute"] + (["namespace"] if rng.random() < 0.1 else []))

    def literal(self):
        rng = self.rng
        if rng.random() < 0.7:
            v = rng.choice(self.vals)
        else:
            v = rng.choice(STR_POOL).encode("utf-8")
        if b"'" in v and b'"' in v:
            v = b"q"
        return ("lit", v)

    def number(self):
        """a number literal; half of them values that occur in the tree (comparison boundaries)"""
        return ("num", self.rng.choice(self.nums if self.rng.random() < 0.5 else NUM_LITS))

    def pred(self, depth, under=None):
        rng = self.rng
        r = rng.random()
        if r < 0.22:
            return ("num", rng.choice(["1", "2", "3", "1", "2", "4", "1.5", "0", "5"]))
        if r < 0.30:
            return ("fn", "last", [])
        if r < 0.38:
            return ("cmp", rng.choice(["=", "<", "<=", ">", ">=", "!="]), ("fn", "position", []),
                    rng.choice([("num", rng.choice(["1", "2", "3"])), ("fn", "last", []),
                                ("ar", "-", ("fn", "last", []), ("num", "1"))]))
        if r < 0.46:
            return ("ar", rng.choice(["-", "+", "div", "mod"]), ("fn", "last", []), ("num", rng.choice(["1", "2"])))
        if r < 0.62:
            # value comparison on a child
            p = self.path(1, rel=True, under=under, simple=True)
            return ("cmp", rng.choice(["=", "=", "=", "!=", "<", ">", "<=", ">="]), p,
                    self.literal() if rng.random() < 0.6 else self.number())
        if r < 0.70:
            return self.path(1, rel=True, under=under, simple=True)
        if r < 0.75:
            return ("fn", "not", [self.path(1, rel=True, under=under, simple=True)])
        return self.expr(depth - 1, rng.choice(["b", "b", "n", "s"]))

    def path(self, depth, rel=None, under=None, simple=False):
        rng = self.rng
        rel = (rng.random() < 0.4) if rel is None else rel
        base = ("ctx",) if rel else ("root",)
        cur = under if rel else None
        nsteps = rng.choice([1, 1, 2, 2, 3, 4]) if not simple else rng.choice([1, 1, 2])
        if not rel and rng.random() < 0.03:
            return ("root",)
        for i in range(nsteps):
            ds = rng.random() < (0.12 if not simple else 0.03)
            ax = self.axis() if not simple or rng.random() < 0.2 else "child"
            r = rng.random()
            if r < 0.07:
                nt, ax = ("any",), rng.choice(["self", "parent"])
            else:
                nt = self.name_test(cur if ax == "child" and not ds else "?")
            ps = []
            if depth > 0 and nt != ("any",):
                while rng.random() < (0.3 if not simple else 0.1) and len(ps) < 3:
                    key = (nt[1] or "a", nt[2]) if nt[0] == "name" else None
                    ps.append(self.pred(depth, key))
            base = ("step", base, ds, ax, nt, ps)
            cur = (nt[1] or "a", nt[2]) if (nt[0] == "name" and ax == "child") else "?"
        return base

    def nodeset(self, depth):
        rng = self.rng
        r = rng.random()
        if depth <= 0 or r < 0.6:
            return self.path(depth)
        if r < 0.75:
            return ("union", self.nodeset(depth - 1), self.nodeset(depth - 1))
        if r < 0.88:
            ps = [self.pred(depth, None) for _ in range(rng.choice([1, 1, 2]))]
            return ("filter", self.nodeset(depth - 1), ps)
        if r < 0.94:
            inner = self.nodeset(depth - 1)
            if inner[0] in ("union", "filter") or rng.random() < 0.5:
                ax = self.axis()
                return ("step", inner if inner[0] != "union" else ("filter", inner, [self.pred(1)]),
                        rng.random() < 0.2, ax, self.name_test("?"), [])
            return inner
        return ("fn", "current", []) if rng.random() < 0.5 else \
            ("step", ("fn", "current", []), False, self.axis(), self.name_test("?"), [])

    def expr(self, depth, ty=None):
        rng = self.rng
        ty = ty or rng.choice(["N", "N", "N", "s", "n", "b"])
        if ty == "N":
            return self.nodeset(depth)
        if depth <= 0:
            if rng.random() < 0.4:
                # context-dependent leaves at every position: position(), last(), the context node, current()
                dot = ("step", ("ctx",), False, "self", ("any",), [])
                if ty == "n":
                    return rng.choice([("fn", "position", []), ("fn", "last", []), ("fn", "number", [dot]),
                                       ("fn", "count", [("step", ("ctx",), False, "child", ("star", None), [])]),
                                       ("ar", "-", ("fn", "last", []), ("fn", "position", []))])
                if ty == "s":
                    return rng.choice([("fn", "string", [dot]), ("fn", "name", []), ("fn", "local-name", [dot]),
                                       ("fn", "string", [("fn", "current", [])]), ("fn", "string", [("fn", "last", [])])])
                return rng.choice([("cmp", "=", ("fn", "position", []), ("fn", "last", [])),
                                   ("cmp", "<", ("fn", "position", []), ("fn", "last", [])),
                                   ("fn", "boolean", [("step", ("ctx",), False, "child", ("star", None), [])])])
            return {"s": self.literal, "n": self.number,
                    "b": lambda: ("fn", rng.choice(["true", "false"]), [])}[ty]()
        any_ = lambda: self.expr(depth - 1, rng.choice(["N", "N", "s", "n", "b"]))
        S = lambda: self.expr(depth - 1, rng.choice(["s", "s", "N", "n"]))
        Nm = lambda: self.expr(depth - 1, rng.choice(["n", "n", "N", "s"]))
        r = rng.random()
        if ty == "s":
            c = rng.randrange(12)
            if c == 0:
                return self.literal()
            if c == 1:
                return ("fn", "string", [any_()] if rng.random() < 0.85 else [])
            if c == 2:
                return ("fn", "concat", [S() for _ in range(rng.choice([2, 2, 3, 4]))])
            if c == 3:
                return ("fn", rng.choice(["substring-before", "substring-after"]), [S(), S()])
            if c == 4:
                return ("fn", "substring", [S(), Nm()] + ([Nm()] if rng.random() < 0.6 else []))
            if c == 5:
                return ("fn", "normalize-space", [S()] if rng.random() < 0.8 else [])
            if c == 6:
                return ("fn", "translate", [S(), self.literal(), self.literal()])
            if c == 7:
                return ("fn", rng.choice(["local-name", "name"]), [self.nodeset(depth - 1)] if rng.random() < 0.8 else [])
            if c == 8:
                return ("fn", "string", [Nm()])
            return ("fn", "string", [self.nodeset(depth - 1)])
        if ty == "n":
            c = rng.randrange(12)
            if c == 0:
                return self.number()
            if c == 1:
                return ("fn", "number", [any_()] if rng.random() < 0.85 else [])
            if c == 2:
                return ("fn", "count", [self.nodeset(depth - 1)])
            if c == 3:
                return ("fn", "sum", [self.nodeset(depth - 1)])
            if c == 4:
                return ("fn", rng.choice(["floor", "ceiling", "round"]), [Nm()])
            if c == 5:
                return ("fn", "string-length", [S()] if rng.random() < 0.85 else [])
            if c == 6:
                return ("neg", Nm())
            if c == 7:
                return ("fn", rng.choice(["position", "last"]), [])
            return ("ar", rng.choice(["+", "-", "*", "div", "mod"]), Nm(), Nm())
        # boolean
        c = rng.randrange(12)
        if c == 0:
            return ("fn", rng.choice(["true", "false"]), [])
        if c == 1:
            return ("fn", rng.choice(["boolean", "not"]), [any_()])
        if c == 2:
            return ("fn", rng.choice(["starts-with", "contains"]), [S(), S()])
        if c in (3, 4):
            return (rng.choice(["or", "and"]), self.expr(depth - 1, rng.choice(["b", "N", "s", "n"])),
                    self.expr(depth - 1, rng.choice(["b", "N", "s", "n"])))
        return ("cmp", rng.choice(["=", "=", "!=", "<", "<=", ">", ">="]), any_(), any_())


# hand-written expressions: XPath 1.0 examples and every listed deviation (kept so that each known finding stays visible)
FIXED_EXPRS = [
    "/a:c/a:l1", "/a:c/a:l1/a:k", "/a:c/a:l1[1]", "/a:c/a:l1[last()]", "/a:c/a:l1[position()=last()]", "/a:c/*", "//a:k",
    "/a:c/a:l1/a:v[1]", "/a:c/a:l1/a:in/*[1]", "/a:c/a:l1/a:in/*[last()]", "/a:c/*/*[1]", "//a:k[1]", "//a:x[1]",
    "/a:c/a:l1[1.5]", "/a:c/a:l1[0.5 + 0.5]", "/a:c/a:l1[number('x')]", "/a:c/a:l1[1 div 0]",
    "floor(-1.5)", "floor(-0.5)", "ceiling(-1.5)", "ceiling(-0.5)", "ceiling(1.5)", "round(-1.6)", "round(2.5)", "round(-2.5)",
    "round(-0.2)", "floor(number('x'))", "floor(1 div 0)", "ceiling(number('x'))", "ceiling(1 div 0)", "1 div round(0)",
    "string(1 div 4)", "string(-0.05)", "string(1.26)", "string(0.1)", "string(100)", "string(1 div 3)", "string(-1 div 3)",
    "string(12345678901234567890)", "string(1 div 0)", "string(-1 div 0)", "string(0 div 0)", "string(-0)", "1 div 4", "0.1 + 0.2",
    "0.1 + 0.2 = 0.3", "9007199254740993 = 9007199254740992", "1 div 3",
    "number('1e3')", "number(' 5 ')", "number('+5')", "number('0x10')", "number('inf')", "number('nan')", "number('5.')",
    "number('.5')", "number('-.5')", "number('- 5')", "number('')", "number('1 2')", "number('-0')", "number('\t5\n')",
    "number('5\t')", "number('INFINITY')", "number('0x.8p1')", "number('1e')", "number('1.5e-1')",
    "string-length('é')", "substring('aéb', 2, 1)", "substring('aéb', 3)", "translate('aéb', 'é', 'E')",
    "string-length(/a:c/a:s)", "string-length()",
    "string(/a:c)", "string(/a:c/a:np)", "string(/a:c/a:l1)", "string(/)", "string(/a:top)", "count(//text())", "count(//node())",
    "/a:c//node()", "/a:c//text()", "count(/a:c//text())", "/a:c/a:s/text()", "/a:c/a:s/node()", "//a:x/text()",
    "/a:c/a:l1/a:k/text()/..", "/a:c/a:l1/a:k/text()/self::node()", "/a:c/a:l1/a:k/text()/self::text()",
    "/a:c/a:l1/a:k/child::node()", "/a:c/a:l1/a:k/descendant-or-self::node()", "/a:c/a:s/text() = /a:c/a:s",
    "/a:c/a:n/following::*", "/a:c/a:l1/a:t/following::*[1]", "/a:c/a:l1/a:in/a:y/following::*[1]", "/a:c/a:l1/a:in/following::a:k",
    "/a:c/a:l1/a:in/a:x/preceding::*", "/a:c/a:l1/a:in/a:y/preceding::*", "/a:top/preceding::*", "/a:c/a:l1/a:in/preceding::a:k[1]",
    "/a:c/a:l1/preceding-sibling::*", "/a:c/a:l1/preceding-sibling::*[1]", "/a:c/a:l1/following-sibling::*[1]",
    "/a:c/a:l1/ancestor::*", "/a:c/a:l1/a:in/ancestor-or-self::*[1]", "/a:c/a:l1/a:in/ancestor-or-self::node()",
    "/a:c/a:l1/a:in/a:x/ancestor::*[2]", "/a:c/a:l1/a:in/a:x/ancestor::node()[last()]", "/a:c/ancestor::*", "/a:c/..", "/a:c/../*",
    "(/a:c/a:l1 | /a:c/a:l1/a:in)//a:x", "(/a:c/a:l1 | /a:c/a:l1/a:in)/*", "(/a:c | /a:c/b:bc)//b:s", "(/a:c/a:l1/.. | /a:c/a:l1)/*", "(1)/node()", "'a'/node()", "true()/node()[1]",
    "/a:c/namespace::*", "/a:c/attribute::*", "/a:c/@*",
    "/a:c/a:zz = false()", "/a:c/a:zz != true()", "/a:c/a:s = true()", "/a:c/a:s != false()", "/a:c/a:zz < true()",
    "true() = /a:c/a:zz", "not(/a:c/a:zz) = true()",
    "/a:c/a:n = '05'", "/a:c/a:n = '5'", "/a:c/a:n = '+5'", "/a:c/a:n = ' 5'", "/a:c/a:n = 5", "/a:c/a:d = '2.50'", "/a:c/a:d = '2.5'",
    "/a:c/a:d = 2.5", "/a:c/a:u = '012'", "/a:c/a:ln = '07'", "'07' = /a:c/a:ln", "/a:c/a:l1/a:v = '01'", "/a:c/a:l1/a:v != '01'",
    "/a:c/a:l1/a:v < '02'", "/a:c/a:s = /a:c/b:s", "/a:c/a:n = /a:c/a:ll", "/a:c/a:ll = /a:c/a:n",
    "/a:c/a:l1[a:k=5]", "/a:c/a:l1[a:k=5 or false()]", "/a:c/a:l1[a:k='5.0']", "/a:c/a:l1[a:k=true()]",
    "/a:c/a:l1[a:k=12]", "/a:c/a:l1[a:k=05]", "/a:c/a:l1[a:k=concat('a','')]", "/a:c/a:l1[a:k=1+1]", "/a:c/a:l1[a:k=2][1]",
    "/a:c/a:l2[a:k1='a'][a:k2=2]", "/a:c/a:l2[a:k2=2][a:k1='a']", "/a:c/a:l2[a:k1='a'][a:k2='02']", "/a:c/a:l2[a:k1='a'][a:k2='2.0']",
    "/a:c/a:l2[a:k1=5][a:k2=5]", "/a:c/a:l2[a:k1='5'][a:k2=5.0]", "/a:c/a:lu[a:k='05']", "/a:c/a:lu[a:k=5]", "/a:c/a:lu[a:k=5.0]",
    "/a:c/a:lu[a:k=5.5]", "/a:c/a:lu[a:k=true()]", "/a:c/a:lu[a:k='5'][1]", "/a:top[a:id=5]", "/a:top[a:id=true()]",
    "/a:c/a:n <= 5", "/a:c/a:n >= 5", "/a:c/a:n < 5", "/a:c/a:n > 5", "5 <= /a:c/a:n", "5 >= /a:c/a:n", "5 < /a:c/a:n", "/a:c/a:l1/a:v <= 1",
    "/a:c/a:l1/a:v >= 3", "/a:c/a:l1/a:v < 1", "/a:c/a:l1/a:v > 3", "3 <= /a:c/a:l1/a:v", "/a:c/a:lu/a:k <= 1", "/a:c/a:d <= 2.5", "/a:c/a:d < 2.5",
    "sum(/a:c/a:lu/a:k)", "sum(/a:c/a:l1/a:k)", "sum(//a:v)", "sum(//a:k2)", "sum(/a:c/a:ln | /a:c/a:u | /a:c/a:n | /a:c/a:lu/a:k)",
    "count(//a:k)", "/a:c/a:l1[a:k=a:w]", "/a:c/a:l1[a:k=a:in/a:x]", "/a:c/a:lu[a:k=a:v]", "/a:c/a:l2[a:k1=a:v][a:k2=1]", "/a:c/a:l2[a:k1='a'][a:k2=a:v]",
    "/a:c/a:ll[.=5]", "/a:c/a:ll[.='5']", "/a:c/a:ln[.='07']", "/a:c/a:ln[.=7]",
    "count(/a:c/a:l1 | /a:c/a:l1)", "/a:c/a:l1/a:k | /a:c/a:s | /a:c/a:l1", "/a:c/a:l1 | /", "count(/ | /a:c)",
    "name(/a:c/b:s)", "local-name(/a:c/b:s)", "name(/)", "name(/a:c/a:s/text())", "name(/a:c/*)", "local-name()", "name()",
    "(/a:c/a:l1/a:v)[2]", "(/a:c/a:l1/a:v)[last()]", "/a:c/a:l1/a:v[. > 1]", "sum(/a:c/a:l1/a:v)", "sum(/a:c/a:l1/a:k)", "sum(/a:c/a:zz)",
    "sum(/a:c/a:ln) div count(/a:c/a:ln)", "current()", "current()/..", "string()", "number()", "normalize-space()",
    "following-sibling::*[1]", "preceding-sibling::*", "preceding-sibling::*[1]", "self::a:s", "self::b:s", "parent::a:c",
    "..", "../..", "../../..", ".", "/", "../following-sibling::a:l1/a:k", "../preceding-sibling::a:l1[1]/a:k",
    "../preceding-sibling::*[position()<3]", "(../preceding-sibling::*)[1]", "ancestor::*[1]", "ancestor-or-self::*[last()]",
    "preceding::*[1]", "preceding::a:k[1]", "following::*[1]", "following::a:k[1]", "descendant::*[2]", "descendant-or-self::*[2]",
    "normalize-space('  a   b ')", "normalize-space('a\tb')", "normalize-space('a\tb c')", "normalize-space('a\t\tb')", "normalize-space('a\nb\rc')",
    "string-length(normalize-space('a\tb'))", "normalize-space(/a:c/a:l1[6]/a:k)", "translate('abcabc','ab','X')", "translate('bar','abc','ABC')", "translate('--aaa--','abc-','ABC')",
    "concat('a','b',1,true())", "substring-before('1999/04/01','/')", "substring-after('1999/04/01','/')",
    "substring-after('1999/04/01','19')", "substring-before('abc','')", "substring-after('abc','x')",
    "substring('12345', 1.5, 2.6)", "substring('12345', 0, 3)", "substring('12345', 0 div 0, 3)", "substring('12345', 1, 0 div 0)",
    "substring('12345', -42, 1 div 0)", "substring('12345', -1 div 0, 1 div 0)", "substring('12345', 2)", "substring('12345', 2, -1)",
    "substring('12345', -0.5, 2)", "substring('12345', 1.5)",
    "starts-with('abc','ab')", "starts-with('abc','')", "contains('abc','')", "contains('abc','bc')", "boolean('')", "boolean('0')",
    "boolean(0)", "boolean(0 div 0)", "boolean(/a:c/a:zz)", "not(0)", "5 mod 2", "-5 mod 2", "5 mod -2", "-5 mod -2", "5.5 mod 2",
    "1 div 0 mod 2", "5 mod 0", "5 mod (1 div 0)", "-4 mod 2", "- - 5", "2 * 3 + 4 div 2 - 1", "7 - 2 - 1", "8 div 2 div 2",
    "1 < 2 < 3", "3 > 2 > 1", "'a' < 'b'", "'2' > 1", "true() > false()", "true() = 'x'", "1 = true()", "'1' = 1", "'1.0' = 1",
    "'1.0' = '1'", "'' = false()", "0 = false()", "1 = 1 = 1", "2 = 2 = 2", "1 != 1", "0 div 0 = 0 div 0", "0 div 0 != 0 div 0",
    "-0 = 0", "1 div -0 = 1 div 0", "1 div 0 = 1 div 0", "1 div 0 > 5", "count(1)", "sum(1)", "sum('1')", "last()", "position()",
    "true(1)", "count()", "foo()", "not()", "concat('a')", "substring('a')", "translate('a','b')", "1 | 2", "(1)/a:c", "'a'/a:c",
    "local-name(1)", "name('x')", "/a:c/a:l1[a:in/a:x]", "/a:c/a:l1[a:in/a:x][2]", "/a:c/a:l1[2][a:in/a:x]", "/a:c/a:l1[not(a:in/a:x)]",
    "/a:c/a:l1[a:w='w0']", "/a:c/a:l1/a:w[.='w0']", "/a:c[a:dn=7]", "boolean(/a:c/a:np/a:z)", "/a:c/a:l1[a:v=../a:n]",
    "/a:c/a:l1[a:k=current()]", "/a:c/a:l1[a:k=../a:s]", "/a:c/a:l1[count(a:t) > 1]", "/a:c/a:l1[a:t[2]]", "/a:c/a:l1[a:t][last()]/a:t[last()]",
    "/a:c/a:l1[position() mod 2 = 1]", "/a:c/a:l1[position() > 1][position() < 3]", "/a:c/a:l1[last() - 1]", "/a:c/a:l1[a:v][1]",
    "/a:c/a:l1/a:t[1]", "/a:c/a:l1/a:t[last()]", "/a:c/a:l1/a:t[2]/preceding-sibling::a:t", "/a:c/a:l1/a:t[1]/following-sibling::a:t[1]",
    "//a:t[1]", "//a:t[last()]", "(//a:t)[1]", "(//a:t)[last()]", "//a:in/a:y[1]", "//a:l1[1]/a:k", "//*[a:k][2]", "//a:z", "//b:s", "//b:*",
    "//a:*[. = 5]", "//*[. = '5']", "//*[starts-with(., '5')]", "//a:l1/*[2]", "/descendant::a:l1[2]", "/descendant::a:t[2]",
    "/a:c/descendant::*[3]", "/a:c/descendant-or-self::*[1]", "/descendant-or-self::node()[1]", "/a:c/a:l1/descendant::*[1]",
    "/a:c/a:l1/a:in/parent::*", "/a:c/a:l1/a:in/parent::a:l1", "/a:c/a:l1/a:in/parent::*[1]", "/a:c/a:l1/a:in/..", "//a:y/..",
    "/a:c/a:l1[not(position() != last())]", "/a:c/a:l1[boolean(position() = last())]", "/a:c/a:l1[string(last()) = '7']",
    "/a:c/a:l1[number(last()) - 1 = position()]", "/a:c/a:l1[a:v = floor(last() div 2)]", "/a:c/a:l1[not(position() < last())]/a:k",
    "sum(/a:c/a:l1[not(position() < last() - 3)]/a:v)", "/a:c/a:lu[concat(position(), '/', last()) = '2/4']", "/a:c/a:lu[string-length(string(last())) = position()]",
    "/a:c/a:lu[contains(concat('|', last(), '|'), '|4|')]", "/a:c/a:lu[translate(string(last()), '4', 'x') = 'x'][2]", "/a:c/a:lu[substring('abcdef', position(), 1) = 'c']",
    "/a:c/a:lu[substring('abcdef', last(), 1) = 'd']", "/a:c/a:lu[round(last() div 3) = position()]", "/a:c/a:lu[ceiling(last() div 3) = position()]",
    "/a:c/a:lu[count(../a:lu[position() <= last() - 1]) = 3]", "/a:c/a:lu[count(../a:lu[not(position() = last())]) = position()]",
    "/a:c/a:l1[count(a:t[not(position() != last())]) = 1]", "/a:c/a:l1[a:t[boolean(last() = 2)]]", "/a:c/a:l1[string(a:t[number(last())]) = 't2']",
    "(/a:c/a:l1)[not(position() != last())]", "(/a:c/a:l1/a:k)[string(last()) = string(position())]", "(/a:c/a:l1 | /a:c/a:lu)[boolean(position() = last() - 1)]",
    "/a:c/a:l1[last()]/preceding-sibling::*[not(position() != last())]", "/a:c/a:l1[last()]/preceding-sibling::a:l1[string(last()) = '6'][1]",
    "/a:c/a:lu[last()]/preceding-sibling::a:lu[number(string(position())) = 2]", "/a:c/b:bc/b:s/ancestor-or-self::*[not(position() != last())]",
    "/a:c/a:l1[starts-with(string(last()), '7') and not(position() mod 2)]", "/a:c/a:l1[normalize-space(concat(' ', last(), ' ')) = '7'][last()]",
    "/a:c/a:l1[boolean(last() - position())][not(last() - position())]", "/a:c/a:l1[not(not(position() = last() - 1))]/a:k",
    "/a:c/a:l1[string(position() = last()) = 'true']", "/a:c/a:l1[number(position() = last()) = 1]", "/a:c/a:l1[(position() = last()) = true()]",
    "/a:c/a:l1[- - last() = position() + 0]", "/a:c/a:l1[last() * 1 = position() div 1]", "/a:c/a:l1[string(current()/a:k) = a:k or string(last()) = '0']",
    "/a:c/a:l1[name(self::*[not(position() != last())]) = 'a:l1']", "/a:c/a:l1[count(self::*[string(last()) = '1']) = 1][string(last()) = '7']",
    "/a:c/a:ll[string(.) = string(../a:ll[number(last())])]", "/a:c/a:ll[not(string-length(.) != string-length(../a:ll[position() = last()]))]",
    # witnesses of the deviations repaired in /repo 61e2388 .. f6e5fb8 (known_findings.d/xpath.json, status fixed)
    "/a:c/a:lu[a:k=last()]", "/a:c/a:lu[a:k=string(last())]", "/a:c/a:lu[a:k=string(count(preceding-sibling::a:lu))]",
    "/a:c/a:lu[a:k=count(preceding-sibling::a:lu)]", "count(//node()[self::a:k])", "preceding::*", "following::*", "preceding::a:k", "following::a:k",
    "(/a:c | /a:c/a:l1)/*", "(/a:c | /a:c/a:l1)/a:k", "(/ | /a:c)/*", "/a:c/attribute::node()", "/a:c/@node()", "//@node()",
    "false() and //parent::a:x and true()", "true() or //parent::a:x", "true() or //parent::a:x or false()", "true() or count(//ancestor::a:c) or false()",
    "false() and //preceding-sibling::* and true()", "/a:c[true() or //self::a:x or false()]", "count(/a:c[false() and //self::a:x and true()])",
    "/a:c/*/text()[true()]", "/a:c/*/text()[1]", "string(/a:c/*/text())", "/a:c/*/text() | /a:c/a:s", "/a:c/*/text()/@*", "//.//@a:ds", "//.//@*", "//@*[1]",
    "count(//@*)", "count(//@*/@*)", "@*[1]/..", "//*/@*[1]", "/b:bt | //.//a:z | ./descendant::a:c/a:y", "/descendant-or-self::*//a:np/a:z[true()]",
    "count(//*/*)", "count(//*//*)", "/descendant::*//a:k", "/a:c/a:l1[a:k=../a:ll]", "false() >= /a:c/a:ln", "true() <= /a:c/a:l1/a:v",
    "substring('12345', 1, 10000000000)", "substring('12345', - 10000000000, 20000000000)", "substring(0.1, /a:zz)", "ceiling(100000000000000000000)",
    "/a:c/a:l1[a:k=/a:c/a:zz]", "/a:c/a:l1[a:k=/a:zz]", "/a:c/a:lu[a:k=/a:c/b:bc/b:s]", "/a:c/a:lu[a:k=string(/a:c/b:bc/b:s)]", "/a:c/a:lu[a:k=/a:c/a:n]",
    "/a:c/a:l2[a:k1='5'][a:k2=/a:c/b:bc/b:s]", "/a:c/a:l2[a:k1=/a:c/a:n][a:k2=/a:c/a:n]", "/a:c/a:l1[a:k='']", "/a:c/a:l1[a:k=a:ca]", "/a:c/a:l1[a:k=a:cb]", "/a:c/a:l1[a:k=a:ca | a:cb]",
    "/a:top/a:tc/a:e[a:k=../a:sel]", "/a:top/a:tc/a:e[a:k=../../a:id]", "//a:e[a:k=../a:sel]", "/a:top/a:tc/a:e[a:k=/a:tl]", "/a:top/a:tc/a:e[a:k='x']",
    "/a:top/a:g[a:k=../a:gsel]/a:v", "/a:top/a:g[a:k = ../a:gsel]", "sum(/a:top/a:g[a:k=../a:gsel]/a:v)", "count(/a:top/a:g[a:k=../a:gsel][a:v mod 2 = 1])",
    "/a:top[a:id != '5']/a:g[a:k=../a:gsel]/a:v", "/a:top[2]/a:g[a:k=../a:gsel]/a:v", "/a:top/a:g[../a:gsel = a:k]/a:v", "/a:top/a:g[a:k=../a:id]",
    "/a:top/a:g[a:k=../a:gsel][a:v > 0]/a:v", "//a:g[a:k=../a:gsel]", "/a:top/a:g[a:k=parent::a:top/a:gsel]/a:v", "/a:top/a:g[a:k=parent::*/a:gsel]",
    "/a:c/a:l1[a:k=current()/../a:s]", "/a:c/a:l1[a:k=/a:c/a:s]", "/a:c/a:l1[a:k=/a:c/a:ll]", "/a:c/a:l1[a:k=/a:c/a:ll[3]]", "/a:c/a:l1[a:k=string(/a:c/a:zz)]",
    "/a:c/s", "/a:c/bx", "/a:c/descendant::s", "/tl", "/c/s", "/a:c/l1/k", "/a:c/a:l1/v", "//s", "//v", "/a:c/b:bc/s", "/c/l1[k='a']",
]


NUM_PATHS = ["//a:v", "/a:c/a:ln", "/a:c/a:lu/a:k", "//a:val", "//a:k2", "/a:c/a:l1/a:v", "//b:m", "/a:c/a:lu/a:v", "//a:y",
             "/a:c/a:l1/a:in/a:y", "/a:c/*", "//a:k", "/a:top/a:val"]
KEY_DEP = ["/a:c/a:l1[a:k=a:w]", "/a:c/a:l1[a:k=a:in/a:x]", "/a:c/a:l1[a:k=a:t]", "/a:c/a:l1[a:k=b:v]", "/a:c/a:lu[a:k=a:v]",
           "/a:c/a:l2[a:k1=a:v][a:k2=%s]", "/a:c/a:l2[a:k1=%s][a:k2=a:v]", "/a:top[a:id=a:val]", "/a:top[a:id=a:tc/a:z]",
           "/a:c/a:l1[a:k=.//a:x]", "/a:c/a:l1[a:k=descendant::a:x]", "/a:c/a:l1[a:k=string(a:w)]", "/a:c/a:l1[a:k=position()]",
           "/a:c/a:lu[a:k=last()]", "/a:c/a:lu[a:k=count(../a:lu)]", "/a:c/a:l1[a:k=../a:s]", "/a:c/a:l1[a:k=/a:tl]",
           "/a:c/a:l1[a:k=../a:ll]", "/a:c/a:l1[a:k=../a:ll[1]]", "/a:c/a:lu[a:k=../a:u]", "/a:c/a:l1[a:k=current()]",
           # the value is an empty node-set (never equal, also not to an empty key), a leaf under a choice of the list,
           # a path relative to a parent that differs per instance, paths from current()
           "/a:c/a:l1[a:k=/a:c/a:zz]", "/a:c/a:l1[a:k=/a:zz]", "/a:c/a:l1[a:k=../a:zz]", "/a:top[a:id=/a:c/a:zz]", "/a:c/a:l1[a:k=/a:c/a:s]",
           "/a:c/a:l1[a:k=a:ca]", "/a:c/a:l1[a:k=a:cb]", "/a:c/a:l1[a:k=a:ca or a:k=a:cb]", "/a:c/a:l1[a:k=a:ca | a:cb]",
           "/a:top/a:tc/a:e[a:k=../a:sel]", "/a:top/a:tc/a:e[a:k=../../a:id]", "/a:top/a:tc/a:e[a:k=../a:z]", "//a:e[a:k=../a:sel]",
           "/a:top/a:g[a:k=../a:gsel]/a:v", "/a:top/a:g[a:k=../a:gsel]", "/a:top/a:g[a:k=../a:id]", "sum(/a:top/a:g[a:k=../a:gsel]/a:v)", "/a:top/a:g[a:k=parent::*/a:gsel]",
           "/a:top/a:tc/a:e[a:k=/a:tl]", "/a:top/a:tc/a:e[a:k=current()]", "/a:c/a:l1[a:k=current()/../a:s]", "/a:c/a:l1[a:k=current()/a:k]",
           "/a:top[a:id=current()/../a:id]", "/a:c/a:l1[a:k=string(/a:c/a:zz)]", "/a:c/a:l1[a:k=string(../a:s)]", "/a:c/a:l1[a:k=/a:c/a:ll]",
           "/a:c/a:l1[a:k=/a:c/a:ll[1]]", "/a:c/a:l2[a:k1=/a:c/a:zz][a:k2=1]", "/a:c/a:l2[a:k1='a'][a:k2=/a:c/a:zz]"]


def targeted(rng, nodes, g):
    """families aimed at boundaries: aggregates over numeric node-sets, relational operators against values that
    occur in the tree, key predicates whose value depends on the list instance (must NOT be answered by one lookup)"""
    k = rng.randrange(5)
    if k == 4:
        # operands of or/and that are only parsed (lazy evaluation) must not influence the result
        skipped = [g.nodeset(rng.choice([1, 2])) for _ in range(rng.choice([1, 1, 2]))]
        skipped = [x if rng.random() < 0.6 else ("fn", rng.choice(["count", "boolean", "string", "not"]), [x]) for x in skipped]
        tail = rng.choice([("fn", "true", []), ("fn", "false", []), g.expr(1, "b"), None])
        op, first = rng.choice([("or", ("fn", "true", [])), ("and", ("fn", "false", [])), ("or", ("num", "1")),
                                ("and", ("lit", b""))])
        e = first
        for x in skipped:
            e = (op, e, x)
        if tail is not None:
            e = (op, e, tail)
        return e if rng.random() < 0.7 else ("step", ("step", ("root",), False, "child", ("name", "a", "c"), [e]), False, "child", ("star", None), [])
    if k == 0:
        p = parse(rng.choice(NUM_PATHS))
        return ("fn", rng.choice(["sum", "sum", "count"]), [p])
    if k == 1:
        p = parse(rng.choice(NUM_PATHS))
        c = ("cmp", rng.choice(["<=", ">=", "<", ">", "=", "!="]), p, g.number())
        return c if rng.random() < 0.6 else ("cmp", c[1], c[3], c[2])
    if k == 2:
        s = rng.choice(KEY_DEP)
        if "%s" in s:
            s = s % rng.choice(["1", "2", "'a'", "5"])
        return parse(s)
    p = parse(rng.choice(NUM_PATHS))
    return ("step", p[1], p[2], p[3], p[4], [("cmp", rng.choice(["<=", ">=", "<", ">"]), ("step", ("ctx",), False, "self", ("any",), []),
                                             g.number())])


MULTI_PATHS = ["/a:c/a:l1", "/a:c/a:lu", "/a:c/a:l2", "/a:c/a:ll", "/a:c/a:ln", "/a:c/*", "/a:top", "/a:tll", "/*", "/a:c/a:np/../*",
               "/a:c/a:l1[last()]/preceding-sibling::*", "/a:c/a:l1[1]/following-sibling::*", "/a:c/a:lu[last()]/preceding-sibling::a:lu",
               "/a:c/a:l1[1]/a:t", "/a:c/a:l1[1]/*", "/a:c/b:bc/b:m", "/a:c/b:bc/b:s/ancestor-or-self::*", "/a:c/a:l1[1]/a:in/a:x/ancestor::*",
               "/a:c/a:l1[last()]/a:k/preceding::a:k", "/a:c/a:l1[1]/a:k/following::a:k", "/a:c/descendant::a:k", "/descendant::a:l1",
               "/a:c/a:l1[2]/descendant-or-self::*"]


def positional(rng, g):
    """position() / last() / the context node at EVERY expression position: inside arguments of every function,
    inside both operands of every operator, in nested predicates, after filter expressions, on forward and reverse
    axes, on steps from ONE context node that select several nodes (so that position and size differ from 1 and the
    positions are not subject to the listed per-step deviation)"""
    num = lambda z: ("num", str(z))
    fn = lambda n, *a: ("fn", n, list(a))
    pos, last = fn("position"), fn("last")
    dot = ("step", ("ctx",), False, "self", ("any",), [])

    def core_num():
        k = rng.randrange(10)
        if k == 0:
            return pos
        if k == 1:
            return last
        if k == 2:
            return ("ar", "-", last, pos)
        if k == 3:
            return ("ar", rng.choice(["+", "-"]), rng.choice([pos, last]), num(rng.choice([1, 2])))
        if k == 4:
            return ("ar", rng.choice(["div", "mod", "*"]), rng.choice([pos, last]), num(rng.choice([2, 3])))
        if k == 5:
            return fn("count", ("step", ("ctx",), False, rng.choice(["preceding-sibling", "following-sibling"]), ("star", None), []))
        if k == 6:
            return fn("string-length", fn("string", dot))
        if k == 7:
            return fn("count", ("step", ("step", ("ctx",), False, "parent", ("any",), []), False, "child", ("star", None),
                                [("cmp", rng.choice(["<=", "<", "!="]), pos, rng.choice([last, ("ar", "-", last, num(1))]))]))
        if k == 8:
            return fn("number", dot)
        return ("ar", "+", pos, last)

    def wrap_num(x, d):
        if d <= 0 or rng.random() < 0.3:
            return x
        k = rng.randrange(12)
        y = wrap_num(x, d - 1)
        if k == 0:
            return fn("number", fn("string", y))
        if k == 1:
            return fn(rng.choice(["floor", "ceiling", "round"]), y)
        if k == 2:
            return ("ar", rng.choice(["+", "-"]), y, num(0))
        if k == 3:
            return ("neg", ("neg", y))
        if k == 4:
            return fn("number", fn("concat", fn("string", y), ("lit", b"")))
        if k == 5:
            return fn("string-length", fn("substring", ("lit", b"aaaaaaaaaaaaaaaaaaaa"), num(1), y))
        if k == 6:
            return fn("number", fn("normalize-space", fn("concat", ("lit", b" "), y, ("lit", b" "))))
        if k == 7:
            return fn("number", fn("translate", fn("string", y), ("lit", b"x"), ("lit", b"y")))
        if k == 8:
            return fn("number", fn("substring-before", fn("concat", y, ("lit", b"|")), ("lit", b"|")))
        if k == 9:
            return fn("number", fn("substring-after", fn("concat", ("lit", b"|"), y), ("lit", b"|")))
        if k == 10:
            return ("ar", "*", num(1), y)
        return fn("sum", ("filter", ("step", ("ctx",), False, "self", ("any",), []), [("cmp", "=", y, y)])) if False else y

    def core_bool(d):
        a, b = wrap_num(core_num(), d), wrap_num(core_num(), d)
        k = rng.randrange(6)
        if k == 0:
            return ("cmp", rng.choice(["=", "!=", "<", "<=", ">", ">="]), a, b)
        if k == 1:
            return ("cmp", "=", fn("string", a), ("lit", str(rng.randrange(0, 8)).encode()))
        if k == 2:
            return ("cmp", rng.choice(["=", "<", ">="]), a, num(rng.randrange(0, 8)))
        if k == 3:
            return fn(rng.choice(["contains", "starts-with"]), fn("concat", ("lit", b"|"), a, ("lit", b"|")),
                      ("lit", ("|%d" % rng.randrange(0, 8)).encode()))
        if k == 4:
            return ("cmp", "=", fn("substring", ("lit", b"abcdefgh"), a, num(1)), ("lit", bytes([97 + rng.randrange(0, 8)])))
        return ("cmp", rng.choice(["=", "!="]), a, b)

    def wrap_bool(x, d):
        if d <= 0 or rng.random() < 0.3:
            return x
        y = wrap_bool(x, d - 1)
        k = rng.randrange(11)
        if k == 0:
            return fn("not", fn("not", y))
        if k == 1:
            return fn("boolean", y)
        if k == 2:
            return fn("not", y)
        if k == 3:
            return ("and", y, fn("true"))
        if k == 4:
            return ("or", fn("false"), y)
        if k == 5:
            return ("cmp", "=", y, fn("true"))
        if k == 6:
            return ("cmp", "=", fn("string", y), ("lit", b"true"))
        if k == 7:
            return ("cmp", "=", fn("number", y), num(1))
        if k == 8:
            return ("and", fn("not", fn("not", y)), core_bool(d - 1))
        if k == 9:
            return ("or", y, ("and", core_bool(d - 1), fn("false")))
        return fn("boolean", fn("string-length", fn("substring", fn("string", y), num(1), num(4)))) if False else \
            ("cmp", "!=", fn("string", y), ("lit", b"false"))

    def a_pred():
        d = rng.choice([1, 2, 2, 3])
        if rng.random() < 0.2:
            return wrap_num(core_num(), d)            # numeric predicate
        return wrap_bool(core_bool(d), d)

    base = parse(rng.choice(MULTI_PATHS))
    preds = [a_pred() for _ in range(rng.choice([1, 1, 2]))]
    k = rng.randrange(6)
    if k == 0:                                         # filter expression
        e = ("filter", base, preds)
    elif k == 1 and base[0] == "step":                 # nested: predicate on a child step inside a predicate
        inner = ("step", ("ctx",), False, "child", ("star", None), preds)
        e = ("step", base[1], base[2], base[3], base[4], list(base[5]) +
             [rng.choice([inner, ("cmp", ">", ("fn", "count", [inner]), ("num", "0")), ("fn", "not", [inner])])])
    else:
        e = ("step", base[1], base[2], base[3], base[4], list(base[5]) + preds) if base[0] == "step" else ("filter", base, preds)
    r = rng.random()
    if r < 0.25:
        return ("fn", "count", [e])
    if r < 0.35:
        return ("fn", "string", [e])
    if r < 0.45 and e[0] == "step":
        return ("step", e, False, "child", ("star", None), [])
    return e


def nice_ctx(nodes, rng, k):
    """context nodes: root and a sample of nodes of every kind"""
    out = [-1]
    if nodes:
        out += [n.idx for n in rng.sample(nodes, min(k, len(nodes)))]
    return out


def get_dumps(pairs):
    """ask the driver of the tree under test for the dump of every (yang, xml-hex)"""
    exe = vlib.build_driver("t_xpath", "rel")
    lines = ["xpd\t%s\t%s" % (y, x) for (y, x) in pairs]
    outs, _ = vlib.run_sharded(exe, lines, timeout=300)
    return outs


def case_line(yang, xml, dump, ctx, e, text=None, off="-"):
    text = render(e, abbrev=True) if text is None else text
    return "xp\t%s\t%s\t%s\t%d\t%s\t%s\t%s" % (yang, xml, dump, ctx, hexs(text), sx(e), off)


_FIXED_SWITCHES = None


def fixed_switches():
    """as-coded switches whose listed deviation the tree under test no longer shows: the replay of the known finding
    xpath-<switch> answers what the XPath 1.0 reference semantics expects (recorded in known_findings.d/xpath.json).
    Those switches are put back to the recommendation in the as-coded model, so that a repaired deviation needs no
    model change and the remaining ones are still attributed exactly. A changed answer that is NOT the expected one
    keeps the switch on (and shows up as a violation on the cases that exercise it)."""
    global _FIXED_SWITCHES
    if _FIXED_SWITCHES is not None:
        return _FIXED_SWITCHES
    import json
    path = os.path.join(vlib.VERIF, "known_findings.d", "xpath.json")
    ents = [k for k in json.load(open(path)) if k.get("status") == "known" and "replay" in k and
            "expected (XPath 1.0 reference semantics)" in k.get("witness", {})]
    exe = vlib.build_driver("t_xpath", "rel")
    outs, _ = vlib.run_cases(exe, [k["replay"]["line"] for k in ents], timeout=120)
    off = []
    for k, o in zip(ents, outs):
        o = o[:-5] if o.endswith(" A:ok") else o
        if o == k["witness"]["expected (XPath 1.0 reference semantics)"]:
            off.append(k["tag"][len("xpath-"):])
    _FIXED_SWITCHES = ",".join(off) or "-"
    return _FIXED_SWITCHES


FIXED_XML = ('<c xmlns="urn:a"><s>hello</s><n>5</n><d>2.50</d><u>12</u><ll>x</ll><ll>y</ll><ll>5.0</ll><ll>5</ll><ln>7</ln><ln>3</ln>'
             '<l1><k>5.0</k><v>1</v><in><x>q</x></in><t>t1</t><t>t2</t></l1><l1><k>b</k><v>2</v></l1>'
             '<l1><k>c</k><v>3</v><w>c</w><in><x>r</x><y>9</y></in><t>u</t></l1><l1><k>1e3</k><in><x>1e3</x></in></l1><l1><k>2</k><v xmlns="urn:b">bv</v></l1>'
             '<l1><k>12</k><in/><ca>12</ca></l1><l1><k>true</k><cb>b</cb></l1><l1><k></k><ca>x</ca></l1><l1><k>q</k><cb>q</cb></l1>'
             '<l2><k1>a</k1><k2>1</k2><v>v1</v></l2><l2><k1>a</k1><k2>2</k2><v>v2</v></l2><l2><k1>5</k1><k2>5</k2></l2>'
             '<lu><k>5</k><v>2.5</v></lu><lu><k>1</k></lu><lu><k>12</k><v>12.0</v></lu><lu><k>3</k><v>0.5</v></lu>'
             '<s xmlns="urn:b">bs</s><bx xmlns="urn:b">BX</bx><bc xmlns="urn:b"><s>+5</s><m>4</m></bc>'
             '</c><tl xmlns="urn:a">atl</tl><top xmlns="urn:a"><id>5</id><val>10</val><tc><sel>x</sel><e><k>x</k></e><e><k>y</k><v>1</v></e></tc><gsel>a</gsel><g><k>a</k><v>1</v></g><g><k>b</k><v>2</v></g><g><k>c</k><v>3</v></g></top>'
             '<top xmlns="urn:a"><id>true</id><val>-3</val><tc><z>Z</z><sel>y</sel><e><k>x</k></e><e><k>y</k></e><e><k></k></e></tc>'
             '<gsel>b</gsel><g><k>a</k><v>4</v></g><g><k>b</k><v>5</v></g><g><k>c</k><v>6</v></g></top>'
             '<top xmlns="urn:a"><id>b</id><gsel>c</gsel><g><k>a</k><v>7</v></g><g><k>b</k><v>8</v></g><g><k>c</k><v>9</v></g></top>'
             '%s')
FIXED_TAILS = ['<bt xmlns="urn:b"><q>Q</q></bt>', '<tl xmlns="urn:b">btl</tl>']


def unprefixed(e):
    """does the expression contain an unprefixed name test?"""
    if not isinstance(e, (tuple, list)):
        return False
    if len(e) and e[0] == "name" and len(e) == 3 and e[1] is None:
        return True
    return any(unprefixed(x) for x in e if isinstance(x, (tuple, list)))


class XPathEval(Comp):
    """lyxp_eval()/lyd_eval_xpath4() vs XPathSem.eval_top (reference semantics; as-coded switches explain deviations)"""
    name = "xpeval"
    driver = "t_xpath"
    slice = "xpath"
    sanitize = False       # the sanitizer builds are judged by XPathSan (stderr is needed to classify)

    def __init__(self):
        self.reported = set()

    def gen(self, rng, tier, scale=1.0):
        L = []
        # 1. fixed corpus on two fixed trees (last top-level node with / without children) x a few context nodes
        docs = [FIXED_XML % t for t in FIXED_TAILS]
        ninst = self.n(tier, 36, 1200, scale)
        insts = [Inst(rng) for _ in range(ninst)]
        docs += [i.to_xml() for i in insts]
        pairs = [(YANGS, hexs(d)) for d in docs]
        dumps = get_dumps(pairs)
        fixed = [(s, parse(s)) for s in FIXED_EXPRS]
        off = fixed_switches()
        for di in range(2):
            nodes = parse_dump(dumps[di])
            ctxs = [-1] + [n.idx for n in nodes if (n.name, n.depth) in (("s", 1), ("k", 2), ("in", 2), ("y", 3), ("l1", 1), ("val", 1))][:9]
            for s, e in fixed:
                rel = not s.startswith("/") and not s.startswith("(/")
                use = ctxs if (rel and di == 0) else ctxs[:2] if di == 0 else ctxs[:1] + ctxs[3:4]
                for c in use:
                    L.append(case_line(YANGS, pairs[di][1], dumps[di], c, e, s, off))
        # 2. generated expressions on generated trees
        per = self.n(tier, 70, 260, scale)
        for k, inst in enumerate(insts):
            y, x = pairs[2 + k]
            d = dumps[2 + k]
            if d.startswith("LOADERR") or d.startswith("CRASH"):
                L.append("xp\t%s\t%s\t?\t-1\t%s\t%s\t-" % (y, x, hexs("/"), "( root )"))
                continue
            nodes = parse_dump(d)
            ctxs = nice_ctx(nodes, rng, 6)
            g = ExprGen(rng, nodes)
            gu = ExprGen(rng, nodes, prefixed=False)
            for j in range(per):
                depth = rng.choice([1, 2, 2, 3, 3, 4])
                if j % 17 == 16:
                    e = gu.path(0)                       # unprefixed names: paths without predicates only
                elif j % 17 == 15:
                    e = targeted(rng, nodes, g)
                elif j % 17 in (12, 13, 14):
                    e = positional(rng, g)
                else:
                    e = g.expr(depth)
                L.append(case_line(y, x, d, rng.choice(ctxs), e, render(e, abbrev=rng.random() < 0.7), off))
            # the inputs of the fast/generic pair oracle through the model: what the library answers by a key lookup
            # against the reference evaluation and, where the values allow the lookup, the Coq lookup (XPathLookup)
            if k % 3 == 0:
                for kind, fast, slow in XPathFastPair().pairs(rng, nodes)[:14]:
                    for text in (fast, slow):
                        try:
                            L.append(case_line(y, x, d, -1, parse(text), text, off))
                        except Exception:
                            pass
        return L

    def norm(self, line, out):
        if "|" in out:
            out = out.split("|")[0]
        else:
            if out.endswith(" A:ok"):
                out = out[:-5]
        if out.startswith("CRASH(") or out in ("ASSERT", "SEGV"):
            return "CRASH"
        return out

    def witness(self, line, model_out, impl_out):
        f = line.split("\t")
        expr = unhex(f[5]).decode("utf-8", "replace")
        parts = model_out.split("|")
        if len(parts) < 3:
            return (None, "model answered %r" % model_out)
        spec, coded, need = parts[0], parts[1], parts[2]
        got = self.norm(line, impl_out)
        detail = "XPath %r, context node %s: libyang answers %s, XPath 1.0 gives %s" % (expr, f[4], impl_out[:200], spec[:200])
        if impl_out.endswith("A:DIFF"):
            return (None, detail + " (lyd_eval_xpath4 reports another value than lyxp_eval)")
        if got == self.norm(line, coded + "|"):
            tags = ["xpath-" + n for n in need.split(",") if n]
            if not tags:
                return (None, detail)
            # report a tag that was not seen yet in this run first, so that every listed deviation shows up
            for tg in tags:
                if tg not in self.reported:
                    self.reported.add(tg)
                    return (tg, detail + " [as coded: " + need + "]")
            return (tags[0], detail + " [as coded: " + need + "]")
        # (the hash lookup of key predicates is not part of the model: it has to agree with generic evaluation)
        return (None, detail + " [as-coded model: %s]" % coded[:200])


class XPathS2N(Comp):
    """cast_string_to_number() vs XPathConv.spec_s2n at 64 bits (the recommendation; XPathConv.impl_s2n, the code since
    /repo b906576, is proved equal to it); any other answer is a violation"""
    name = "xps2n"
    driver = "t_xpath"
    slice = "xpath"
    what = "number()"

    def norm(self, line, out):
        return out.split("|")[0]

    def witness(self, line, model_out, impl_out):
        parts = model_out.split("|")
        text = unhex(line.split("\t")[2]).decode("utf-8", "replace")
        detail = "%s of %r: libyang answers %s, XPath 1.0 (at the precision of the code) gives %s" % (self.what, text, impl_out, parts[0])
        return (None, detail + " [as-coded model: %s]" % parts[-1])

    TOK = ["", " ", "\t", "\n", "\r", "\x0b", "\x0c", "-", "+", "0", "1", "5", "9", "12", ".", "e", "E", "e+", "e-", "x", "0x", "0X", "p",
           "inf", "INF", "Infinity", "infinit", "nan", "NaN", "nan(1)", "a", "f", "00", "007", "1e3", "1.5", ".5", "5.", "--", "e10", "p2",
           "0x1.8", "0x.8", "1e-2", "é"]

    def gen(self, rng, tier, scale=1.0):
        L = []
        fixed = ["5", " 5 ", "5 ", " 5", "+5", "-5", "- 5", "1e3", "1E3", "1e+3", "1e-3", "1e", "1e+", "0x10", "0X1F", "0x", "0x.8", "0x1p4",
                 "0x1p-2", "0x1.8p1", "inf", "-inf", "+inf", "INF", "Infinity", "-infinity", "infinit", "infinityx", "nan", "NAN", "nan(x)",
                 "5.", ".5", "-.5", ".", "-", "", " ", "1.5", "-1.5", "0.1", "0.25", "1 2", "1,5", "12345678901234567890", "0.000001",
                 "1e10", "1e-10", "00012", "-0", "+0", "0e0", "\t5", "\n5", "\x0b5", "\x0c5", "\r5", "5\t", "1e5000", "1e-5000", "0e9999",
                 "123456789.125", "3.14159", "0.05", "-0.05"]
        for s in fixed:
            L.append("xpk\ts2n\t" + hexs(s))
        for _ in range(self.n(tier, 1500, 60000, scale)):
            s = "".join(rng.choice(self.TOK) for _ in range(rng.randrange(1, 5)))
            if "\x00" not in s:
                L.append("xpk\ts2n\t" + hexs(s))
        return L


class XPathN2S(Comp):
    """lyxp_set_cast(number -> string) vs XPathConv.spec_n2s at 64 bits (value given as decimal text, read by strtold;
    XPathConv.impl_n2s, the code since /repo 54bf5db, is proved equal to it on long doubles); any other answer is a
    violation"""
    name = "xpn2s"
    driver = "t_xpath"
    slice = "xpath"
    what = "string()"

    def norm(self, line, out):
        return out.split("|")[0]

    def witness(self, line, model_out, impl_out):
        parts = model_out.split("|")
        text = unhex(line.split("\t")[2]).decode("utf-8", "replace")
        detail = "%s of %r: libyang answers %s, XPath 1.0 (at the precision of the code) gives %s" % (self.what, text, impl_out, parts[0])
        return (None, detail + " [as-coded model: %s]" % parts[-1])

    def gen(self, rng, tier, scale=1.0):
        L = []
        fixed = ["0", "-0", "1", "-1", "0.25", "0.2", "0.35", "0.45", "0.05", "-0.05", "-0.04", "0.04", "1.26", "0.95", "0.949", "9.95",
                 "99.95", "1e3", "123456789", "9223372036854775807", "9223372036854775808", "-9223372036854775808",
                 "-9223372036854775809", "12345678901234567890", "1e19", "1e18", "0.5", "1.5", "2.5", "0.15", "0.25", "1e-3",
                 "inf", "-inf", "nan", "1e30", "4.35", "7.0", "1e2", "0.1", "100.05"]
        for s in fixed:
            L.append("xpk\tn2s\t" + hexs(self.plain(s)))
        for _ in range(self.n(tier, 1200, 50000, scale)):
            k = rng.randrange(4)
            if k == 0:
                s = "%d.%d" % (rng.randrange(0, 1000), rng.randrange(0, 1000))
            elif k == 1:
                s = "%s%d.%02d5" % (rng.choice(["", "-"]), rng.randrange(0, 50), rng.randrange(0, 100))
            elif k == 2:
                s = "%s%de%d" % (rng.choice(["", "-"]), rng.randrange(1, 99999), rng.randrange(-6, 22))
            else:
                s = "%s%d" % (rng.choice(["", "-"]), rng.randrange(0, 2 ** rng.randrange(1, 70)))
            L.append("xpk\tn2s\t" + hexs(self.plain(s)))
        return L

    @staticmethod
    def plain(s):
        """the value as a decimal constant without exponent (what the model of the number syntax reads)"""
        if s in ("inf", "-inf", "nan"):
            return s
        import decimal
        return format(decimal.Decimal(s), "f")


# ------------------------------------------------------------------------------------------------
# oracle: hash fast path == generic evaluation
# ------------------------------------------------------------------------------------------------
class XPathFastPair:
    """C08 on the implementation itself: a key predicate that eval_name_test_try_compile_predicates() turns into a hash
    lookup selects the same nodes as a semantically identical expression that forces generic evaluation, on lists with
    at most 3 and with at least 4 instances (children hash table absent / present)"""
    name = "xpath-fastpair"
    driver = "t_xpath"
    quick_sanitize = False

    def n(self, tier, quick, thorough, scale=1.0):
        return max(1, int((thorough if tier == "thorough" else quick) * scale))

    def gen(self, rng, tier, scale=1.0):
        L = []
        insts = [Inst(rng, big=(i % 2 == 0)) for i in range(self.n(tier, 30, 1500, scale))]
        pairs = [(YANGS, hexs(i.to_xml())) for i in insts]
        dumps = get_dumps(pairs)
        for (y, x), d in zip(pairs, dumps):
            if d.startswith("LOADERR") or d.startswith("CRASH"):
                continue
            for kind, fast, slow in self.pairs(rng, parse_dump(d)):
                L.append("xp2\t%s\t%s\t%s\t%s\t%s" % (y, x, kind, hexs(fast), hexs(slow)))
        return L

    def pairs(self, rng, nodes):
        """(kind, expression answered by the lookup, the same expression forced to generic evaluation) for the lists of a tree"""
        out = []
        for n in nodes:
            if n.kind != "l" or not n.keys or rng.random() < 0.3:
                continue
            path = "/" + "/".join("%s:%s" % (a.mod, a.name) for a in self.chain(n))
            kv = [(k, next(c for c in n.children if c.name == k)) for k in n.keys]
            # string right-hand sides: the value itself
            fast = path + "".join("[%s:%s=%s]" % (c.mod, k, r_lit(c.val)) for k, c in kv)
            slow = path + "".join("[string(%s:%s)=concat(%s,'')]" % (c.mod, k, r_lit(c.val)) for k, c in kv)
            if all(b"'" not in c.val or b'"' not in c.val for _, c in kv):
                out.append(("str", fast, slow))
            # numeric right-hand side where the key value reads as a number
            k, c = kv[-1]
            try:
                num = float(c.val.decode())
                lit = ("%d" % num) if num == int(num) and abs(num) < 1e9 else None
            except ValueError:
                lit = None
            if lit is not None and not lit.startswith("-"):
                pre = "".join("[%s:%s=%s]" % (cc.mod, kk, r_lit(cc.val)) for kk, cc in kv[:-1])
                fast = path + pre + "[%s:%s=%s]" % (c.mod, k, lit)
                slow = path + pre + "[%s:%s=%s or false()]" % (c.mod, k, lit)
                kind = "num-int" if c.ty.startswith("i") else "num-str"
                out.append((kind, fast, slow))
            if len(kv) == 1 and rng.random() < 0.3:
                fast = path + "[%s:%s=true()]" % (c.mod, k)
                slow = path + "[%s:%s=true() or false()]" % (c.mod, k)
                out.append(("bool", fast, slow))
            # node-set right-hand sides: absolute paths (also selecting nothing or several nodes), paths relative to
            # the list instance (children, also under a choice; the parent) - "or false()" forces generic evaluation
            if len(kv) == 1:
                vals = ["/a:c/a:zz", "/a:c/a:s", "/a:c/a:ll", "/a:top/a:id", "../a:s", "../a:sel", "../a:ll", "a:ca", "a:cb", "a:ca | a:cb",
                        "a:v", "a:w", "a:in/a:x", "current()/a:tl", "string(a:ca)", "//a:sel", "../a:gsel", "../a:id", "parent::*/a:gsel", "../a:gsel | ../a:id"]
                leaves = [m for m in nodes if m.kind in "ft" and all(a.kind == "c" for a in self.chain(m)[:-1])]
                if leaves:
                    m = rng.choice(leaves)
                    vals.append("/" + "/".join("%s:%s" % (a.mod, a.name) for a in self.chain(m)))
                sib = [m for m in n.children if m.kind in "ft" and m.name != k]
                if sib:
                    m = rng.choice(sib)
                    vals.append("%s:%s" % (m.mod, m.name))
                pick = rng.sample(vals, 3)
                if n.parent is not None:
                    # leaves next to the list: their value differs per instance of the parent
                    up = [m for m in n.parent.children if m.kind == "f"]
                    pick += ["../%s:%s" % (m.mod, m.name) for m in rng.sample(up, min(2, len(up)))]
                for v in pick:
                    fast = path + "[%s:%s=%s]" % (c.mod, k, v)
                    slow = path + "[%s:%s=%s or false()]" % (c.mod, k, v)
                    out.append(("node", fast, slow))
        return out

    @staticmethod
    def chain(n):
        out = []
        while n:
            out.append(n)
            n = n.parent
        out.reverse()
        # intermediate lists need their own keys to select the instance; the paths here go through containers only
        return out

    def judge(self, line, out):
        f = line.split("\t")
        if out.startswith("CRASH(") or out == "TIMEOUT" or out.startswith("LOADERR"):
            return (None, "fast/slow pair %r / %r: %s" % (unhex(f[4]), unhex(f[5]), out))
        a, _, b = out.partition(" || ")
        if a == b:
            return None
        detail = "hash fast path %r selects %s, generic %r selects %s" % (unhex(f[4]).decode(), a, unhex(f[5]).decode(), b)
        # (numbers and booleans used to be looked up as strings: fixed in /repo 434e77e; values that depend on the list
        # instance, select no node or several, or are not canonical for the key type: fixed in /repo 97c7154)
        return (None, detail)


class XPathMust:
    """C08, the decision part: the must decisions of validation are the boolean value of the same evaluation. For
    generated modules with must statements on explicit leaves, leaves with a default, non-presence containers (also
    nested and wholly implicit ones), list instances and presence containers, and generated data: every must of every
    data node of the tree completed with its default nodes is evaluated with lyd_eval_xpath3() (the evaluation that
    XPathEval ties to the reference semantics); lyd_validate_module() has to refuse the data exactly when one of them is
    false. The modules have no other constraint (no mandatory, when, unique, min/max-elements, leafref)."""
    name = "xpath-must"
    driver = "t_xpath"
    kinds = ["rel"]

    POOL = ["/c/name", "/c/fb", "not(/c/fb)", "/c/name = 'free'", "/c/n < 10", "/c/n = 5", "/c/mode != 'auto' or /c/fb", "count(/c/l) > 1",
            "/c/l[k='a']", "/c/in/x", "/c/big = 'true'", "true()", "true()", "/c/in/deep/y = 1", "/c/p", "not(/c/p)", "/top2/a = 'aa'",
            "string-length(.) >= 0", ". != 'auto' or /c/fb", "count(../*) > 2", "..", "/c/l/v = 3", "/c/l/lc/z = 'zz'", "/c/in/d = 'dd'",
            "not(/c/l)", "/c/p/q = 'qq'", "count(//*) > 12", ". != 'dd'", ". = 3 or ../lc/z != 'zz'", "false()", "/c/nosuch"]

    def n(self, tier, quick, thorough, scale=1.0):
        return max(1, int((thorough if tier == "thorough" else quick) * scale))

    def module(self, rng):
        dens = rng.choice([0.25, 0.5, 1.0])               # few musts per module: one false must decides

        def m(p=0.35):
            if rng.random() >= p * 0.4 * dens:
                return ""
            return " ".join('must "%s";' % rng.choice(self.POOL) for _ in range(rng.choice([1, 1, 1, 2])))
        return ('module m { yang-version 1.1; namespace "urn:m"; prefix m;\n'
                ' container c { %s\n'
                '  leaf name { type string; %s }\n'
                '  leaf mode { type string; default auto; %s }\n'
                '  leaf fb { type string; }\n'
                '  leaf n { type int32; default 5; %s }\n'
                '  leaf big { type boolean; default false; %s }\n'
                '  container in { %s leaf x { type string; %s } leaf d { type string; default dd; %s }\n'
                '   container deep { %s leaf y { type int32; default 1; %s } } }\n'
                '  list l { key k; %s leaf k { type string; } leaf v { type int32; default 3; %s }\n'
                '   container lc { %s leaf z { type string; default zz; %s } } }\n'
                '  container p { presence p; %s leaf q { type string; default qq; %s } }\n'
                ' }\n'
                ' container top2 { %s leaf a { type string; default aa; %s } }\n'
                '}' % (m(), m(), m(0.5), m(0.5), m(), m(0.5), m(), m(0.5), m(0.5), m(0.5), m(), m(0.5), m(0.5), m(0.5), m(), m(0.5),
                       m(0.5), m(0.5)))

    def data(self, rng):
        r = rng.random
        if r() < 0.1:
            return "" if r() < 0.5 else '<top2 xmlns="urn:m"><a>%s</a></top2>' % rng.choice(["aa", "b"])
        c = []
        if r() < 0.6:
            c.append("<name>%s</name>" % rng.choice(["free", "n", ""]))
        if r() < 0.4:
            c.append("<mode>%s</mode>" % rng.choice(["auto", "manual"]))
        if r() < 0.4:
            c.append("<fb>f</fb>")
        if r() < 0.4:
            c.append("<n>%d</n>" % rng.choice([5, 3, 10, 1000, -1]))
        if r() < 0.3:
            c.append("<big>%s</big>" % rng.choice(["true", "false"]))
        if r() < 0.5:
            inn = []
            if r() < 0.6:
                inn.append("<x>xx</x>")
            if r() < 0.3:
                inn.append("<d>%s</d>" % rng.choice(["dd", "e"]))
            if r() < 0.4:
                inn.append("<deep>%s</deep>" % ("<y>%d</y>" % rng.choice([1, 2]) if r() < 0.6 else ""))
            c.append("<in>%s</in>" % "".join(inn))
        for k in rng.sample(["a", "b", "c", "d"], rng.choice([0, 0, 1, 2, 3])):
            e = "<k>%s</k>" % k
            if r() < 0.4:
                e += "<v>%d</v>" % rng.choice([3, 4])
            if r() < 0.4:
                e += "<lc>%s</lc>" % ("<z>%s</z>" % rng.choice(["zz", "y"]) if r() < 0.6 else "")
            c.append("<l>%s</l>" % e)
        if r() < 0.4:
            c.append("<p>%s</p>" % ("<q>%s</q>" % rng.choice(["qq", "r"]) if r() < 0.5 else ""))
        out = '<c xmlns="urn:m">%s</c>' % "".join(c)
        if r() < 0.2:
            out += '<top2 xmlns="urn:m">%s</top2>' % ("<a>%s</a>" % rng.choice(["aa", "b"]) if r() < 0.7 else "")
        return out

    def gen(self, rng, tier, scale=1.0):
        L = []
        for _ in range(self.n(tier, 60, 1500, scale)):
            y = hexs(self.module(rng))
            for _ in range(self.n(tier, 12, 30, 1.0)):
                L.append("xpm\t%s\t%s" % (y, hexs(self.data(rng))))
        return L

    def judge(self, line, out):
        f = line.split("\t")
        what = "module %r, data %r" % (unhex(f[1]).decode(), unhex(f[2]).decode())
        mm = re.fullmatch(r"M:(\d+):(\d+):(\d+):([01])( LEAK)?", out)      # (":OTHER": refused, but not because of a must)
        if not mm:
            return (None, "must decisions: %s on %s" % (out[:200], what))
        nm, nfalse, nerr, refused = (int(x) for x in mm.groups()[:4])
        if mm.group(5):
            return (None, "must decisions: memory leak on %s" % what)
        if (refused == 1) != (nfalse + nerr > 0):
            return (None, "lyd_validate_module() %s data for which %d of the %d must expressions evaluate to false with lyd_eval_xpath3() on the "
                          "tree with its default nodes (%d evaluation errors): %s" % ("refuses" if refused else "accepts", nfalse, nm, nerr, what))
        return None


class XPathSan:
    """sanitizer builds: evaluating generated expressions has no memory error, failed assertion or undefined behaviour
    (the former ones - asserts in moveto_node / the set hash table, get_node_pos restart, (long long) casts of NaN and
    out-of-range numbers - were repaired in /repo 61e2388 .. f6e5fb8)"""
    name = "xpath-san"
    driver = "t_xpath"
    kinds = ["asan"]
    quick_sanitize = False

    def gen(self, rng, tier, scale=1.0):
        c = XPathEval()
        saved = c.n
        c.n = lambda tier_, q, t, s=1.0: max(1, int((t if tier_ == "thorough" else q) * s * 0.25))
        L = c.gen(rng, tier, scale)
        c.n = saved
        return L

    def judge(self, line, out):
        if out.endswith(" LEAK"):
            return (None, "XPath %r: memory leaked by the evaluation" % unhex(line.split("\t")[5]).decode("utf-8", "replace"))
        if not (out.startswith("CRASH(") or out == "TIMEOUT"):
            return None
        err = getattr(self, "last_err", "")
        f = line.split("\t")
        detail = "XPath %r, context %s: %s" % (unhex(f[5]).decode("utf-8", "replace"), f[4], out)
        return (None, detail + " " + err[-400:])


# ------------------------------------------------------------------------------------------------
# oracle: regression cases outside the modelled fragment (metadata, YANG functions on the root, comment(), schema atoms)
# ------------------------------------------------------------------------------------------------
YANG_M = '''module m { yang-version 1.1; namespace "urn:m"; prefix m; import ietf-yang-metadata { prefix md; }
  md:annotation a1 { type string; } md:annotation a2 { type string; }
  container c { leaf-list x { type string; ordered-by user; } leaf y { type string; } leaf e { type enumeration { enum one; enum two; } } } }'''
XML_M = ('<c xmlns="urn:m" xmlns:m="urn:m"><x m:a1="1" m:a2="p">a</x><x m:a1="2">b</x><x m:a1="3" m:a2="q">c</x><x m:a1="4">d</x>'
         '<y m:a2="r">e</y><e>two</e></c>')


class XPathRegress:
    """regression cases with fixed expected answers for constructs the reference evaluator does not model: metadata on
    the attribute axis (several annotations per node, sets of 4 and more items, predicates and unions on them), the YANG
    functions applied to the root, comment(), sum() of the root in schema (atom) evaluation. Each was a crash, a failed
    assertion or a wrong result before /repo c81b782, 66a156b, 8f32ad9, b416a60, 1448716."""
    name = "xpath-regress"
    driver = "t_xpath"
    kinds = ["rel", "asan"]
    quick_sanitize = True          # also in the quick tier under ASan: the driver checks for leaks after every case
    leaks = True
    # dump of XML_M: c 0, x 1..4, y 5, e 6
    CASES = [("count(/m:c/m:x/@*)", "F:3p1:36"), ("count(/m:c/*/@*)", "F:7p0:37"), ("count(//@*)", "F:7p0:37"),
             ("/m:c/m:x/@m:a1[1]/..", "N:e1"), ("/m:c/m:x/@m:a1[last()]/..", "N:e4"), ("/m:c/m:x/@*[2]/..", "N:e1"),
             ("name(/m:c/m:x/@*[2])", "S:" + hexs("m:a2")), ("string(/m:c/m:x/@m:a1[3])", "S:" + hexs("3")),
             ("count(/m:c/m:x/@m:a1 | /m:c/m:x/@m:a2)", "F:3p1:36"), ("count(/m:c/m:x/@m:a1 | /m:c/m:x/@*)", "F:3p1:36"),
             ("/m:c/*/@*[last()]/..", "N:e5"), ("/m:c//@m:a2/..", "N:e1,e3,e5"), ("/m:c/m:x/@node()[2]/..", "N:e1"),
             ("/m:c//@*[4]/..", "N:e3"), ("count(//@*/@*)", "F:0:30"), ("count(/m:c/m:x/text()/@*)", "F:0:30"),
             ("/m:c/m:x[@m:a2]", "N:e1,e3"), ("/m:c/m:x[@m:a2 = 'q']", "N:e3"), ("/m:c/*[@m:a2][last()]", "N:e5"),
             ("string(/m:c/m:x[2]/@m:a1)", "S:" + hexs("2")), ("count(/m:c/m:x/@m:a1[string() > 1])", "F:3p0:33"),
             ("enum-value(/)", "F:nan:" + hexs("NaN")), ("enum-value(/m:c/m:e)", "F:1p0:" + hexs("1")), ("deref(/)", "N:"),
             ("bit-is-set(/, 'a')", "B:0"), ("enum-value(/m:c/m:y/text())", "F:nan:" + hexs("NaN")),
             ("re-match('abc', '[')", "E7"), ("re-match('abc', 'a.c')", "B:1"), ("re-match(/m:c/m:y, '[a-e]')", "B:1"),
             ("/m:c/comment()", "E7"), ("comment()", "E7"), ("//comment()", "E7"), ("count(/m:c/processing-instruction())", "E7")]
    ATOMS = [("sum(/)", "0:0"), ("sum(/m:c/m:y)", "0:2"), ("sum(/ | /m:c/m:x)", "0:2"), ("count(/) + sum(/)", "0:0"),
             ("/m:c/@node()", "0:1"), ("sum(/m:c/@*)", "0:1")]

    def gen(self, rng, tier, scale=1.0):
        y, x = hexs(YANG_M), hexs(XML_M)
        L = ["xp\t%s\t%s\t?\t-1\t%s\tbad\t-" % (y, x, hexs(e)) for e, _ in self.CASES]
        L += ["xpa\t%s\t%s" % (y, hexs(e)) for e, _ in self.ATOMS]
        return L

    def judge(self, line, out):
        f = line.split("\t")
        e = unhex(f[5] if f[0] == "xp" else f[2]).decode()
        exp = dict(self.CASES if f[0] == "xp" else self.ATOMS)[e]
        if out.endswith(" LEAK"):
            return (None, "%r: memory leaked by the evaluation %s" % (e, getattr(self, "last_err", "")[-400:]))
        got = out[:-5] if out.endswith(" A:ok") else out
        if got != exp:
            return (None, "%s %r: libyang answers %s, expected %s %s" % ("XPath" if f[0] == "xp" else "atoms of", e, out, exp,
                                                                         getattr(self, "last_err", "")[-300:]))
        return None
