"""comps_iff.py - slice `iff`: lys_compile_iffeature() / lysc_iffeature_value() of src/schema_features.c
against coq/IfFeature.v (driver impl/t_iff.c, model ocaml/run_iff.ml).

Components (Comp):  IffCompile  `iffc <hex>` / `iffc10 <hex>`   compiled bytes + feature list
                    IffValue    `iffv <hex> <abc bits> [expected]` value under an assignment
Oracles:            IffDenote   the value of every grammatical rendering of an AST equals its denotation
                                and no input crashes (C11 / C05 on the implementation itself)

The faithful model answers OOB where the C code runs out of its arrays (the real code then crashes:
CRASH(-11), CRASH(-6) with the assert, or a sanitizer abort); norm() maps both to one token. The three
known crash classes are tagged by witness()/judge():
  iff-neg-depth   parenthesis depth negative somewhere (balance only checked at the end)   `)a(`
  iff-not-paren   pre-pass cancels `not ... not` across a parenthesis, main pass does not     `not (not a)`
  iff-rp-word     `)` directly followed by a word: the two passes cut the words differently   `()not not b`
"""
import itertools

import gens
from props.comps import Comp
from vlib import hexs, unhex

FEATS = ["a", "b", "c"]
WS = b" \t\n\r\x0b\x0c"


def is_space(c):
    return c == 32 or 9 <= c <= 13


# ------------------------------------------------------------------------------------------------
# ASTs: ("F", name) | ("N", e) | ("A", l, r) | ("O", l, r)
# ------------------------------------------------------------------------------------------------
_AST_CACHE = {}


def asts(n):
    """all ASTs with exactly n nodes over FEATS"""
    if n in _AST_CACHE:
        return _AST_CACHE[n]
    out = []
    if n == 1:
        out = [("F", f) for f in FEATS]
    elif n > 1:
        out += [("N", e) for e in asts(n - 1)]
        for i in range(1, n - 1):
            for l in asts(i):
                for r in asts(n - 1 - i):
                    out.append(("A", l, r))
                    out.append(("O", l, r))
    _AST_CACHE[n] = out
    return out


def denote(e, env):
    t = e[0]
    if t == "F":
        return env[e[1]]
    if t == "N":
        return not denote(e[1], env)
    if t == "A":
        return denote(e[1], env) and denote(e[2], env)
    return denote(e[1], env) or denote(e[2], env)


def rand_ast(rng, n):
    if n <= 1:
        return ("F", rng.choice(FEATS))
    r = rng.random()
    if r < 0.3 or n == 2:
        return ("N", rand_ast(rng, n - 1))
    k = rng.randrange(1, n - 1)
    return (rng.choice("AO"), rand_ast(rng, k), rand_ast(rng, n - 1 - k))


# renderings; lvl: 2 = expr, 1 = term, 0 = factor (RFC 7950 grammar, right recursive)
def r_full(e):
    t = e[0]
    if t == "F":
        return e[1]
    if t == "N":
        return "(not " + r_full(e[1]) + ")"
    return "(" + r_full(e[1]) + (" and " if t == "A" else " or ") + r_full(e[2]) + ")"


def r_min(e, lvl=2, sep=lambda: " ", osep=lambda: "", extra=lambda: False):
    """minimal parentheses; sep()/osep() produce the mandatory/optional separators, extra() decides
    about a redundant pair of parentheses around this sub-expression"""
    t = e[0]
    if extra():
        return "(" + osep() + r_min(e, 2, sep, osep, extra) + osep() + ")"
    if t == "F":
        return e[1]
    if t == "N":
        return "not" + sep() + r_min(e[1], 0, sep, osep, extra)
    if t == "A":
        r = r_min(e[1], 0, sep, osep, extra) + sep() + "and" + sep() + r_min(e[2], 1, sep, osep, extra)
        return "(" + osep() + r + osep() + ")" if lvl < 1 else r
    r = r_min(e[1], 1, sep, osep, extra) + sep() + "or" + sep() + r_min(e[2], 2, sep, osep, extra)
    return "(" + osep() + r + osep() + ")" if lvl < 2 else r


def renderings(rng, e):
    ws = lambda: "".join(rng.choice(" \t\n") for _ in range(rng.choice([1, 1, 2, 3])))
    ows = lambda: "".join(rng.choice(" \t\n") for _ in range(rng.choice([0, 0, 1, 2])))
    return [
        r_min(e),
        r_full(e),
        r_min(e, 2, ws, ows),
        r_min(e, 2, lambda: " ", lambda: "", lambda: rng.random() < 0.3),
    ]


# ------------------------------------------------------------------------------------------------
# the side conditions of the partial theorems (coq/IfFeature.v: depth_nonneg, not_cancel_adjacent,
# rp_sep), used to attribute a crash to one of the known defects
# ------------------------------------------------------------------------------------------------
def c_str(b):
    i = b.find(b"\0")
    return b if i < 0 else b[:i]


def tokens(s):
    """forward tokens of the C-string s: '(' ')' 'not' 'and' 'or' or ('F', word)"""
    out = []
    i = 0
    n = len(s)
    while i < n:
        c = s[i]
        if c == 40 or c == 41:
            out.append(chr(c))
            i += 1
        elif is_space(c):
            i += 1
        else:
            j = i
            while j < n and s[j] not in (40, 41) and not is_space(s[j]):
                j += 1
            w = s[i:j]
            if w in (b"not", b"and", b"or") and j < n and is_space(s[j]):
                out.append(w.decode())
            else:
                out.append(("F", w))
            i = j
    return out


def depth_nonneg(s):
    d = 0
    for c in s:
        if c == 40:
            d += 1
        elif c == 41:
            if d == 0:
                return False
            d -= 1
    return True


def not_cancel_adjacent(s):
    ln = pp = False
    for t in tokens(s):
        if t == "not":
            if ln:
                if pp:
                    return False
                ln = pp = False
            else:
                ln, pp = True, False
        elif t in ("(", ")"):
            pp = True
        else:
            ln = pp = False
    return True


def rp_sep(s):
    for i in range(len(s) - 1):
        if s[i] == 41 and s[i + 1] not in (40, 41) and not is_space(s[i + 1]):
            return False
    return True


def crash_tag(expr):
    s = c_str(expr)
    if not depth_nonneg(s):
        return "iff-neg-depth"
    if not not_cancel_adjacent(s):
        return "iff-not-paren"
    if not rp_sep(s):
        return "iff-rp-word"
    return None


def is_crash(out):
    return out.startswith("CRASH(") or out == "OOB" or out == "TIMEOUT"


# ------------------------------------------------------------------------------------------------
# case streams
# ------------------------------------------------------------------------------------------------
MAL_TOK = ["a", "b", "c", "x", "not", "and", "or", "(", ")", " "]
MAL_TOK2 = MAL_TOK + ["\t", "\n", "p:a", ":b", "q:c", "nota", "orx", "an", "no", "a:", "\r", "\x0b", "\xc3\xa9", "\xff"]

FIXED = [b"", b"a", b" a", b"a ", b"not a", b"not not a", b"not not not a", b"not (not a)", b"not (not not a)",
         b"not not (not a)", b"not ( not a )", b"not\t(\nnot a)", b")a(", b"a )(", b")(a", b"a not and b", b"()not not b",
         b"not not ()not not b", b"(a and )not not b", b"(a)and b", b"(a )or b", b"not", b"and", b"or", b"a and", b"a or ",
         b"not ", b"not(a)", b"(not) a", b"( not ) a", b"a and or b", b"a b", b"a and b c", b"(a", b"a)", b"()", b"( )",
         b"(a) (b)", b"((a))", b"( ( a ) )", b"a and (b or c)", b"(a and b) or c", b"a or b and c", b"a and b or c",
         b"not a and b", b"not (a and b)", b"not (not a and b)", b"not (a and not b)", b"p:a", b":a", b"q:a", b"p:a and p:b",
         b"a:a", b"p:p:a", b"p:", b"nota", b"not a(", b"or a", b"a or", b"x", b"a and x", b"x and a", b"not (not x)",
         b"anda", b"a anda b", b"a andb", b"(a)\tand\n(b)", b"not\ta", b"not\xa0a", b"a\x0band\x0cb", b"a\rand\rb",
         b"a and not not b", b"a and not not not b", b"not a or not b", b"not not a or not not b", b"not (a) and not (b)",
         b"(not a) and (not b)", b"not ((a))", b"not ((not a))", b"((not a) and (not b)) or c", b"a or (not (not b))",
         b"not)a(", b"(a or b)c", b"a and (b))(", b")(", b")()(", b"())(()", b"a (and) b", b"a ( and ) b", b"(a and) b",
         b"a and ) b (", b"not a not", b"not a not b", b"a not", b"a not b", b"a and not", b"not and a", b"not or",
         b"a or not and b", b"\xe2\x82\xac", b"a and \xff", b"not not", b"not not ", b"not not (a)", b"not (a) not",
         b"not not not not a", b"not not not not not a", b"(not not a)", b"not (not not not a)", b"not not (not not a)"]


def token_stream(rng, n, toks=MAL_TOK, maxlen=8):
    out = []
    for _ in range(n):
        k = rng.randrange(1, maxlen + 1)
        ts = [rng.choice(toks) for _ in range(k)]
        joiner = "" if rng.random() < 0.6 else " "
        out.append(joiner.join(ts).encode("latin-1"))
    return out


def mutations(rng, n):
    out = []
    alpha = list(b"abcx notandor()\t\n:p") + [0xff, 0xa0, 0x0b]
    for _ in range(n):
        e = rand_ast(rng, rng.randrange(1, 7))
        s = rng.choice(renderings(rng, e)).encode()
        for _ in range(rng.choice([1, 1, 2, 3])):
            s = gens.mutate(rng, s, alpha) if rng.random() < 0.8 else gens.mutate(rng, s)
        if 0 not in s:
            out.append(bytes(s))
    return out


def ast_cases(rng, maxn):
    """(ast, rendering) for all ASTs up to maxn nodes x 4 renderings"""
    for n in range(1, maxn + 1):
        for e in asts(n):
            for r in renderings(rng, e):
                yield e, r.encode()


ASSIGNMENTS = ["".join(p) for p in itertools.product("01", repeat=3)]


def expected(e, asg):
    env = {f: asg[i] == "1" for i, f in enumerate(FEATS)}
    return "1" if denote(e, env) else "0"


class _IffBase(Comp):
    driver = "t_iff"
    slice = "iff"

    def norm(self, line, out):
        return "CRASH" if (out.startswith("CRASH(") or out == "OOB") else out

    def witness(self, line, model_out, impl_out):
        """the property itself (C05: no crash; C11: value = denotation) fails on this case"""
        f = line.split("\t")
        expr = unhex(f[1])
        if impl_out.startswith("CRASH(") or impl_out == "TIMEOUT":
            return (crash_tag(expr), "if-feature %r: %s" % (c_str(expr), impl_out))
        if f[0] == "iffv" and len(f) > 3 and impl_out != f[3]:
            return ("iff-value", "if-feature %r under abc=%s evaluates to %s, denotation %s" % (expr, f[2], impl_out, f[3]))
        return None


class IffCompile(_IffBase):
    """lys_compile_iffeature vs IfFeature.compile (expression bytes, record count, feature list)"""
    name = "iffc"

    def gen(self, rng, tier, scale=1.0):
        L = []
        for s in FIXED:
            L.append("iffc\t" + hexs(s))
            L.append("iffc10\t" + hexs(s))
        for e, r in ast_cases(rng, 7 if tier == "thorough" else 5):
            L.append("iffc\t" + hexs(r))
        for s in token_stream(rng, self.n(tier, 1200, 60000, scale)):
            L.append("iffc\t" + hexs(s))
        for s in token_stream(rng, self.n(tier, 500, 30000, scale), MAL_TOK2, 6):
            L.append("iffc\t" + hexs(s))
        for s in mutations(rng, self.n(tier, 600, 40000, scale)):
            L.append("iffc\t" + hexs(s))
        for s in token_stream(rng, self.n(tier, 150, 5000, scale), MAL_TOK2, 4) + mutations(rng, self.n(tier, 100, 5000, scale)):
            L.append("iffc10\t" + hexs(s))
        for _ in range(self.n(tier, 100, 5000, scale)):
            s = gens.raw_bytes(rng, 8)
            if s and 0 not in s:
                L.append("iffc\t" + hexs(s))
        return L


class IffValue(_IffBase):
    """lysc_iffeature_value of the compiled expression vs IfFeature.iff_value, all 8 assignments"""
    name = "iffv"

    def gen(self, rng, tier, scale=1.0):
        L = []
        for e, r in ast_cases(rng, 7 if tier == "thorough" else 4):
            for asg in ASSIGNMENTS:
                L.append("iffv\t%s\t%s\t%s" % (hexs(r), asg, expected(e, asg)))
        # larger random ASTs
        for _ in range(self.n(tier, 60, 3000, scale)):
            e = rand_ast(rng, rng.randrange(5, 12))
            r = rng.choice(renderings(rng, e)).encode()
            for asg in ASSIGNMENTS:
                L.append("iffv\t%s\t%s\t%s" % (hexs(r), asg, expected(e, asg)))
        for s in FIXED + token_stream(rng, self.n(tier, 60, 3000, scale), MAL_TOK, 7):
            if s:
                L.append("iffv\t%s\t%s" % (hexs(s), rng.choice(ASSIGNMENTS)))
        return L


class IffDenote:
    """C11/C05 on the implementation: every rendering of an AST (RFC 7950 grammar) compiles and evaluates to the
    AST's denotation under every assignment; no input crashes the compiler"""
    name = "iff-denote"
    driver = "t_iff"
    quick_sanitize = False

    def gen(self, rng, tier, scale=1.0):
        L = []
        for e, r in ast_cases(rng, 7 if tier == "thorough" else 4):
            for asg in ASSIGNMENTS:
                L.append("iffv\t%s\t%s\t%s" % (hexs(r), asg, expected(e, asg)))
        for s in FIXED + token_stream(rng, int((3000 if tier == "thorough" else 150) * scale), MAL_TOK, 8):
            if s:
                L.append("iffv\t%s\t%s" % (hexs(s), rng.choice(ASSIGNMENTS)))
        return L

    def judge(self, line, out):
        f = line.split("\t")
        expr = unhex(f[1])
        if out.startswith("CRASH(") or out == "TIMEOUT":
            return (crash_tag(expr), "if-feature %r: %s" % (c_str(expr), out))
        if len(f) > 3 and out != f[3]:
            return ("iff-value", "if-feature %r under abc=%s gives %s, denotation %s" % (expr, f[2], out, f[3]))
        return None
