"""comps_iff.py - slice `iff`: lys_compile_iffeature() / lysc_iffeature_value() of src/schema_features.c
against coq/IfFeature.v (driver impl/t_iff.c, model ocaml/run_iff.ml).

Components (Comp):  IffCompile  `iffc <hex>` / `iffc10 <hex>`   compiled bytes + feature list
                    IffValue    `iffv <hex> <abc bits> [expected]` value under an assignment
Oracles:            IffDenote   the value of every grammatical rendering of an AST equals its denotation
                                and no input crashes (C11 / C05 on the implementation itself)

The model answers OOB where the C code would run out of its arrays (the real code then crashes:
CRASH(-11), CRASH(-6) with the assert, or a sanitizer abort); norm() maps both to one token.

History: three crash classes used to be known and tagged (iff-neg-depth `)a(`, iff-not-paren `not (not a)`,
iff-rp-word `()not not b`). They were fixed in /repo commits 6f66310, 299b7de, 685c1af; the model follows the
fixed code and is proved never to answer OOB (coq/Properties_C05_iff.v), and every string of the grammar is
proved to evaluate to its denotation (coq/Properties_C11_iff.v). So NO input may crash any more and every
grammatical rendering must evaluate to its denotation: witness()/judge() report any crash or wrong value
with tag None (a new violation). The former crash witnesses are kept as explicit regression cases
(REGRESS below) in every generator. The known lenient acceptance `a not and b` (compiles like
`not a and b`; DESIGN section 7, Example C11_lenient_not_placement) is not a violation of either property
and stays in FIXED as a model-vs-code case.
"""
import itertools

import gens
from props.comps import Comp
from vlib import hexs, unhex

FEATS = ["a", "b", "c"]
WS = b" \t\n\r\x0b\x0c"


def is_space(c):
    return c == 32 or 9 <= c <= 13


# ------------------------------------------------------------------------------------------------
# ASTs: ("F", name) | ("N", e) | ("A", l, r) | ("O", l, r)
# ------------------------------------------------------------------------------------------------
_AST_CACHE = {}


def asts(n):
    """all ASTs with exactly n nodes over FEATS"""
    if n in _AST_CACHE:
        return _AST_CACHE[n]
    out = []
    if n == 1:
        out = [("F", f) for f in FEATS]
    elif n > 1:
        out += [("N", e) for e in asts(n - 1)]
        for i in range(1, n - 1):
            for l in asts(i):
                for r in asts(n - 1 - i):
                    out.append(("A", l, r))
                    out.append(("O", l, r))
    _AST_CACHE[n] = out
    return out


def denote(e, env):
    t = e[0]
    if t == "F":
        return env[e[1]]
    if t == "N":
        return not denote(e[1], env)
    if t == "A":
        return denote(e[1], env) and denote(e[2], env)
    return denote(e[1], env) or denote(e[2], env)


def rand_ast(rng, n):
    if n <= 1:
        return ("F", rng.choice(FEATS))
    r = rng.random()
    if r < 0.3 or n == 2:
        return ("N", rand_ast(rng, n - 1))
    k = rng.randrange(1, n - 1)
    return (rng.choice("AO"), rand_ast(rng, k), rand_ast(rng, n - 1 - k))


def not_paren_ast(rng, depth):
    """ASTs rich in `not` directly above `not`, `and`, `or` (rendered as `not (...)`, `not not x`)"""
    if depth <= 0:
        return ("F", rng.choice(FEATS))
    r = rng.random()
    if r < 0.55:
        return ("N", not_paren_ast(rng, depth - (0 if rng.random() < 0.4 else 1)) if depth > 1 else ("N", ("F", rng.choice(FEATS))))
    return (rng.choice("AO"), not_paren_ast(rng, depth - 1), not_paren_ast(rng, depth - 1))


# renderings; lvl: 2 = expr, 1 = term, 0 = factor (RFC 7950 grammar, right recursive)
def r_full(e):
    t = e[0]
    if t == "F":
        return e[1]
    if t == "N":
        return "(not " + r_full(e[1]) + ")"
    return "(" + r_full(e[1]) + (" and " if t == "A" else " or ") + r_full(e[2]) + ")"


def r_min(e, lvl=2, sep=lambda: " ", osep=lambda: "", extra=lambda: False):
    """minimal parentheses; sep()/osep() produce the mandatory/optional separators, extra() decides
    about a redundant pair of parentheses around this sub-expression"""
    t = e[0]
    if extra():
        return "(" + osep() + r_min(e, 2, sep, osep, extra) + osep() + ")"
    if t == "F":
        return e[1]
    if t == "N":
        return "not" + sep() + r_min(e[1], 0, sep, osep, extra)
    if t == "A":
        r = r_min(e[1], 0, sep, osep, extra) + sep() + "and" + sep() + r_min(e[2], 1, sep, osep, extra)
        return "(" + osep() + r + osep() + ")" if lvl < 1 else r
    r = r_min(e[1], 1, sep, osep, extra) + sep() + "or" + sep() + r_min(e[2], 2, sep, osep, extra)
    return "(" + osep() + r + osep() + ")" if lvl < 2 else r


def renderings(rng, e):
    ws = lambda: "".join(rng.choice(" \t\n") for _ in range(rng.choice([1, 1, 2, 3])))
    ows = lambda: "".join(rng.choice(" \t\n") for _ in range(rng.choice([0, 0, 1, 2])))
    return [
        r_min(e),
        r_full(e),
        r_min(e, 2, ws, ows),
        r_min(e, 2, lambda: " ", lambda: "", lambda: rng.random() < 0.3),
    ]


def c_str(b):
    i = b.find(b"\0")
    return b if i < 0 else b[:i]


def is_crash(out):
    return out.startswith("CRASH(") or out == "OOB" or out == "TIMEOUT"


# ------------------------------------------------------------------------------------------------
# case streams
# ------------------------------------------------------------------------------------------------
MAL_TOK = ["a", "b", "c", "x", "not", "and", "or", "(", ")", " "]
MAL_TOK2 = MAL_TOK + ["\t", "\n", "p:a", ":b", "q:c", "nota", "orx", "an", "no", "a:", "\r", "\x0b", "\xc3\xa9", "\xff"]

FIXED = [b"", b"a", b" a", b"a ", b"not a", b"not not a", b"not not not a", b"not (not a)", b"not (not not a)",
         b"not not (not a)", b"not ( not a )", b"not\t(\nnot a)", b")a(", b"a )(", b")(a", b"a not and b", b"()not not b",
         b"not not ()not not b", b"(a and )not not b", b"(a)and b", b"(a )or b", b"not", b"and", b"or", b"a and", b"a or ",
         b"not ", b"not(a)", b"(not) a", b"( not ) a", b"a and or b", b"a b", b"a and b c", b"(a", b"a)", b"()", b"( )",
         b"(a) (b)", b"((a))", b"( ( a ) )", b"a and (b or c)", b"(a and b) or c", b"a or b and c", b"a and b or c",
         b"not a and b", b"not (a and b)", b"not (not a and b)", b"not (a and not b)", b"p:a", b":a", b"q:a", b"p:a and p:b",
         b"a:a", b"p:p:a", b"p:", b"nota", b"not a(", b"or a", b"a or", b"x", b"a and x", b"x and a", b"not (not x)",
         b"anda", b"a anda b", b"a andb", b"(a)\tand\n(b)", b"not\ta", b"not\xa0a", b"a\x0band\x0cb", b"a\rand\rb",
         b"a and not not b", b"a and not not not b", b"not a or not b", b"not not a or not not b", b"not (a) and not (b)",
         b"(not a) and (not b)", b"not ((a))", b"not ((not a))", b"((not a) and (not b)) or c", b"a or (not (not b))",
         b"not)a(", b"(a or b)c", b"a and (b))(", b")(", b")()(", b"())(()", b"a (and) b", b"a ( and ) b", b"(a and) b",
         b"a and ) b (", b"not a not", b"not a not b", b"a not", b"a not b", b"a and not", b"not and a", b"not or",
         b"a or not and b", b"\xe2\x82\xac", b"a and \xff", b"not not", b"not not ", b"not not (a)", b"not (a) not",
         b"not not not not a", b"not not not not not a", b"(not not a)", b"not (not not not a)", b"not not (not not a)"]


# the former crash witnesses (and close variants) of the three fixed defects, with what the fixed code must
# answer: an AST (the string is in the grammar: every assignment must give the denotation), "E" (rejected with
# LY_EVALID), or None (ungrammatical but accepted or LY_EINT: only `no crash` and model = code are checked)
_A, _B = ("F", "a"), ("F", "b")
REGRESS = [
    # 299b7de: `not` before a parenthesis is not cancelled against a `not` inside it
    (b"not (not a)", ("N", ("N", _A))),
    (b"not ( not a )", ("N", ("N", _A))),
    (b"not\t(\nnot a)", ("N", ("N", _A))),
    (b"not ((not a))", ("N", ("N", _A))),
    (b"not (not (not a))", ("N", ("N", ("N", _A)))),
    (b"not not (not a)", ("N", ("N", ("N", _A)))),
    (b"not (not not a)", ("N", ("N", ("N", _A)))),
    (b"not (not a) and not (not b)", ("A", ("N", ("N", _A)), ("N", ("N", _B)))),
    (b"a or (not (not b))", ("O", _A, ("N", ("N", _B)))),
    (b"(not (not a)) or not (not (b))", ("O", ("N", ("N", _A)), ("N", ("N", _B)))),
    (b"not (not a and b)", ("N", ("A", ("N", _A), _B))),
    (b"not (a) not", "E"),
    (b"not () not b", None),          # passes the pre-pass, main pass writes fewer records: LY_EINT
    (b"not (a) not b", "E"),
    # 6f66310: closing parenthesis before its opening one
    (b")a(", "E"), (b"a )(", "E"), (b")(a", "E"), (b")(", "E"), (b")()(", "E"), (b"())(()", "E"),
    (b"a and (b))(", "E"), (b"a and ) b (", "E"), (b"not)a(", "E"), (b"(a))((b)", "E"), (b"a) and (b", "E"),
    # 685c1af: `)` directly followed by a word
    (b"()not not b", None), (b"not not ()not not b", None), (b"(a and )not not b", None),     # lenient: compiles like `a and b`
    (b"(a)and b", None), (b"(a )or b", None), (b"(a or b)c", "E"), (b"()not b", None),
    (b"(a)not not b", "E"), (b"(a)b", "E"), (b"not (a)b", "E"), (b"(not a)and(not b)", None),
]


def regress_value_cases():
    """iffv lines for REGRESS: all 8 assignments, with the expected answer where there is one"""
    L = []
    for s, exp in REGRESS:
        for asg in ASSIGNMENTS:
            if exp is None:
                L.append("iffv\t%s\t%s" % (hexs(s), asg))
            elif exp == "E":
                L.append("iffv\t%s\t%s\tE" % (hexs(s), asg))
            else:
                L.append("iffv\t%s\t%s\t%s" % (hexs(s), asg, expected(exp, asg)))
    return L


def token_stream(rng, n, toks=MAL_TOK, maxlen=8):
    out = []
    for _ in range(n):
        k = rng.randrange(1, maxlen + 1)
        ts = [rng.choice(toks) for _ in range(k)]
        joiner = "" if rng.random() < 0.6 else " "
        out.append(joiner.join(ts).encode("latin-1"))
    return out


def mutations(rng, n):
    out = []
    alpha = list(b"abcx notandor()\t\n:p") + [0xff, 0xa0, 0x0b]
    for _ in range(n):
        e = rand_ast(rng, rng.randrange(1, 7))
        s = rng.choice(renderings(rng, e)).encode()
        for _ in range(rng.choice([1, 1, 2, 3])):
            s = gens.mutate(rng, s, alpha) if rng.random() < 0.8 else gens.mutate(rng, s)
        if 0 not in s:
            out.append(bytes(s))
    return out


def ast_cases(rng, maxn):
    """(ast, rendering) for all ASTs up to maxn nodes x 4 renderings"""
    for n in range(1, maxn + 1):
        for e in asts(n):
            for r in renderings(rng, e):
                yield e, r.encode()


ASSIGNMENTS = ["".join(p) for p in itertools.product("01", repeat=3)]


def expected(e, asg):
    env = {f: asg[i] == "1" for i, f in enumerate(FEATS)}
    return "1" if denote(e, env) else "0"


class _IffBase(Comp):
    driver = "t_iff"
    slice = "iff"

    def norm(self, line, out):
        return "CRASH" if (out.startswith("CRASH(") or out == "OOB") else out

    def witness(self, line, model_out, impl_out):
        """the property itself (C05: no crash; C11: value = denotation) fails on this case"""
        f = line.split("\t")
        expr = unhex(f[1])
        if impl_out.startswith("CRASH(") or impl_out == "TIMEOUT":
            # no crash class is known any more: always a new violation
            return (None, "if-feature %r: %s" % (c_str(expr), impl_out))
        if f[0] == "iffv" and len(f) > 3 and impl_out != f[3]:
            return (None, "if-feature %r under abc=%s evaluates to %s, expected %s" % (expr, f[2], impl_out, f[3]))
        return None


class IffCompile(_IffBase):
    """lys_compile_iffeature vs IfFeature.compile (expression bytes, record count, feature list)"""
    name = "iffc"

    def gen(self, rng, tier, scale=1.0):
        L = []
        for s in FIXED + [r[0] for r in REGRESS]:
            L.append("iffc\t" + hexs(s))
            L.append("iffc10\t" + hexs(s))
        for e, r in ast_cases(rng, 7 if tier == "thorough" else 5):
            L.append("iffc\t" + hexs(r))
        for s in token_stream(rng, self.n(tier, 1200, 60000, scale)):
            L.append("iffc\t" + hexs(s))
        for s in token_stream(rng, self.n(tier, 500, 30000, scale), MAL_TOK2, 6):
            L.append("iffc\t" + hexs(s))
        for s in mutations(rng, self.n(tier, 600, 40000, scale)):
            L.append("iffc\t" + hexs(s))
        for s in token_stream(rng, self.n(tier, 150, 5000, scale), MAL_TOK2, 4) + mutations(rng, self.n(tier, 100, 5000, scale)):
            L.append("iffc10\t" + hexs(s))
        for _ in range(self.n(tier, 100, 5000, scale)):
            s = gens.raw_bytes(rng, 8)
            if s and 0 not in s:
                L.append("iffc\t" + hexs(s))
        return L


class IffValue(_IffBase):
    """lysc_iffeature_value of the compiled expression vs IfFeature.iff_value, all 8 assignments"""
    name = "iffv"

    def gen(self, rng, tier, scale=1.0):
        L = regress_value_cases()
        for e, r in ast_cases(rng, 7 if tier == "thorough" else 4):
            for asg in ASSIGNMENTS:
                L.append("iffv\t%s\t%s\t%s" % (hexs(r), asg, expected(e, asg)))
        # larger random ASTs
        for _ in range(self.n(tier, 60, 3000, scale)):
            e = rand_ast(rng, rng.randrange(5, 12))
            r = rng.choice(renderings(rng, e)).encode()
            for asg in ASSIGNMENTS:
                L.append("iffv\t%s\t%s\t%s" % (hexs(r), asg, expected(e, asg)))
        for s in FIXED + token_stream(rng, self.n(tier, 60, 3000, scale), MAL_TOK, 7):
            if s:
                L.append("iffv\t%s\t%s" % (hexs(s), rng.choice(ASSIGNMENTS)))
        return L


class IffDenote:
    """C11/C05 on the implementation: every rendering of an AST (RFC 7950 grammar) compiles and evaluates to the
    AST's denotation under every assignment; no input crashes the compiler (any crash or wrong value: tag None)"""
    name = "iff-denote"
    driver = "t_iff"
    quick_sanitize = False

    def gen(self, rng, tier, scale=1.0):
        L = regress_value_cases()
        for e, r in ast_cases(rng, 7 if tier == "thorough" else 4):
            for asg in ASSIGNMENTS:
                L.append("iffv\t%s\t%s\t%s" % (hexs(r), asg, expected(e, asg)))
        # nested double negations across parentheses (the family of the fixed `not (not a)` defect)
        for _ in range(int((2000 if tier == "thorough" else 100) * scale)):
            e = not_paren_ast(rng, rng.randrange(1, 5))
            r = rng.choice(renderings(rng, e)).encode()
            for asg in rng.sample(ASSIGNMENTS, 3):
                L.append("iffv\t%s\t%s\t%s" % (hexs(r), asg, expected(e, asg)))
        for s in FIXED + token_stream(rng, int((3000 if tier == "thorough" else 150) * scale), MAL_TOK, 8):
            if s:
                L.append("iffv\t%s\t%s" % (hexs(s), rng.choice(ASSIGNMENTS)))
        return L

    def judge(self, line, out):
        f = line.split("\t")
        expr = unhex(f[1])
        if out.startswith("CRASH(") or out == "TIMEOUT":
            # formerly tagged iff-neg-depth / iff-not-paren / iff-rp-word (expected crashes); all fixed
            return (None, "if-feature %r: %s" % (c_str(expr), out))
        if len(f) > 3 and out != f[3]:
            return (None, "if-feature %r under abc=%s gives %s, expected %s" % (expr, f[2], out, f[3]))
        return None
