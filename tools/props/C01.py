"""C01 - print o parse = identity (XML, JSON, LYB)"""
from props import comps, comps_json, oracles

PID = "C01"
LEVEL = "proof"


def components():
    return [comps.Utf8(), comps.XmlEsc(), comps.XmlVal(), comps_json.JsonEsc(), comps_json.JsonStr()]


def oracles_():
    return [oracles.RoundTrip()]

MANIFEST = {
    "text": "Coq theorems: the XML text printer/lexer pair is an exact round trip for every string of accepted characters of any "
            "length (C01_xml_text_roundtrip*), including CR and, in attribute values, TAB and LF, which the printer writes as "
            "character references since 6fdbff2 / 47fa563 (the lexer reads them back; its white-space-only flag is stated "
            "exactly). The models are tied to the tree by scraped escape tables (T1) and by "
            "differential runs of the extracted model against the static C functions (T2).",
    "note": "Modelled (not verified) C: lyxml_dump_text, lyxml_parse_value, ly_getutf8/pututf8/checkutf8. Trusted: Coq kernel, "
            "extraction, drivers/generators. Document-level printers/parsers are covered by API-level oracles (testing).",
    "technique": "Coq proof over hand-written model + differential correspondence (extracted OCaml vs C) + round-trip oracle",
}
