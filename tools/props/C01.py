"""C01 - print o parse = identity (XML, JSON, LYB)"""
from props import comps, comps_doc, comps_json, comps_lyb, oracles

PID = "C01"
LEVEL = "proof"


def components():
    return [comps.Utf8(), comps.XmlEsc(), comps.XmlVal(), comps_json.JsonEsc(), comps_json.JsonStr(),
            comps_lyb.LybWrite(), comps_lyb.LybRoundTrip(), comps_lyb.LybRead(), comps_lyb.LybHashGen(), comps_lyb.LybSiblings(),
            comps_doc.DocModel()]


def oracles_():
    return [oracles.RoundTrip(), comps_doc.RoundTripX(), comps_doc.RoundTripMeta()]

MANIFEST = {
    "text": "Coq theorems: (XML) the text printer/lexer pair is an exact round trip for every string of accepted characters of any "
            "length (C01_xml_text_roundtrip*), including CR and, in attribute values, TAB and LF, which the printer writes as "
            "character references since 6fdbff2 / 47fa563; (JSON) json_print_string / lyjson_string round trip "
            "(C01_json_string_roundtrip*); (LYB) for every well-bracketed script of sibling starts/stops and writes of any size "
            "the chunked writer's output is read back by the reader as the same payloads, parametric in LYB_SIZE_MAX "
            "(C01_lyb_chunk_roundtrip), the writer fails only through its LOGINT branches, and the printed hash sequence of a "
            "sibling identifies it among its siblings (C01_lyb_hashseq_identifies; totality of hashing is refuted = finding "
            "lyb-hash-collision). Tie: scraped escape tables and LYB constants (T1), differential runs of the extracted models "
            "against the static C functions incl. byte-identical LYB chunk streams around the 65535 boundary (T2). Whole "
            "documents (all formats x printer options) are checked by the API round-trip oracle (search).",
    "note": "Modelled (not verified) C: lyxml_dump_text, lyxml_parse_value, ly_getutf8/pututf8/checkutf8, json_print_string, "
            "lyjson_string, lyb_write/lyb_read with start/stop siblings, lyb_hash_siblings/lyb_generate_hash. Trusted: Coq kernel, "
            "extraction, drivers/generators. The document level (node order, flags, metadata, opaque nodes, anydata) is not "
            "modelled in Coq yet: API-level oracle only.",
    "technique": "Coq proof over hand-written model + differential correspondence (extracted OCaml vs C) + round-trip oracle",
}
