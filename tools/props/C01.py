"""C01 - print o parse = identity (XML, JSON, LYB)"""
from props import comps, comps_doc, comps_json, comps_lyb, oracles

PID = "C01"
LEVEL = "proof"


def components():
    return [comps.Utf8(), comps.XmlEsc(), comps.XmlVal(), comps_json.JsonEsc(), comps_json.JsonStr(),
            comps_lyb.LybWrite(), comps_lyb.LybRoundTrip(), comps_lyb.LybRead(), comps_lyb.LybHashGen(), comps_lyb.LybSiblings(),
            comps_doc.DocModel()]


def oracles_():
    return [oracles.RoundTrip(), comps_doc.RoundTripX(), comps_doc.RoundTripMeta(), comps_doc.RoundTripTypes(), comps_doc.LybCollisionRT(), comps_doc.SingleNodeX(), comps_doc.MetaOrderX()]

MANIFEST = {
    "text": "Coq theorems: (XML) the text printer/lexer pair is an exact round trip for every string of characters the lexer accepts ([lexable] "
            "= what ly_getutf8 accepts, since d2cc93f exactly the yang-chars: _unicode variants), any length, any legal "
            "delimiter (C01_xml_text_roundtrip*), including CR and, in attribute values, TAB and LF, which the printer writes as "
            "character references since 6fdbff2 / 47fa563; (JSON) json_print_string / lyjson_string round trip for lexable byte strings (C01_json_string_roundtrip*; the "
            "model-side well-formedness [bytes_ok] is needed: _nonbyte_refuted); (LYB) for every well-bracketed script of sibling starts/stops and writes of any size on which the chunked "
            "writer succeeds, its output is read back by the reader as the same payloads (C01_lyb_chunk_roundtrip, for the "
            "scraped constants; the underlying lemma is parametric in LYB_SIZE_MAX etc.), on well-bracketed scripts the "
            "writer fails only through its LOGINT branch (C01_lyb_write_fails_only_logint; reachable, and the planned "
            "inner-chunk bound false, for small parameters: C01_lyb_logint_reachable_small, "
            "C01_lyb_inner_chunks_bounded_refuted_small), and the printed hash sequence of a "
            "sibling identifies it among its siblings at ANY collision depth (C01_lyb_hashseq_identifies: reader model = "
            "lyb_parse_schema_hash comparing every collision id, cached or generated; C01_lyb_hashseq_depth4_example from the collision corpus; totality of hashing is refuted: "
            "C01_lyb_hash_total_refuted = listed finding lyb-hash-collision). corpus/lyb_collisions.txt: sibling-name "
            "families colliding to depth 1..6 and 8 (birthday search with the Python model of lyb_generate_hash, re-checked "
            "at load time, every name run on every collision id against the library and the extracted model by LybHashGen, "
            "the families as sibling sets by LybSiblings, and as modules / instances through lyd_print / lyd_parse by the "
            "oracle LybCollisionRT). Tie: scraped escape tables and LYB constants (T1), differential runs of the extracted models "
            "against the static C functions incl. byte-identical LYB chunk streams around the 65535 boundary (T2). "
            "DOCUMENT LEVEL (slice doc, Tree subset: one data module, no anydata / opaque / union): xml_print = transcription of "
            "printer_xml.c (shrink mode; namespace-declaration stack, metadata attributes, any node selection); "
            "C01_xml_doc_roundtrip / _sel / _id / _checked (hypotheses: side tables tabs_okb, forest Canon, data DocN "
            "lexable - all with boolean checkers): the libyang-side reader (XML element grammar + the model of lyxml_parse_value + "
            "schema-directed conversion) applied to xml_print gives back exactly the selected part of every canonical forest, default "
            "flags cleared (a document does not carry them) - also when two modules share a prefix (numbered prefixes of "
            "xml_print_ns since 91f0178, modelled by uniq_prefix); JSON: "
            "json_print = transcription of printer_json.c WITH its state (level, level_printed, open arrays, first_leaflist), "
            "json_doc = rendering of the RFC 7951 value; C01_json_print_is_rfc7951: for EVERY node selection the state machine "
            "prints exactly json_doc of the selected part on canonical forests (pre-order sids) - since f592167 also where the "
            "selection cuts through a leaf-list that carries metadata (trim mode); C01_json_doc_roundtrip / _sel / _checked (tabs_okb, parents_ltb, Canon, JDocN SV_ly): json_parse (json_print "
            "sel f) = the selected part of f without flags. Tie: libyang's XML and JSON output "
            "(explicit, report-all, trim, keep-empty; shrink) for generated modules / instances with metadata and empty-typed "
            "leaf-lists is byte-identical to the extracted printers, and the extracted readers applied to LIBYANG's bytes return "
            "libyang's dump; the executable hypotheses of the theorems are evaluated on every case. Whole documents for what the "
            "models do not cover (all formats x printer options; opaque nodes from XML / JSON / the API, anydata / anyxml of every "
            "value type, RPC / action / notification trees, values around the LYB chunk limit, metadata everywhere) are checked by "
            "the API round-trip oracles RoundTrip, RoundTripX, RoundTripMeta (search). VALUE TYPES: RoundTripTypes - a family of "
            "three modules in which every built-in type and every derived inet / yang / nacm type with a dedicated plugin is "
            "leaf, key, leaf-list, leafref target and leafref (chains, leafref keys), union member, annotation type (annotation "
            "in the node's module and in another one) and default; identities of three modules; instance-identifiers to list "
            "instances keyed by these types; validated and parse-only trees through XML, JSON, LYB, the with-defaults modes and "
            "the chain XML -> JSON -> LYB -> XML, compared by dump (canonical values, flags, metadata) and lyd_compare (search).",
    "note": "Modelled (not verified) C: lyxml_dump_text, lyxml_parse_value, ly_getutf8/pututf8/checkutf8, json_print_string, "
            "lyjson_string, lyb_write/lyb_read with start/stop siblings, lyb_hash_siblings/lyb_generate_hash, xml_print_data "
            "(xml_print_node/inner/term/node_open/ns/meta), json_print_data (json_print_node/member/value/leaf/container/inner/"
            "leaf_list/array_*/attributes/metadata/meta_attr_leaflist), lyd_node_should_print through WithDefaults.should_print. "
            "Trusted: Coq kernel, extraction, drivers/generators, ocaml/tree_io.ml + run_doc.ml, tools/treeenc.py + docenc.py. The "
            "document-level READERS of the libyang side are readers for the documents the printer emits (real lexer models + "
            "grammar + schema-directed conversion), not transcriptions of parser_xml.c / parser_json.c (no re-ordering, validation, "
            "default flags): tied by reading libyang's own output only. Not modelled in Coq: opaque nodes, anydata, several data "
            "modules, operations, the tagged with-defaults modes, LYB documents, formatted (non-shrink) output: API-level oracles "
            "only. The seven findings of this slice (json-trim-leaflist-meta, xml-meta-prefix-clash, json-opaq-attr-unqualified, "
            "json-anydata-unqualified, json-anydata-nested-same-list, json-opaq-mixed-array, json-opaq-list-value-lost) are fixed "
            "(known_findings.d/doc.json: commits; their witnesses are regression cases of RoundTripX / WellFormedX and Examples "
            "of the Properties files; no oracle excuses them any more). RoundTripX family anyopt: every print option set (with / without WITHSIBLINGS = lyd_print_tree, with-defaults "
            "modes, shrink, keep-empty) x XML / JSON / LYB x anydata / anyxml values that are data trees with 0, 1, >= 2 "
            "top-level nodes and anydata nested in anydata, in single-root data, notifications, RPCs and replies. MetaOrderX: the "
            "same instance with the metadata of every node in canonical and in permuted order (with-defaults default attribute "
            "2nd, 3rd ...) as XML and JSON must parse to the same tree. SingleNodeX: one node printed alone. Fixed: "
            "json-nested-any-module-lost (58cec3d), xml-wd-default-attr-not-first (e9866d8). Listed and open: json-opaq-array-attr (attributes of opaque array instances in JSON), json-opaq-unknown-meta, "
            "xml-same-prefix-value-clash (values are printed with the modules' own prefixes), with replays; of the shared "
            "oracle RoundTrip: wd-explicit-state-dflt, wd-leaflist-partial-default, lyb-hash-collision; lyb-union-member-reresolved (the "
            "LYB printer re-resolved the member of a union value without validation) is fixed by affc70d.",
    "technique": "Coq proof over hand-written model + differential correspondence (extracted OCaml vs C) + round-trip oracle",
}
