"""comps_yl.py - slice `yl` (property C19): ly_ctx_get_modules_hash(), ly_ctx_get_change_count(),
ly_ctx_get_yanglib_data() / ly_ctx_new_ylmem() against coq/ModHash.v and coq/YangLib.v
(driver impl/t_yl.c, model ocaml/run_yl.ml; record syntax in the header of t_yl.c).

Components (Comp):  ModHash     `modhash`  records read back from the context + hash  ==  records of the line + model hash
                    CcWrap      `ccwrap`   the uint16_t counter after n increments  ==  ModHash.cc_run
                    YlRoundTrip `ylrt`     yang-library entries == YangLib.describe, records of the rebuilt context ==
                                           YangLib.rebuild
Oracles:            ModHashSens   one observable field of one module changed  =>  the hash changes (and equal observables
                                  give equal hashes); any insensitivity is a violation (the former `fi` defect, fixed in
                                  /repo c8adb05, stays as regression cases)
                    ModHashConcat different module sets whose hashed strings concatenate to the same bytes (yl-hash-concat)
                    ChangeCount   every successful operation that changes the observable changes the counter, also under
                                  LY_CTX_EXPLICIT_COMPILE (fixed in /repo d4e18d7; regression cases kept)
                    YlOracle      data valid, rebuild succeeds, same records, same compiled modules, same hash, content-id
"""
from props.comps import Comp
from vlib import hexs

NO_YL = 0x04
EXPLICIT = 0x80

NAMES = ["m", "m1", "ma", "a", "ab", "abc", "b", "b-c", "x.y", "mod", "n_1", "A", "zz"]
FEATS = ["a", "b", "c", "ab", "bc", "abc", "f", "f1", "f-2", "g", "x", "_y", "feat"]
REVS = [None, "2019-01-01", "2020-01-01", "2020-12-31", "2021-06-30"]


# ------------------------------------------------------------------------------------------------
# abstract module sets; a module = dict(name, rev, impl, groups=[[(fname, en)]], imports=[(name, rev|None)], extra)
# ------------------------------------------------------------------------------------------------
def enc_mod(m):
    fd, ik = m.get("fdeps", {}), m.get("ikind", {})
    gs = ";".join("+".join("%s:%d%s" % (hexs(f), 1 if e else 0, (":" + hexs(fd[f])) if f in fd else "") for f, e in g)
                  for g in m["groups"])
    im = "+".join(hexs(n) + ("@" + hexs(r) if r else "") + (("^" + ik[n]) if n in ik else "") for n, r in m["imports"])
    sg = ""
    if m.get("subg"):
        v, incs = m["subg"]
        sg = ",%d;%s" % (v, ";".join("+".join(str(j) for j in l) for l in incs))
    return "%s%s,%s,%d,%s,%s%s" % ("+" if m.get("extra") else "", hexs(m["name"]), hexs(m["rev"]) if m["rev"] else "-",
                                   1 if m["impl"] else 0, gs, im, sg)


def copy_set(ms):
    return [dict(m, groups=[list(g) for g in m["groups"]], imports=list(m["imports"]), fdeps=dict(m.get("fdeps", {})),
                 ikind=dict(m.get("ikind", {}))) for m in ms]


def dec_mod(field):
    from vlib import unhex
    dh = lambda h: unhex(h).decode("latin-1")
    extra = field.startswith("+")
    parts = field.lstrip("+").split(",")
    nm, rv, im, gs, is_ = parts[:5]
    subg = None
    if len(parts) > 5:
        w = parts[5].split(";")
        subg = (int(w[0]), [[int(j) for j in l.split("+")] if l else [] for l in w[1:]])
    groups, fdeps, imports, ikind = [], {}, [], {}
    for g in gs.split(";"):
        fs = []
        for x in (g.split("+") if g else []):
            q = x.split(":")
            fs.append((dh(q[0]), q[1] == "1"))
            if len(q) > 2:
                fdeps[dh(q[0])] = dh(q[2])
        groups.append(fs)
    for i in (is_.split("+") if is_ else []):
        kind = None
        if "^" in i:
            i, kind = i.split("^")
        q = i.split("@")
        imports.append((dh(q[0]), dh(q[1]) if len(q) > 1 else None))
        if kind:
            ikind[dh(q[0])] = kind
    return {"name": dh(nm), "rev": None if rv == "-" else dh(rv), "impl": im == "1",
            "groups": groups, "imports": imports, "extra": extra, "fdeps": fdeps, "ikind": ikind, "subg": subg}


def obs_of(m):
    return (m["name"], m["rev"], m["impl"], [[f for f, e in g if e] for g in ctx_groups(m)])


def split_sets(fields):
    k = fields.index("/")
    return [dec_mod(x) for x in fields[:k]], [dec_mod(x) for x in fields[k + 1:]]


def includes_order(v11, incs, early=False):
    """the includes array of a module as lysp_load_submodules builds it (mirror of YangLib.includes_order; used to
    generate loadable graphs only; early=True is the code before /repo 272016c); None = the library refuses the graph"""
    arr = [[j, False] for j in (incs[0] if incs else [])]
    find = lambda j: next((e for e in arr if e[0] == j), None)

    class Refused(Exception):
        pass

    def parse_sub(cur, stack, depth):
        if depth > len(incs) + 1:
            raise Refused()
        for j in (incs[cur] if cur < len(incs) else []):
            e = find(j)
            if e and e[1]:
                if early:
                    return
                continue
            if e is None and v11:
                raise Refused()
            if j in stack:
                if early:
                    return
                continue
            parse_sub(j, [cur] + stack, depth + 1)
            e = find(j)
            if e:
                e[1] = True
            else:
                arr.append([j, True])

    try:
        u = 0
        while u < len(arr):
            if not arr[u][1]:
                parse_sub(arr[u][0], [], 0)
                arr[u][1] = True
            u += 1
    except Refused:
        return None
    return [e[0] for e in arr]


def closure(incs):
    seen, todo = set(), list(incs[0]) if incs else []
    while todo:
        j = todo.pop()
        if j not in seen:
            seen.add(j)
            todo += incs[j] if j < len(incs) else []
    return seen


def gen_subgraph(rng, ng):
    """(version, include lists) for a module with ng - 1 submodules, every submodule loaded by the library as it is"""
    n = ng - 1
    if n < 1:
        return (rng.choice([0, 1]), [[]]) if rng.random() < 0.3 else None
    for _ in range(30):
        r = rng.random()
        subs = list(range(1, ng))
        if r < 0.25:
            return None                                             # YANG 1.1, the module includes all
        if r < 0.45:                                                # YANG 1.1 with includes between submodules
            main = subs[:]
            rng.shuffle(main)
            incs = [main] + [[j for j in subs if j != k and rng.random() < 0.4] for k in subs]
            v = 1
        elif r < 0.6:                                               # YANG 1.0 chain
            incs = [[1]] + [[k + 1] if k < n else [] for k in subs]
            v = 0
        elif r < 0.7 and n >= 3:                                    # YANG 1.0 diamond
            incs = [[1, 2], [3], [3]] + [[] for _ in range(3, ng)]
            if n > 3:
                incs[3] = list(range(4, ng))
            v = 0
        else:                                                       # YANG 1.0 random acyclic graph
            main = [j for j in subs if rng.random() < 0.5] or [1]
            rng.shuffle(main)
            incs = [main] + [[j for j in subs if j > k and rng.random() < 0.5] for k in subs]
            for l in incs[1:]:
                rng.shuffle(l)
            v = 0
        # no include cycles (the library reports them), every submodule loaded
        order = includes_order(v == 1, incs)
        if order is not None and sorted(order) == subs and acyclic(incs):
            return (v, incs)
    return None


def acyclic(incs):
    state = {}

    def visit(k):
        if state.get(k) == 1:
            return False
        if state.get(k) == 2:
            return True
        state[k] = 1
        ok = all(visit(j) for j in (incs[k] if k < len(incs) else []))
        state[k] = 2
        return ok
    return all(visit(k) for k in range(1, len(incs)))


def ctx_groups(m):
    """the feature groups of a record in the order the context holds them"""
    if not m.get("subg"):
        return m["groups"]
    v, incs = m["subg"]
    order = includes_order(v == 1, incs) or []
    return [m["groups"][0]] + [m["groups"][j] for j in order]


def fresh_name(rng, used):
    for _ in range(50):
        n = rng.choice(NAMES)
        if rng.random() < 0.4:
            n += rng.choice(["", "1", "2", "-x", "a", "b"])
        if n not in used:
            return n
    k = 0
    while "q%d" % k in used:
        k += 1
    return "q%d" % k


def new_module(rng, used, impl, max_sub=3, max_feat=3, norev=0.3):
    name = fresh_name(rng, used)
    used.add(name)
    pool = FEATS[:]
    rng.shuffle(pool)
    groups = []
    ng = 1 + (rng.randrange(0, max_sub + 1) if rng.random() < 0.5 else 0)
    for _ in range(ng):
        k = rng.randrange(0, max_feat + 1)
        groups.append([(pool.pop(), bool(impl and rng.random() < 0.5)) for _ in range(k)])
    rev = None if rng.random() < norev else rng.choice(REVS[1:])
    return {"name": name, "rev": rev, "impl": impl, "groups": groups, "imports": [], "subg": gen_subgraph(rng, len(groups))}


def gen_set(rng, n_impl=None, max_sub=3, imports=True):
    """module records in the order the context will hold them: every explicitly loaded (implemented) module is
    followed by the modules its imports bring in for the first time, depth first"""
    n_impl = n_impl or rng.choice([1, 1, 2, 2, 3, 4])
    recs, used = [], set()

    def place(m, depth, stack):
        recs.append(m)
        if not imports:
            return
        for _ in range(rng.choice([0, 0, 1, 1, 2])):
            cands = [x for x in recs if x["name"] not in stack and x is not m and
                     x["name"] not in [i[0] for i in m["imports"]]]
            if cands and rng.random() < 0.4:
                t = rng.choice(cands)
                m["imports"].append((t["name"], t["rev"] if (t["rev"] and rng.random() < 0.5) else None))
            elif depth < 2 and len(recs) < 7:
                t = new_module(rng, used, impl=rng.random() < 0.3, max_sub=max_sub)
                m["imports"].append((t["name"], t["rev"] if (t["rev"] and rng.random() < 0.5) else None))
                place(t, depth + 1, stack + [t["name"]])

    for _ in range(n_impl):
        m = new_module(rng, used, impl=True, max_sub=max_sub)
        place(m, 0, [m["name"]])
    return recs


def line_of(cmd, opts, ms, more=()):
    return "\t".join([cmd, str(opts)] + [enc_mod(m) for m in ms] + list(more))


# fixed regression sets: the witnesses of the Coq development
def fixed_sets():
    m1 = {"name": "m1", "rev": "2020-01-01", "impl": True, "groups": [[("a", True), ("b", False)]], "imports": []}
    m2 = {"name": "m2", "rev": None, "impl": True, "groups": [[("c", True)]], "imports": []}
    m2b = dict(m2, groups=[[("c", False)]])
    s1 = {"name": "m3", "rev": "2019-01-01", "impl": True, "groups": [[("a", True)], [("s", True)]], "imports": []}
    s2 = {"name": "m4", "rev": None, "impl": True, "groups": [[("c", True)], [("d", True)], [("e", True)]],
          "imports": [("m5", None)]}
    s3 = {"name": "m5", "rev": "2019-01-01", "impl": False, "groups": [[("z", False)]], "imports": []}
    return [[m1, m2], [m1, m2b], [m2, m1], [s1, s2, s3], [s2, s3, s1], [m1], []]


class ModHash(Comp):
    """ly_ctx_get_modules_hash of generated contexts vs ModHash.modhash on the records the context holds"""
    name = "modhash"
    driver = "t_yl"
    slice = "yl"

    def gen(self, rng, tier, scale=1.0):
        L = []
        for ms in fixed_sets():
            for opts in (NO_YL, 0):
                L.append(line_of("modhash", opts, ms))
        for _ in range(self.n(tier, 1200, 40000, scale)):
            ms = gen_set(rng)
            opts = rng.choice([NO_YL, NO_YL, 0, NO_YL | EXPLICIT])
            L.append(line_of("modhash", opts, ms))
        return L


class CcWrap(Comp):
    """the uint16_t change counter after runs of increments vs ModHash.cc_run"""
    name = "ccwrap"
    driver = "t_yl"
    slice = "yl"

    def gen(self, rng, tier, scale=1.0):
        L = ["ccwrap\t65530\t3\t3\t65536\t65535", "ccwrap\t1\t65535\t1\t0\t65536", "ccwrap\t0\t0", "ccwrap\t65535\t1"]
        for _ in range(self.n(tier, 40, 400, scale)):
            start = rng.choice([0, 1, 9, 13, 65535, 65534, rng.randrange(65536)])
            ns = [rng.choice([0, 1, 2, 3, 7, 100, 65535, 65536, 65537, rng.randrange(70000)])
                  for _ in range(rng.randrange(1, 5))]
            L.append("\t".join(["ccwrap", str(start)] + [str(n) for n in ns]))
        return L


# ------------------------------------------------------------------------------------------------
# oracles on the hash
# ------------------------------------------------------------------------------------------------
def mutate_one(rng, ms):
    """returns (ms', kind, module index, group index) with exactly one observable field of one module changed, or
    (ms', 'same', ...) with an unobservable change (name of a disabled feature)"""
    ms2 = copy_set(ms)
    for _ in range(30):
        j = rng.randrange(len(ms2))
        m = ms2[j]
        kind = rng.choice(["feat", "feat", "feat", "impl", "rev", "name", "add", "same"])
        if kind == "feat" and m["impl"]:
            gi = [g for g in range(len(m["groups"])) if m["groups"][g]]
            if not gi:
                continue
            g = rng.choice(gi)
            k = rng.randrange(len(m["groups"][g]))
            f, e = m["groups"][g][k]
            m["groups"][g][k] = (f, not e)
            return ms2, "feat", j, g
        if kind == "impl" and not m["impl"]:
            # an import-only module becomes implemented (it is already in the context at that point)
            m["impl"] = True
            return ms2, "impl", j, 0
        if kind == "impl" and m["impl"] and any(m["name"] in [i[0] for i in x["imports"]] for x in ms2[:j]):
            # implemented -> import-only: possible when an earlier module imports it
            m["impl"] = False
            m["groups"] = [[(f, False) for f, _ in g] for g in m["groups"]]
            if [[e for _, e in g] for g in m["groups"]] != [[e for _, e in g] for g in ms[j]["groups"]]:
                continue        # would change features too
            return ms2, "impl", j, 0
        if kind == "rev":
            old = m["rev"]
            new = rng.choice([r for r in REVS if r != old])
            m["rev"] = new
            for x in ms2:
                x["imports"] = [(n, (new if (r and n == m["name"]) else r)) for n, r in x["imports"]]
            if new is None:
                for x in ms2:
                    x["imports"] = [(n, (None if n == m["name"] else r)) for n, r in x["imports"]]
            return ms2, "rev", j, 0
        if kind == "name":
            old = m["name"]
            new = old + rng.choice(["x", "0", "-", "_"])
            if new in [x["name"] for x in ms2]:
                continue
            m["name"] = new
            for x in ms2:
                x["imports"] = [((new if n == old else n), r) for n, r in x["imports"]]
            return ms2, "name", j, 0
        if kind == "add":
            used = set(x["name"] for x in ms2)
            ms2.append(new_module(rng, used, impl=True))
            return ms2, "add", len(ms2) - 1, 0
        if kind == "same":
            for g in range(len(m["groups"])):
                for k, (f, e) in enumerate(m["groups"][g]):
                    if not e:
                        names = [ff for gg in m["groups"] for ff, _ in gg]
                        if f + "q" not in names:
                            m["groups"][g][k] = (f + "q", e)
                            return ms2, "same", j, g
    return ms2, "same", 0, 0


class ModHashSens:
    """C19 on the implementation: changing the name, revision, implemented state or one enabled feature of any one
    module, or adding a module, changes ly_ctx_get_modules_hash(); an unobservable change (name of a disabled feature)
    does not.  Regression: the witnesses of the former `fi` defect (features of later modules were skipped)."""
    name = "modhash-sens"
    driver = "t_yl"

    def gen(self, rng, tier, scale=1.0):
        L = []
        fs = fixed_sets()
        s2b = dict(fs[3][1], groups=[[("c", False)], [("d", True)], [("e", True)]])
        s2c = dict(fs[3][1], groups=[[("c", True)], [("d", False)], [("e", True)]])
        fixed = [(fs[0], fs[1]), ([fs[3][0], fs[3][1], fs[3][2]], [fs[3][0], s2b, fs[3][2]]),
                 ([fs[3][0], fs[3][1], fs[3][2]], [fs[3][0], s2c, fs[3][2]])]
        n = int((30000 if tier == "thorough" else 1500) * scale)
        for i in range(n + len(fixed)):
            if i < len(fixed):
                a, b = fixed[i]
            else:
                a = gen_set(rng)
                b = mutate_one(rng, a)[0]
            L.append("\t".join(["hashpair", str(NO_YL)] + [enc_mod(m) for m in a] + ["/"] + [enc_mod(m) for m in b]))
        return L

    def judge(self, line, out):
        a, b = split_sets(line.split("\t")[2:])
        a = [m for m in a if not m["extra"]]
        b = [m for m in b if not m["extra"]]
        w = out.split(" ")
        if len(w) != 2 or "E" in w or not w[0].isdigit() or not w[1].isdigit():
            return (None, "hashpair did not build both contexts: %s" % out)
        oa, ob = [obs_of(m) for m in a], [obs_of(m) for m in b]
        if oa == ob:
            if w[0] != w[1]:
                return (None, "equal observables but hashes %s" % out)
            return None
        if w[0] == w[1]:
            diff = [j for j in range(min(len(oa), len(ob))) if oa[j] != ob[j]]
            return (None, "different observables (modules %s), hash %s for both" % (diff, w[0]))
        return None


def concat_pairs(rng, n):
    """pairs of different module sets whose hashed strings concatenate to the same byte string"""
    P = []
    base = lambda nm, rev, gs: {"name": nm, "rev": rev, "impl": True, "groups": gs, "imports": []}
    # enabled feature sets {ab, c} / {a, bc} of the same module source
    P.append(([base("m", None, [[("a", False), ("ab", True), ("bc", False), ("c", True)]])],
              [base("m", None, [[("a", True), ("ab", False), ("bc", True), ("c", False)]])]))
    # name / revision boundary
    P.append(([base("a", "2020-01-01", [[]])], [base("a2020-01-01", None, [[]])]))
    # name / feature boundary
    P.append(([base("a", None, [[("b", True)]])], [base("ab", None, [[("b", False)]])]))
    alpha = "abcxyz"
    for _ in range(n):
        s = "".join(rng.choice(alpha) for _ in range(rng.randrange(3, 8)))
        i, j = sorted(rng.sample(range(1, len(s)), 2))
        kind = rng.randrange(3)
        if kind == 0:
            # features: s[:i] + s[i:]  vs  s[:j] + s[j:]
            names = [s[:i], s[i:], s[:j], s[j:]]
            if len(set(names)) < 4:
                continue
            order = sorted(set(names))
            g1 = [(f, f in (s[:i], s[i:])) for f in order]
            g2 = [(f, f in (s[:j], s[j:])) for f in order]
            # the enabled names must be hashed in the same concatenation order: declare prefix before suffix
            g1 = [(s[:i], True), (s[:j], False), (s[j:], False), (s[i:], True)]
            g2 = [(s[:i], False), (s[:j], True), (s[j:], True), (s[i:], False)]
            P.append(([base("mm", "2020-01-01", [g1])], [base("mm", "2020-01-01", [g2])]))
        elif kind == 1:
            P.append(([base(s[:i], None, [[(s[i:], True)]])], [base(s[:j], None, [[(s[j:], True), (s[i:], False)]])]))
        else:
            P.append(([base(s, "2019-01-01", [[]])], [base(s + "2019-01-01", None, [[]])]))
    return P


class ModHashConcat:
    """C19 on the implementation: different module sets must not be forced to the same hash.  The hashed strings are
    fed without separators or lengths, so sets whose strings concatenate to the same bytes collide: yl-hash-concat."""
    name = "modhash-concat"
    driver = "t_yl"

    def gen(self, rng, tier, scale=1.0):
        L = []
        for a, b in concat_pairs(rng, int((300 if tier == "thorough" else 30) * scale)):
            L.append("\t".join(["hashpair", str(NO_YL)] + [enc_mod(m) for m in a] + ["/"] + [enc_mod(m) for m in b]))
        return L

    def judge(self, line, out):
        w = out.split(" ")
        if len(w) != 2 or "E" in w or not w[0].isdigit() or not w[1].isdigit():
            return (None, "hashpair did not build both contexts: %s" % out)
        if w[0] == w[1]:
            return ("yl-hash-concat", "two different module sets have the hash %s" % w[0])
        return None


# ------------------------------------------------------------------------------------------------
# change counter
# ------------------------------------------------------------------------------------------------
def feat_spec(rng, m):
    names = [f for g in m["groups"] for f, _ in g]
    r = rng.random()
    if r < 0.2:
        return "*"
    if r < 0.3:
        return "~"
    if r < 0.45 or not names:
        return "-"
    k = rng.randrange(1, len(names) + 1)
    return "+".join(hexs(f) for f in rng.sample(names, k))


class CcOps(Comp):
    """the counter events of ly_ctx_load_module / lys_set_implemented under LY_CTX_EXPLICIT_COMPILE (no compile events):
    per operation the counter difference, the number of modules added and whether the records changed, vs
    YangLib.load_op / set_impl_op (lys_set_features change flag, lys_implement, module insertion)"""
    name = "ccops"
    driver = "t_yl"
    slice = "yl"

    def norm(self, line, out):
        w = out.split(" ")
        res = []
        for t in w[1:]:
            f = t.split(":")
            if len(f) != 5 or f[0] != "0":
                res.append("E")
            else:
                res.append("%d:%s:%s" % ((int(f[2]) - int(f[1])) % 65536, f[3], f[4]))
        return " ".join(res)

    def gen(self, rng, tier, scale=1.0):
        L = []
        fs = fixed_sets()[3]
        hx = hexs
        for opts in (NO_YL | EXPLICIT, EXPLICIT):
            # regression of the seeded changes C19-6 / C19-7: a call that only disables features, and implementing a module
            L.append(line_of("chg", opts, fs, ["/", "L:1:*", "I:1:" + hx("c") + "+" + hx("d"), "I:1:" + hx("c"), "I:1:" + hx("c"),
                                               "I:2:~", "I:2:*", "I:2:-", "L:0:" + hx("a"), "I:0:-", "I:0:" + hx("nosuch")]))
        for _ in range(self.n(tier, 400, 8000, scale)):
            ms = gen_set(rng)
            if rng.random() < 0.3:
                add_dependencies(rng, ms)
            opts = rng.choice([NO_YL | EXPLICIT, EXPLICIT])
            ops = []
            for _ in range(rng.randrange(2, 9)):
                j = rng.randrange(len(ms))
                ops.append("%s:%d:%s" % ("L" if rng.random() < 0.4 else "I", j, feat_spec(rng, ms[j])))
            L.append(line_of("chg", opts, ms, ["/"] + ops))
        return L


class ChangeCount:
    """C19 on the implementation: after every successful ly_ctx_load_module / lys_set_implemented / ly_ctx_compile that
    changes the module set, the implemented state or the enabled features, ly_ctx_get_change_count() differs from
    its value before - also with LY_CTX_EXPLICIT_COMPILE, where nothing is compiled before ly_ctx_compile (regression
    of the defect fixed in /repo d4e18d7)."""
    name = "change-count"
    driver = "t_yl"

    def gen(self, rng, tier, scale=1.0):
        L = []
        fs = fixed_sets()[3]
        hx = hexs
        for opts in (NO_YL | EXPLICIT, NO_YL, 0):
            L.append(line_of("chg", opts, fs, ["/", "L:1:-", "I:1:" + hx("c"), "I:1:" + hx("c"), "C", "I:2:~", "C", "I:2:*",
                                               "L:0:*", "C", "C", "L:0:" + hx("nosuch"), "I:0:" + hx("a")]))
        for _ in range(int((12000 if tier == "thorough" else 800) * scale)):
            ms = gen_set(rng)
            opts = rng.choice([NO_YL, NO_YL, 0, NO_YL | EXPLICIT, EXPLICIT])
            ops = []
            for _ in range(rng.randrange(2, 9)):
                r = rng.random()
                j = rng.randrange(len(ms))
                if r < 0.35:
                    ops.append("L:%d:%s" % (j, feat_spec(rng, ms[j])))
                elif r < 0.85:
                    ops.append("I:%d:%s" % (j, feat_spec(rng, ms[j])))
                else:
                    ops.append("C")
            L.append(line_of("chg", opts, ms, ["/"] + ops))
        return L

    def judge(self, line, out):
        f = line.split("\t")
        opts = int(f[1])
        ops = f[f.index("/") + 1:]
        w = out.split(" ")
        if len(w) != len(ops) + 1:
            return (None, "driver answered %r" % out)
        for op, r in zip(ops, w[1:]):
            rc, c0, c1, added, changed = r.split(":")
            if rc == "0" and (changed == "1" or added != "0") and c0 == c1:
                return (None, "op %s changed the context (added %s, options %d), counter stays %s" % (op, added, opts, c0))
        return None


# ------------------------------------------------------------------------------------------------
# yang-library round trip
# ------------------------------------------------------------------------------------------------
def gen_multirev(rng, pinned_only=True):
    """a module with two revisions in the sources; importers pin a revision (modelled) or do not (oracle only)"""
    recs = gen_set(rng, n_impl=rng.choice([1, 1, 2]))
    used = set(m["name"] for m in recs)
    a1 = new_module(rng, used, impl=False, max_sub=0, norev=0.0)
    r1, r2 = sorted(rng.sample(REVS[1:], 2))
    a1["rev"] = r1
    a2 = dict(a1, rev=r2, groups=[[(f + "n", False) for f, _ in g] for g in a1["groups"]], imports=[])
    x = new_module(rng, used, impl=True)
    x["imports"] = [(a1["name"], r1)]
    y = new_module(rng, used, impl=True)
    y["imports"] = [(a1["name"], r2)]
    order = rng.randrange(4)
    if order == 0:
        recs += [x, a1, dict(a2, extra=True)]
    elif order == 1:
        recs += [x, a1, y, a2]
    elif order == 2:
        recs += [y, a2, x, a1]
    else:
        recs += [y, a2, dict(a1, extra=True)]
    if not pinned_only:
        w = new_module(rng, used, impl=True)
        w["imports"] = [(a1["name"], None)]
        recs.insert(rng.randrange(len(recs) + 1), w)
        if rng.random() < 0.3:
            # one of the revisions is implemented explicitly
            for m in recs:
                if m["name"] == a1["name"] and not m.get("extra"):
                    m["impl"] = True
                    break
    return recs


ENABLE_IMP = 0x100
ALL_IMPL = 0x01
REF_IMPL = 0x02
PREFER_SD = 0x20


def add_feature_deps(rng, ms, p=0.35):
    """if-feature dependencies between features of one (sub)module; the enabled sets are closed under them"""
    for m in ms:
        fd = m.setdefault("fdeps", {})
        for g in m["groups"]:
            for k in range(1, len(g)):
                if rng.random() < p:
                    fd[g[k][0]] = g[rng.randrange(k)][0]
        close_enabled(m)
    return ms


def close_enabled(m):
    fd = m.get("fdeps", {})
    changed = True
    while changed:
        changed = False
        for g in m["groups"]:
            en = dict(g)
            for k, (f, e) in enumerate(g):
                if not e and any(en.get(x) and fd.get(x) == f for x in en):
                    g[k] = (f, True)
                    changed = True


def closed_subset(rng, m):
    """a feature list for lys_set_features that respects the if-feature dependencies"""
    fd = m.get("fdeps", {})
    names = [f for g in m["groups"] for f, _ in g]
    pick = set(f for f in names if rng.random() < 0.5)
    for _ in range(len(names)):
        pick |= set(fd[f] for f in pick if f in fd)
    return [f for f in names if f in pick]


def add_dependencies(rng, ms, p_aug=0.3, p_dev=0.2):
    """some imports also augment / deviate the imported module (which the library then implements)"""
    deviated = set()
    for m in ms:
        ik = m.setdefault("ikind", {})
        for n, r in m["imports"]:
            x = rng.random()
            if x < p_aug:
                ik[n] = "a"
            elif x < p_aug + p_dev and n not in deviated:
                ik[n] = "d"
                deviated.add(n)
    return ms


def pre_spec(rng, m):
    r = rng.random()
    if r < 0.35:
        return "*"
    if r < 0.5:
        return "~"
    if r < 0.65:
        return "-"
    fs = closed_subset(rng, m)
    return "+".join(hexs(f) for f in fs) if fs else "-"


def pre_ops(rng, ms, n=None, extras=True):
    cand = [j for j, m in enumerate(ms) if extras or not m.get("extra")]
    ops = []
    for _ in range(n or rng.choice([1, 1, 2, 3])):
        j = rng.choice(cand)
        ops.append("P:%d:%s" % (j, pre_spec(rng, ms[j])))
    return ops


class YlRoundTrip(Comp):
    """yang-library entries of generated contexts vs YangLib.describe; records of the context rebuilt by
    ly_ctx_new_ylmem from the printed JSON data with the same sources vs YangLib.rebuild - into an empty context and
    into one populated before by ly_ctx_load_module calls (P fields; YangLib.preload)"""
    name = "ylrt"
    driver = "t_yl"
    slice = "yl"

    def norm(self, line, out):
        w = out.split(" # ")[0].split(" ")
        if len(w) >= 3 and w[2] != "0":
            w[2] = "E"
            w[3:] = ["-"]
        # the deviation leaf-list and the submodule list are ordered by the system (sorted in the data tree); the model
        # gives them in context / includes-array order: compare them as sets
        if w and (w[0].startswith("m:") or w[0].startswith("i:")):
            ents = []
            for e in w[0].split("|"):
                f = e.split(",")
                for k in ((4, 5) if e.startswith("m:") else (3,)):
                    if k < len(f):
                        f[k] = "+".join(sorted(x for x in f[k].split("+") if x))
                ents.append(",".join(f))
            w[0] = "|".join(ents)
        return " ".join(w)

    def gen(self, rng, tier, scale=1.0):
        L = []
        for ms in fixed_sets():
            L.append(line_of("ylrt", 0, ms))
        # the populated-context regression (seeded change C19-1): m2 is implemented with c enabled before the rebuild,
        # its entry lists no feature
        fs = fixed_sets()
        L.append("\t".join(["ylrt", "0", "P:1:*"] + [enc_mod(m) for m in fs[1]]))
        L.append("\t".join(["ylrt", "0", "P:1:*", "P:0:-"] + [enc_mod(m) for m in fs[0]]))
        # x deviates a (import-only in the line): loading x implements a, the description of a lists x
        da = {"name": "a", "rev": "2019-01-01", "impl": False, "groups": [[("f", False)], []], "imports": []}
        dx = {"name": "x", "rev": None, "impl": True, "groups": [[]], "imports": [("a", None)], "ikind": {"a": "d"}}
        dy = {"name": "y", "rev": None, "impl": True, "groups": [[]], "imports": [("a", None), ("x", None)], "ikind": {"a": "a"}}
        L.append(line_of("ylrt", 0, [dx, da]))
        L.append(line_of("ylrt", 0, [dy, da, dx]))
        for _ in range(self.n(tier, 150, 8000, scale)):
            ms = add_feature_deps(rng, gen_set(rng), 0.2)
            if rng.random() < 0.5:
                add_dependencies(rng, ms)
            L.append(line_of("ylrt", 0, ms))
        for _ in range(self.n(tier, 80, 4000, scale)):
            L.append(line_of("ylrt", 0, gen_multirev(rng)))
        for _ in range(self.n(tier, 200, 8000, scale)):
            ms = gen_multirev(rng) if rng.random() < 0.25 else add_feature_deps(rng, gen_set(rng), 0.2)
            L.append("\t".join(["ylrt", "0"] + pre_ops(rng, ms) + [enc_mod(m) for m in ms]))
        return L


def parse_records(s):
    """records printed by the driver -> list of (name, rev, impl, groups)"""
    if s == "-":
        return []
    return [tuple(r.split(",")) for r in s.split("|")]


class YlOracle:
    """C19 on the implementation: the generated yang-library data are valid and list every module with the right
    kind, revision and enabled features; a context rebuilt from the printed data with the same sources has the same
    modules, revisions, implemented flags and enabled features, equal compiled modules and (for the same order) the
    same hash; content-id is what was asked for"""
    name = "yl-roundtrip"
    driver = "t_yl"

    def gen(self, rng, tier, scale=1.0):
        L = []
        k = int((5000 if tier == "thorough" else 300) * scale)
        for _ in range(k):
            L.append(line_of("ylrt", rng.choice([0, 0, EXPLICIT]), gen_set(rng)))
        for _ in range(k):
            L.append(line_of("ylrt", 0, gen_multirev(rng, pinned_only=rng.random() < 0.3)))
        return L

    def judge(self, line, out):
        from vlib import unhex
        if " # " not in out:
            return (None, "round trip did not complete: %s" % out[-200:])
        left, right = out.split(" # ")
        lw, rw = left.split(" "), right.split(" ")
        if len(lw) != 4 or len(rw) != 5:
            return (None, "driver answered %r" % out[-200:])
        entries, valrc, rbrc, recs_b = lw
        comp_eq, hash_eq, cid_ok, legacy, recs_a = rw
        if valrc != "0":
            return (None, "the yang-library data are not valid (rc %s)" % valrc)
        if rbrc != "0":
            return (None, "ly_ctx_new_ylmem failed (rc %s)" % rbrc)
        A, B = parse_records(recs_a), parse_records(recs_b)
        # the description lists every module of the context correctly
        ents = {}
        for e in entries.split("|"):
            kind, rest = e.split(":", 1)
            f = rest.split(",")
            ents[(f[0], f[1])] = (kind, f)
        for nm, rv, im, gs in A:
            e = ents.get((nm, rv))
            if not e:
                return (None, "module %s@%s of the context is not in the yang-library data" % (nm, rv))
            kind, f = e
            if (kind == "m") != (im == "1"):
                return (None, "module %s@%s: implemented %s but entry kind %s" % (nm, rv, im, kind))
            if kind == "m":
                en = [x.split(":")[0] for g in gs.split(";") for x in (g.split("+") if g else []) if x.endswith(":1")]
                if "+".join(en) != f[3]:
                    return (None, "module %s: enabled features %s, described %s" % (nm, en, f[3]))
            if unhex(f[2]) != b"urn:yl:" + unhex(nm):
                return (None, "module %s: namespace %r" % (nm, unhex(f[2])))
        # names with several revisions in the sources that some module imports without revision-date: which revision
        # such an import gets depends on what was implemented at the time of the import (known: yl-import-only-rev)
        srcs = [dec_mod(x) for x in line.split("\t")[2:]]
        multi = set(m["name"] for m in srcs if len([x for x in srcs if x["name"] == m["name"]]) > 1)
        loose = set(hexs(n) for m in srcs for n, r in m["imports"] if r is None and n in multi)
        if sorted(A) != sorted(B):
            da = [x for x in A if x not in B]
            db = [x for x in B if x not in A]
            known = bool(loose) and all(x[2] == "0" and x[0] in loose for x in da + db)
            return ("yl-import-only-rev" if known else None,
                    "rebuilt context differs: only in original %s, only in rebuilt %s" % (da, db))
        if comp_eq != "1":
            return ("yl-import-only-rev" if loose else None, "compiled modules differ after the round trip")
        if A == B and hash_eq != "1":
            return (None, "same ordered module list but different ly_ctx_get_modules_hash")
        if cid_ok != "1":
            return (None, "content-id is not the requested value")
        if legacy != "1":
            return (None, "legacy modules-state list disagrees with the context")
        return None


# ------------------------------------------------------------------------------------------------
# the round trip in every variant of the rebuilding context
# ------------------------------------------------------------------------------------------------
def x_spec(rng):
    ropts = 0
    if rng.random() < 0.65:
        for bit in (ENABLE_IMP, ALL_IMPL, REF_IMPL, EXPLICIT, NO_YL, PREFER_SD):
            if rng.random() < 0.3:
                ropts |= bit
    entry = rng.choice(["d", "mj", "mx", "pj", "px"])
    osrc = rng.choice("ccsb")
    rsrc = rng.choice("ccssb")
    target = "n" if (rsrc == "s" and rng.random() < 0.5) else "e"
    return ropts, entry, osrc, rsrc, target


def gen_chain(rng):
    """lib (implemented, features) <- 1..2 import-only modules (their groupings wrap the grouping of lib) <- svc
    (implemented); either lib or svc is loaded first; plus a direct importer sometimes"""
    used = set()
    lib = new_module(rng, used, impl=True, max_sub=rng.choice([0, 0, 1]))
    if not lib["groups"][0]:
        lib["groups"][0] = [("extra", False)]
    mids, prev = [], lib
    for _ in range(rng.choice([1, 1, 2])):
        mid = new_module(rng, used, impl=False, max_sub=0)
        mid["imports"] = [(prev["name"], prev["rev"] if (prev["rev"] and rng.random() < 0.5) else None)]
        mids.append(mid)
        prev = mid
    svc = new_module(rng, used, impl=True)
    svc["imports"] = [(prev["name"], prev["rev"] if (prev["rev"] and rng.random() < 0.5) else None)]
    if rng.random() < 0.5:
        ms = [lib, svc] + mids[::-1]           # lib first; svc brings the intermediaries in
    else:
        ms = [svc] + mids[::-1] + [lib]        # svc first: lib arrives import-only and is implemented afterwards
    if rng.random() < 0.4:
        app = new_module(rng, used, impl=True)
        app["imports"] = [(lib["name"], None)]
        ms.insert(rng.randrange(1, len(ms) + 1) if ms[0] is lib else len(ms), app)
    return ms, ms.index(lib)


def post_ops(rng, ms, j=None):
    """feature changes after all loads: on, off, on-then-off, partial (closed under if-feature)"""
    ops = []
    for _ in range(rng.choice([1, 1, 2, 3])):
        k = j if (j is not None and rng.random() < 0.8) else rng.choice([i for i, m in enumerate(ms) if not m.get("extra")])
        r = rng.random()
        if r < 0.35:
            spec = "*"
        elif r < 0.6:
            spec = "-"
        else:
            fs = closed_subset(rng, ms[k])
            spec = "+".join(hexs(f) for f in fs) if fs else "-"
        ops.append("Q:%d:%s" % (k, spec))
    return ops


# regression of seeded change C19-8: svc -> common (import-only) -> lib; lib:extra is enabled after svc was compiled
CHAIN_LINES = []
for _first in (0, 1):
    _lib = {"name": "lib", "rev": "2024-01-01", "impl": True, "groups": [[("extra", False)]], "imports": []}
    _common = {"name": "common", "rev": None, "impl": False, "groups": [[]], "imports": [("lib", None)]}
    _mid2 = {"name": "mid2", "rev": None, "impl": False, "groups": [[]], "imports": [("common", None)]}
    _svc = {"name": "svc", "rev": None, "impl": True, "groups": [[]], "imports": [("common", None)]}
    _svc2 = {"name": "svc2", "rev": None, "impl": True, "groups": [[]], "imports": [("mid2", None)]}
    _ms = [_lib, _svc, _common, _svc2, _mid2] if _first == 0 else [_svc, _common, _lib, _svc2, _mid2]
    _k = _ms.index(_lib)
    for _q in (["Q:%d:*" % _k], ["Q:%d:*" % _k, "Q:%d:-" % _k, "Q:%d:%s" % (_k, hexs("extra"))]):
        CHAIN_LINES.append("\t".join(["ylx", "0", "X:0:mj:c:c:e"] + _q + [enc_mod(m) for m in _ms]))

AUGMENT_ORDER_LINE = "\t".join(["ylx", "0", "X:0:mj:c:c:e"] + [enc_mod(m) for m in (
    {"name": "a2", "rev": None, "impl": True, "groups": [[]], "imports": [("m", None)]},
    {"name": "m", "rev": "2020-01-01", "impl": False, "groups": [[], [], []], "imports": []},
    {"name": "x", "rev": None, "impl": True, "groups": [[]], "imports": [("m", None)], "ikind": {"m": "a"}})])
SUB_SKIP_LINE = "\t".join(["ylx", "0", "X:0:mj:c:c:e", enc_mod(
    {"name": "m", "rev": "2020-01-01", "impl": True, "imports": [], "subg": (0, [[1, 2], [], [1, 3], []]),
     "groups": [[("a", True)], [("b", False)], [("c", True)], [("d", False)]]})])


class YlxOracle:
    """C19 on the implementation, every way of rebuilding: options of the rebuilding context (ENABLE_IMP_FEATURES,
    ALL_IMPLEMENTED, REF_IMPLEMENTED, EXPLICIT_COMPILE, NO_YANGLIBRARY, PREFER_SEARCHDIRS), module texts from the import
    callback / a search directory / both, ly_ctx_new_yldata / ylmem / ylpath with JSON and XML, into a new context
    (*ctx == NULL), an existing empty one, or one already holding some of the modules (other feature states, other
    revisions, implemented or not); module sets with import / augment / deviation dependencies in both list orders,
    features with if-feature dependencies, enabled sets empty / partial / full, set at load time or changed afterwards
    by lys_set_implemented (on, off, on-then-off; Q fields) with the dependent module reached through import-only
    modules whose groupings wrap the grouping with the feature's leaf.  Expected: the modules the original
    implements are implemented at the same revision with the same enabled features, every other module of the
    description is present, the implemented modules compile to the same schema."""
    name = "yl-variants"
    driver = "t_yl"

    def gen(self, rng, tier, scale=1.0):
        L = []
        # regression of seeded change C19-1 (NULL instead of the empty feature array): ca augments cb, cb has features,
        # rebuilt with ENABLE_IMP_FEATURES; and the same into a context that already holds cb with all features
        cb = {"name": "cb", "rev": "2024-02-02", "impl": True, "groups": [[("f1", False), ("f2", False)]], "imports": []}
        ca = {"name": "ca", "rev": "2024-01-01", "impl": True, "groups": [[]], "imports": [("cb", None)], "ikind": {"cb": "a"}}
        for entry in ("d", "mj", "mx"):
            L.append("\t".join(["ylx", "0", "X:%d:%s:c:c:e" % (ENABLE_IMP, entry)] + [enc_mod(m) for m in (ca, cb)]))
            L.append("\t".join(["ylx", "0", "X:%d:%s:s:s:n" % (ENABLE_IMP, entry)] + [enc_mod(m) for m in (ca, cb)]))
            L.append("\t".join(["ylx", "0", "X:0:%s:c:c:e" % entry, "P:1:*"] + [enc_mod(m) for m in (ca, cb)]))
        # submodule graphs (regression of seeded change C19-5: features of injected includes left out of the description):
        # YANG 1.0 chain m -> s1 -> s2 -> s3 and diamond, only the deep features enabled
        deep = lambda subg: {"name": "m", "rev": "2020-01-01", "impl": True, "imports": [], "subg": subg,
                             "groups": [[("a", False)], [("b", False)], [("c", True)], [("d", True)]]}
        for subg in ((0, [[1], [2], [3], []]), (0, [[1, 2], [3], [3], []]), (0, [[2], [], [3], [1]]),
                     (1, [[3, 1, 2], [2], [], [1, 2]])):
            for spec in ("X:0:mj:c:c:e", "X:%d:mx:s:s:n" % ENABLE_IMP, "X:0:d:c:b:e"):
                L.append("\t".join(["ylx", "0", spec, enc_mod(deep(subg))]))
            L.append("\t".join(["ylx", "0", "X:0:mj:c:c:e", "P:0:*", enc_mod(deep(subg))]))
        # regression (fixed in /repo 272016c): a submodule whose first include is already parsed and whose second include
        # is not included by the module - s3 is in the include closure and must be loaded, its feature d can be enabled
        skip = deep((0, [[1, 2], [], [1, 3], []]))
        skip["groups"] = [[("a", True)], [("b", False)], [("c", True)], [("d", False)]]
        L.append("\t".join(["ylx", "0", "X:0:mj:c:c:e", enc_mod(skip)]))
        L.append("\t".join(["ylx", "0", "X:0:mx:s:s:n", enc_mod(deep((0, [[1, 2], [], [1, 3], []])))]))
        # known finding yl-augment-order: m is implemented as a side effect of x in the original, explicitly in the rebuild
        L.append(AUGMENT_ORDER_LINE)
        # feature changes after the loads, dependencies through import-only modules (regression of seeded change C19-8)
        L += CHAIN_LINES
        for _ in range(int((4000 if tier == "thorough" else 250) * scale)):
            ms, j = gen_chain(rng)
            if rng.random() < 0.5:
                add_feature_deps(rng, ms)
            ropts, entry, osrc, rsrc, target = x_spec(rng)
            if rng.random() < 0.5:
                ropts = 0
            oopts = rng.choice([0, 0, 0, EXPLICIT])
            L.append("\t".join(["ylx", str(oopts), "X:%d:%s:%s:%s:%s" % (ropts, entry, osrc, rsrc, target)] +
                               post_ops(rng, ms, j) + [enc_mod(m) for m in ms]))
        n = int((12000 if tier == "thorough" else 700) * scale)
        for _ in range(n):
            r = rng.random()
            if r < 0.2:
                ms = gen_multirev(rng, pinned_only=rng.random() < 0.6)
            else:
                ms = gen_set(rng)
            if rng.random() < 0.2:
                # exactly the features of the deepest submodules (not included by the module itself) enabled
                for m in ms:
                    if m["impl"] and m.get("subg"):
                        direct = set(m["subg"][1][0])
                        m["groups"] = [[(f, k > 0 and k not in direct) for f, _ in g] for k, g in enumerate(m["groups"])]
            if rng.random() < 0.7:
                add_feature_deps(rng, ms)
            if rng.random() < 0.7:
                add_dependencies(rng, ms)
            if rng.random() < 0.15:
                # full / empty feature sets
                full = rng.random() < 0.5
                for m in ms:
                    if m["impl"]:
                        m["groups"] = [[(f, full) for f, _ in g] for g in m["groups"]]
            ropts, entry, osrc, rsrc, target = x_spec(rng)
            oopts = rng.choice([0, 0, 0, EXPLICIT, ENABLE_IMP, ALL_IMPL, ALL_IMPL | ENABLE_IMP, REF_IMPL])
            pre = pre_ops(rng, ms) if (target == "e" and rng.random() < 0.45) else []
            if rng.random() < 0.35:
                pre = pre + post_ops(rng, ms)
            L.append("\t".join(["ylx", str(oopts), "X:%d:%s:%s:%s:%s" % (ropts, entry, osrc, rsrc, target)] + pre +
                               [enc_mod(m) for m in ms]))
        return L

    def judge(self, line, out):
        from vlib import unhex
        f = line.split("\t")
        xs = [x for x in f[2:] if x.startswith("X:")][0].split(":")
        ropts = int(xs[1])
        srcs = [dec_mod(x) for x in f[2:] if not x.startswith(("X:", "P:", "Q:"))]
        if out in ("E", "Eyl"):
            return None         # the original context cannot be built from this set (not a round-trip question)
        if " # " not in out:
            return (None, "round trip did not complete: %s" % out[-200:])
        left, right = out.split(" # ")
        lw, rw = left.split(" "), right.split(" ")
        if len(lw) != 2 or len(rw) != 8:
            return (None, "driver answered %r" % out[-200:])
        valrc, rbrc = lw
        cdiff, pre, recs_a, recs_b, desc, truth, hash_a, hash_b = rw
        pre_ok = pre != "-" and "0" in pre.split(",")
        multi = set(m["name"] for m in srcs if len([x for x in srcs if x["name"] == m["name"]]) > 1)
        loose = set(hexs(n) for m in srcs for n, r in m["imports"] if r is None and n in multi)
        if valrc != "0":
            return (None, "the yang-library data are not valid (rc %s)" % valrc)
        # the description lists every enabled feature (lys_feature_value over all features of module and submodules)
        # exactly once and every submodule of the module with its revision
        D = dict(((e.split(",")[0], e.split(",")[1]), e.split(",")) for e in desc.split("|"))
        for e in truth.split("|"):
            nm, rv, fs, subs = e.split(",")
            d = D.get((nm, rv))
            if d is None:
                return (None, "module %s@%s is not in the yang-library data" % (nm, rv))
            if sorted(x for x in fs.split("+") if x) != sorted(x for x in d[2].split("+") if x):
                return (None, "module %s: enabled features %s, described %s" % (nm, fs, d[2]))
            if sorted(x for x in subs.split("+") if x) != sorted(x for x in d[3].split("+") if x):
                return (None, "module %s: submodules %s, described %s" % (nm, subs, d[3]))
        # every submodule of the include closure of a module is part of it (regression of the defect fixed in /repo
        # 272016c: an include after one that is already parsed was skipped)
        for m in srcs:
            if m.get("subg") and not m["extra"]:
                want = closure(m["subg"][1])
                t = [e.split(",") for e in truth.split("|") if e.split(",")[0] == hexs(m["name"])]
                for nm, rv, fs, subs in t:
                    have = set(int(unhex(x.split("@")[0]).decode().rsplit("-s", 1)[1]) for x in subs.split("+") if x)
                    if have != want:
                        return (None, "module %s: submodules of the include closure %s, loaded %s"
                                % (m["name"], sorted(want), sorted(have)))
        if rbrc != "0":
            # legitimate: only one revision of a module can be implemented; the populated context, or ALL_/REF_IMPLEMENTED
            # acting on an import with revision-date, may already have implemented another revision of a listed module
            if multi and (pre_ok or (ropts & (ALL_IMPL | REF_IMPL))):
                return None
            return (None, "rebuilding failed (rc %s)" % rbrc)
        A, B = parse_records(recs_a), parse_records(recs_b)
        Am = dict(((r[0], r[1]), r) for r in A)
        Bm = dict(((r[0], r[1]), r) for r in B)
        tag = lambda names: "yl-import-only-rev" if (loose and all(n in loose for n in names)) else None
        for k, r in Am.items():
            b = Bm.get(k)
            if r[2] == "1":
                if b != r:
                    return (None, "implemented module %s: original %s, rebuilt %s" % (k, r, b))
            elif b is None:
                return (tag([k[0]]), "module %s of the description is missing in the rebuilt context" % (k,))
            elif b[2] == "1":
                # legitimate: ALL_IMPLEMENTED / REF_IMPLEMENTED of the rebuilding context implement imported modules, and a
                # module that the populated context had implemented before cannot be made import-only again
                if not (pre_ok or (ropts & (ALL_IMPL | REF_IMPL))):
                    return (tag([k[0]]), "import-only module %s is implemented in the rebuilt context" % (k,))
            elif b != r:
                return (None, "import-only module %s: original %s, rebuilt %s" % (k, r, b))
        extra = [k for k in Bm if k not in Am]
        if extra and not pre_ok:
            # (modules that the populated context held before stay, whatever the description says)
            return (tag([k[0] for k in extra]), "rebuilt context has additional modules %s" % extra)
        # (a NO_YANGLIBRARY context counts ietf-datastores and ietf-yang-library as ordinary modules and hashes them too)
        if A == B and not (ropts & NO_YL) and hash_a != hash_b:
            return (None, "same ordered module list, ly_ctx_get_modules_hash %s and %s" % (hash_a, hash_b))
        if cdiff != "-":
            # legitimate: additional implemented modules may augment / deviate the listed ones
            more_impl = [k for k, b in Bm.items() if b[2] == "1" and (k not in Am or Am[k][2] != "1")]
            # known (yl-augment-order): the order of sibling nodes that come from different augment statements follows the
            # order in which the augmenting (sub)modules were registered, i.e. the history of the context, and the rebuild
            # implements the modules in list order; prints with the same lines in another order are marked ~
            order_only = all(x.endswith("~") for x in cdiff.split("+"))
            if not more_impl and order_only:
                return ("yl-augment-order", "compiled modules have their nodes in another order after the round trip: %s" % cdiff)
            if not more_impl:
                return ("yl-import-only-rev" if loose else None, "compiled modules differ after the round trip: %s" % cdiff)
        return None
