"""C14 - merge and duplicate preserve content and independence"""
from props import comps_c14x, comps_merge, comps_tree, oracles

PID = "C14"
LEVEL = "proof"


def components():
    return [comps_merge.MergeModel(), comps_tree.TreeIO()]


def oracles_():
    return [oracles.MergeDup(), comps_c14x.DupMatrix(), comps_c14x.MergeKinds(), comps_c14x.DupFamilies(),
            comps_c14x.MergeFamilies(), comps_c14x.OriginUse()]


TRUSTED = [
    "ocaml/tree_io.ml (reads / prints lyx dumps and the schema line), tools/treeenc.py (yanggen module -> schema line with "
    "sids in lys_getnext order), tools/yanggen.py (modules and instances), impl/lyx.c (dump, merge, inv commands)",
    "impl/t_c14x.c (lyx.c included unchanged + the four lyd_dup_* entry points with a parent argument, lyd_merge_tree / "
    "lyd_merge_module with a recording callback, anydata values / opaque nodes, extended dump with flags and private pointers, "
    "heap-disjointness and context-ownership walks), tools/props/comps_c14x.py (generator additions: anydata / anyxml / when / "
    "modules m2 m3 m4 / rpc / features; dup_expect and merge_ref: the expected trees computed from the dumps of the operands, "
    "written from the documentation of the options, NOT verified)",
]

ASSUMPTIONS = [
    "the theorems assume operands that are canonical (Tree.Canon) and have unique instance identities (TreeP.UniqIds; instances "
    "of duplicate-instance lists may repeat); the correspondence run evaluates canonb / uniq_idsb on every parsed operand it "
    "feeds (C14_hypotheses_checkable turns that into the hypotheses) and libyang's validation is what establishes uniqueness; "
    "the path-wise and level-wise theorems also assume Tree.schema_okb (evaluated by treeio on every generated schema)",
    "model fragment: the sibling anchor search of lyd_insert_node on canonical siblings only; one module without augments, "
    "when, if-feature, operations; no opaque nodes, no LYD_NEW / when flags, no hashes / sorting trees; options = "
    "LYD_MERGE_DEFAULTS and LYD_MERGE_WITH_FLAGS (LYD_MERGE_DESTRUCT is not in the model: both modes are compared with the one "
    "function); anydata is a term kind of the model (KAny) but the T2 generator produces no anydata instance",
]

MANIFEST = {
    "category": "proof",
    "text": "Coq (Properties_C14_merge.v, 21 theorems, each closed under the global context) about Merge.merge, a branch-by-branch "
            "transcription of lyd_merge_siblings / lyd_merge_sibling_r (matching by instance identity, duplicate-instance cache, "
            "leaf overwrite with default-flag handling and LYD_MERGE_DEFAULTS / WITH_FLAGS, the walk up of "
            "lyd_np_cont_dflt_del/_set, recursion without keys, insertion at the canonical position) on the shared Tree.v model. "
            "For all schemas, option pairs and operands with the named hypotheses (Canon = canonical sibling order, UniqIds = "
            "unique instance identities, schema_okb where paths are used): the merged tree is canonical again (C14_merge_canon: "
            "Canon T, Canon S) and keeps identities unique (C14_merge_uniq); the k-th source node of a class (instance identity; "
            "full equality for duplicate-instance lists) meets the k-th node of that class in the result, which has absorbed it "
            "(C14_merge_contains_source, Canon T S + UniqIds S; C14_absorbed_children / _term_value / _dup_equal unfold "
            "'absorbed': the source's value for every explicit term - every term with LYD_MERGE_DEFAULTS -, full equality of "
            "duplicate instances, recursively); the same by instance path for nodes that have one "
            "(C14_merge_contains_source_by_path), with C14_merge_contains_leaflist_below / _top and C14_merge_copies_new; target "
            "nodes whose path the source lacks are unchanged (C14_merge_keeps_rest), unmatched children / top-level nodes are kept "
            "(C14_merge_keeps_unmatched_child / _top) and a target instance of a duplicate-instance list keeps a fully equal "
            "instance (C14_merge_keeps_dup_below / _top; only default flags may change) - together every target node, see the "
            "header of the Properties file; merging the same source again changes nothing, duplicate-instance lists included "
            "(C14_merge_idempotent: Canon T S + UniqIds S); merge into the empty tree yields the source (C14_merge_empty; the "
            "LYD_NEW mark of the copies is not in the model); C14_merge_level gives the level-wise structure. "
            "C14_merge_source_pure and C14_dup_equal are trivial in the model (the source is a function argument; Merge.dup is "
            "the identity): source-untouched, same-result-when-consumed and every dup law rest on T2 / the oracles, not on them. "
            "C14_hypotheses_checkable: the boolean checkers T2 evaluates imply Canon and UniqIds. Tie (T2): the "
            "extracted model and lyd_merge_siblings run on the same dumped operands with all 8 option combinations (destructive "
            "and non-destructive against the ONE model function), the source dump before/after, a second merge and the invariant "
            "checker; dumps must agree byte for byte incl. default flags and metadata (component mergemodel); the Tree foundation "
            "is tied by component treeio (parse, canonb, shuffled re-insertion with insert_node, print). ORACLE LEVEL ONLY (no "
            "model): mergedup checks the merge laws and duplicates through the API: equal per option set, into another context, "
            "independent (editing / freeing either tree leaves the other's dump unchanged); ASan build in the thorough tier. "
            "dupmatrix / mergekinds (comps_c14x.py, driver t_c14x) extend this to what T2 does not feed: anydata / anyxml values "
            "of every representation, opaque nodes with attributes (API- and parser-made), metadata on every node kind, a second "
            "module, an rpc tree. dupmatrix: LYD_DUP_RECURSIVE / NO_META / WITH_PARENTS / WITH_FLAGS / WITH_PRIV in all "
            "combinations x lyd_dup_single / _siblings / _single_to_ctx / _siblings_to_ctx x with / without a parent argument "
            "(same and other context, matching / not matching ancestor) x node position classes; expected tree, returned node "
            "and refusals are computed from the dump of the original (dup_expect), plus heap disjointness, context ownership of "
            "every node, original unchanged, duplicate intact after editing / freeing the other. mergekinds: LYD_MERGE_DESTRUCT / "
            "DEFAULTS / WITH_FLAGS in all combinations x lyd_merge_tree / _siblings / _module (callback log, module filter), "
            "empty / equal / nested source, empty target; result, LYD_NEW marks, callback calls, source afterwards and a second "
            "merge are compared with a reference merge of the dumped operands (merge_ref); consumed sources are duplicates or "
            "freshly parsed trees owning the sorting trees of long system-ordered (leaf-)lists. dupfamilies / mergefamilies run "
            "the same judges over schema families: module m3 defines equal local names at the same level as m1 (augments into "
            "m1's containers, lists, choices inside them, rpc input; top-level nodes named like m1's), m2 is a third module; the second "
            "context holds the same modules in another load order with another feature set; dumps are module-qualified; "
            "dupfamilies biases to the *_to_ctx entry points (incl. a parent named like an ancestor but of the other module, "
            "which must be refused), duplicates about half of the cross-context duplicates back and requires the whole forest "
            "to survive context 1 -> 2 -> 1 unchanged; mergefamilies merges in the second context a source duplicated from the "
            "first. originuse: origin format x later use of the copy - sources parsed from XML, JSON and LYB (validated and "
            "LYD_PARSE_ONLY) with every value type that keeps format-dependent state (unions of every member kind as leaf, key, "
            "leaf-list and metadata value, instance-identifier, identityref, leafref, binary, bits, decimal64, anydata); every "
            "duplicate and merge result is judged as above and then used: three printers (text equal to the original's, LYB "
            "bytes when flags were copied and no anydata), parse back + lyd_compare_siblings, lyd_validate_all on the copy "
            "(succeeds, changes nothing), compare with the original.",
    "note": "PARTIAL. (1) Independence of a duplicate / of the merge source is a heap property: the value model cannot express "
            "it (Merge.dup is the identity); it rests on the oracles (pointer-disjointness walk, dumps after editing / freeing, "
            "ASan in the thorough tier) alone. (2) The 21 theorems are about Merge.merge only; no _partial / _refuted theorem "
            "exists. Canon / UniqIds / schema_okb are the domain of valid trees (checked on every operand by T2), not a "
            "weakening. C14_merge_keeps_dup_below / _top rest on MergeP.dp_stmt (updating an instance with a fully equal source "
            "instance changes only default flags) and the level lemma MergeP.level_fn; C14_merge_idempotent carries the "
            "positional absorbed relation MergeP.AbsN and cache invariants through both merges and assumes nothing about the "
            "target's identities. (3) lyd_dup_* options (parents, no-meta, flags, private pointers, other context, parent "
            "argument), lyd_merge_tree / lyd_merge_module, LYD_MERGE_DESTRUCT and LYD_NEW are NOT in the Coq model: they are "
            "decided by dupmatrix / mergekinds against expectations written in Python (dup_expect, merge_ref: trusted, not "
            "verified). (4) Not fed to the model by T2 although partly expressible: anydata (KAny exists, no instance is "
            "generated); not in Tree.v at all: opaque nodes, several modules / augments, when / LYD_NEW flags, hashes / sorting "
            "trees (C04). merge_ref leaves the default mark of non-presence containers, the order inside system-ordered lists "
            "and the top-level order between modules to mergemodel / the invariant checker, and compares anydata data trees "
            "without their metadata (as lyd_compare_single does). (5) Outside everything: LYD_DUP_NO_EXT / extension data (schema "
            "mount), notifications, rpc output; a top-level choice augmented with a case of another module (the parsers reject "
            "such data: known finding toplevel-choice-foreign-case, C02); opaque values with an unresolvable prefix "
            "(lyd_compare_single is not reflexive for them: reported); a leafref member in a union typedef used by a metadata "
            "annotation (aborts in lyplg_type_store_leafref: reported). anydata / anyxml nodes with a NULL value of every value "
            "type are generated and duplicated / merged / dumped but never printed as LYB (the LYB values come from copies taken "
            "before the edits), so the strlen(NULL) of lyb_print_node_any reported by the difftree slice is not reachable here. "
            "Open known finding of these oracles: dup-to-ctx-union-member (a union value copied into another context changes "
            "its member: the LYB round trip of the copy differs). Fixed ones (known_findings.d/c14x.json): "
            "dup-to-ctx-any-tree-ctx 328b4fe, dup-to-ctx-key-lookup 2848a32, merge-opaque-nested-dup-inst 1e72cd5, "
            "merge-opaque-value-update aad6b04, compare-opaque-name-ignored c60598c; their witnesses are regression cases in "
            "corpus/dupmatrix.txt and corpus/mergekinds.txt.",
    "technique": "Coq proof about a transcribed functional model + differential correspondence on libyang dumps + metamorphic API "
                 "oracles with independently computed expectations (ASan in the thorough tier)",
}
