"""C14 - merge and duplicate preserve content and independence"""
from props import comps_c14x, comps_merge, comps_tree, oracles

PID = "C14"
LEVEL = "proof"


def components():
    return [comps_merge.MergeModel(), comps_tree.TreeIO()]


def oracles_():
    return [oracles.MergeDup(), comps_c14x.DupMatrix(), comps_c14x.MergeKinds(), comps_c14x.DupFamilies(),
            comps_c14x.MergeFamilies(), comps_c14x.OriginUse()]


TRUSTED = [
    "ocaml/tree_io.ml (reads / prints lyx dumps and the schema line), tools/treeenc.py (yanggen module -> schema line with "
    "sids in lys_getnext order), tools/yanggen.py (modules and instances), impl/lyx.c (dump, merge, inv commands)",
    "impl/t_c14x.c (lyx.c included unchanged + the four lyd_dup_* entry points with a parent argument, lyd_merge_tree / "
    "lyd_merge_module with a recording callback, anydata values / opaque nodes, extended dump with flags and private pointers, "
    "heap-disjointness and context-ownership walks), tools/props/comps_c14x.py (generator additions: anydata / anyxml / when / "
    "second module / rpc; dup_expect and merge_ref: the expected trees computed from the dumps of the operands)",
]

ASSUMPTIONS = [
    "the theorems assume operands that are canonical (Tree.Canon) and have unique instance identities (MergeP.UniqIds); the "
    "correspondence run checks canonb on every parsed operand it feeds (component treeio) and libyang's validation is what "
    "establishes uniqueness; schemas satisfy Tree.schema_okb (checked by treeio on every generated schema)",
    "the sibling anchor search of lyd_insert_node is modelled on canonical siblings only; one module; no opaque nodes, no "
    "LYD_NEW / when flags, no hashes",
]

MANIFEST = {
    "category": "proof",
    "text": "Coq (Properties_C14_merge.v, closed under the global context) about Merge.merge, a branch-by-branch transcription of "
            "lyd_merge_siblings / lyd_merge_sibling_r (matching by instance identity, duplicate-instance cache, leaf overwrite with "
            "default-flag handling and LYD_MERGE_DEFAULTS / WITH_FLAGS, the walk up of lyd_np_cont_dflt_del/_set, recursion without "
            "keys, insertion at the canonical position) on the shared Tree.v model: the merged tree is canonical again "
            "(C14_merge_canon) and keeps identities unique (C14_merge_uniq); every explicit source node addressed by its instance "
            "path is in the result with the source's value (C14_merge_contains_source_by_path) and, at full strength and by position "
            "among equal instances, every source subtree is absorbed by the result (C14_merge_contains_source); target nodes whose path the source "
            "does not contain are unchanged (C14_merge_keeps_rest); merging the same source again changes nothing, "
            "duplicate-instance lists included (C14_merge_idempotent); merge into the empty tree yields the source, duplicate-instance lists included (C14_merge_empty); "
            "level-wise: unmatched children - also instances of duplicate-instance lists - are kept and leaf-list instances are "
            "contained by value (C14_merge_level, C14_merge_keeps_unmatched_child/_top, C14_merge_keeps_dup_below/_top - a duplicate instance that a source instance equals "
            "stays fully equal -, C14_merge_contains_leaflist_below/_top, C14_merge_copies_new); no _partial theorem is left. Tie: the "
            "extracted model and lyd_merge_siblings run on the same dumped operands with all 8 option combinations (destructive "
            "and non-destructive against the ONE model function, so both give the same result), the source dump before/after, a "
            "second merge and the invariant checker; dumps must agree byte for byte incl. default flags and metadata "
            "(component mergemodel); the Tree foundation itself is tied by component treeio (parse, canonb, shuffled re-insertion "
            "with insert_node, print). The API oracle mergedup (also under ASan) checks the same laws plus duplicates: equal per "
            "option set, into another context, and independent (editing / freeing either tree leaves the other's dump unchanged). "
            "Oracles dupmatrix / mergekinds (comps_c14x.py, driver t_c14x) extend this to what Tree.v does not hold: anydata / anyxml "
            "values of every representation, opaque nodes with attributes (created by the API and by the parser), metadata on every "
            "node kind, a second module, an rpc tree. dupmatrix: LYD_DUP_RECURSIVE / NO_META / WITH_PARENTS / WITH_FLAGS / WITH_PRIV in "
            "all combinations x lyd_dup_single / _siblings / _single_to_ctx / _siblings_to_ctx x with / without a parent argument "
            "(same and other context, matching / not matching ancestor) x node position classes; the expected tree, the returned "
            "node and the refusals are computed from the dump of the original (dup_expect), plus heap disjointness (no common "
            "block), context ownership of every node, original unchanged, duplicate intact after editing / freeing the other. "
            "mergekinds: LYD_MERGE_DESTRUCT / DEFAULTS / WITH_FLAGS in all combinations x lyd_merge_tree / _siblings / _module "
            "(callback log, module filter), empty / equal / nested source, empty target; result, LYD_NEW marks, callback calls, "
            "source afterwards and a second merge are compared with a reference merge of the dumped operands (merge_ref); consumed "
            "sources are duplicates or freshly parsed trees that own the sorting trees of long system-ordered (leaf-)lists. "
            "dupfamilies / mergefamilies run the same two judges over schema FAMILIES: a second module m3 defines equal local names "
            "at the same level as m1 (augments into m1's containers, lists, choices / cases, rpc input; top-level nodes named like "
            "m1's), a third module m2; the second context holds the same modules loaded in another order with another feature set; "
            "dumps are module-qualified. dupfamilies biases the matrix to lyd_dup_single_to_ctx / lyd_dup_siblings_to_ctx (with / "
            "without WITH_PARENTS / RECURSIVE, parent arguments of the other context incl. one named like an ancestor but of the "
            "other module, which must be refused), duplicates half of the cross-context duplicates back (context 1 -> 2 -> 1) and "
            "requires the whole forest to survive the round trip unchanged (dump, private pointers, lyd_compare_siblings); "
            "mergefamilies merges, in the second context, a source duplicated from the first one. originuse covers origin format x "
            "later use of the copy: source trees parsed from XML, JSON and LYB documents (validated and LYD_PARSE_ONLY) with every "
            "value type that keeps format-dependent state (unions of every member kind as leaf, key, leaf-list and metadata value, "
            "instance-identifier, identityref, leafref, binary, bits, decimal64, anydata); every duplicate (all entry points, other "
            "context) and merge result (copying and consuming, into an empty target) is judged as above and then USED: printed by "
            "the three printers (text equal to the original's; LYB bytes equal when flags were copied), parsed back and compared "
            "with lyd_compare_siblings, lyd_validate_all on the copy (must succeed and change nothing), compared with the original.",
    "note": "PARTIAL. (1) Independence of a duplicate / of the merge source is a heap property (no shared mutable state): the value "
            "model cannot express it, Merge.dup is the identity; only the sanitizer-backed oracle looks at it. (2) No "
            "_partial theorem is left in Properties_C14_merge.v (Canon / UniqIds / schema_okb are the domain of valid trees, checked "
            "on every operand by T2). C14_merge_contains_source is FULL, in positional form: the k-th source node of a class (class = "
            "instance identity, full equality for duplicate-instance lists) meets the k-th node of that class in the result, which "
            "has absorbed it (MergeP.AbsN; C14_absorbed_children / _term_value / _dup_equal unfold that: source values of explicit "
            "terms, full equality of duplicate instances, recursively) - multiplicities, key-less list instances and what is "
            "below them included; C14_merge_contains_source_by_path is the same by instance path for the nodes that have one, "
            "with C14_merge_contains_leaflist_below / _top and C14_merge_copies_new. C14_merge_keeps_rest (target nodes with an "
            "instance path the source lacks are unchanged) together with C14_merge_keeps_unmatched_child / _top (any child of an "
            "addressable target node, or top-level node, that no source sibling matches stays unchanged) and "
            "C14_merge_keeps_dup_below / _top (an instance of a duplicate-instance list that a source instance equals stays "
            "fully equal, only default flags may change) covers every target node (case analysis in the header of the "
            "Properties file); the last two rest on dp_stmt and the function-level level lemma level_fn. "
            "C14_merge_idempotent is FULL now (was _partial: the hypothesis that no source node is an instance of a "
            "duplicate-instance list is removed): a positional absorbed relation (MergeP.AbsN: the k-th equal source instance is "
            "absorbed by the k-th equal instance of the result) and cache invariants (E1 / E2 / CI2) are carried through both "
            "merges, together with the lemma that updating an instance with a fully equal source instance changes only default "
            "flags (dp_stmt), so instances of key-less lists stay in their class while their siblings are merged; nothing is "
            "assumed about the target's identities.  C14_merge_level gives the level-wise structure (children of the merged "
            "node = MFold MStep of the source children over the target children) these rest on. (3) lyd_dup_* options (parents, no-meta, flags, to another context, parent "
            "argument) are not in the Coq model; they are decided by the oracle dupmatrix against an independent expectation. "
            "(4) Not in Tree.v: LYD_NEW, opaque nodes, anydata, several modules, hashes / lyds trees (C04); merge on these is decided "
            "by mergekinds against a Python reference (which leaves the default mark of non-presence containers and the order inside "
            "system-ordered lists to mergemodel / the invariant checker). LYD_DUP_NO_EXT / extension data (schema mount) and "
            "notifications are not exercised; a TOP-LEVEL choice is not augmented with a case of another module (the data parsers "
            "reject such a node: reported, C02) and opaque values with an unresolvable prefix are not generated (lyd_compare_single "
            "is not reflexive for them: reported). anydata / anyxml nodes with a NULL value of every value type (string types "
            "included) ARE generated (xanyset N) and duplicated / merged / dumped, but such a tree is never printed as LYB (the LYB "
            "values are printed from copies taken before the edits), so the strlen(NULL) of lyb_print_node_any reported by the "
            "difftree slice is not reachable from these oracles. Open finding dup-to-ctx-union-member (cross-context copy of a union value changes its member: LYB round trip "
            "of the copy differs). A leafref member inside the union typedef used by a metadata annotation aborts in "
            "lyplg_type_store_leafref (realtype not resolved; reported) - the originuse module has no such member. Findings of these "
            "oracles fixed so far (known_findings.d/c14x.json: 328b4fe 2848a32 "
            "1e72cd5 aad6b04 c60598c); their witnesses are regression cases in corpus/dupmatrix.txt and corpus/mergekinds.txt.",
    "technique": "Coq proof about a transcribed functional model + differential correspondence on libyang dumps + metamorphic API "
                 "oracle under ASan",
}
