"""C14 - merge and duplicate preserve content and independence"""
from props import oracles

PID = "C14"
LEVEL = "exploration"


def components():
    return []


def oracles_():
    return [oracles.MergeDup()]


MANIFEST = {
    "category": "exploration",
    "text": "No Coq model of lyd_merge/lyd_dup yet: explored by an API oracle on generated tree pairs: source untouched, destructive = "
            "non-destructive result, idempotence, source content present, merge into empty = copy, dup equal per option set and into "
            "another context, editing/freeing either operand leaves the other intact (ASan build).",
    "note": "Testing only (random generation from VERIF_SEED), run under ASan as well.",
    "technique": "metamorphic API oracle under ASan (no proof yet)",
}
