"""C12 - printed XML / JSON are standard conformant and mean the same to any parser"""
from props import comps, comps_json, oracles

PID = "C12"
LEVEL = "proof"


def components():
    return [comps.XmlEsc(), comps_json.JsonEsc(), comps_json.JsonStr()]


def oracles_():
    return [oracles.StdReaders()]


MANIFEST = {
    "text": "Coq theorems: an independent RFC 8259 string reader recovers every valid UTF-8 string from json_print_string's output "
            "(C12_json_string_std), an independent XML 1.0 character-data reader (with line-end and attribute-value normalisation) "
            "recovers it from lyxml_dump_text's output under exactly the hypotheses the proof forces (no CR; no TAB/LF/CR in "
            "attributes), with refutation witnesses without them. Printer models tied by scraped tables (T1) and differential runs "
            "(T2); documents printed by libyang are read by expat and Python json and compared with the instance (search).",
    "note": "Modelled C: lyxml_dump_text, json_print_string (+ lexers). Document-level structure (namespaces, member qualification, "
            "metadata objects) is only checked by the expat/json oracle on generated instances, which is testing.",
    "technique": "Coq proof (independent standard readers vs printer models) + correspondence + expat/json oracle",
}
