"""C12 - printed XML / JSON are standard conformant and mean the same to any parser"""
from props import comps, comps_doc, comps_json, oracles

PID = "C12"
LEVEL = "proof"


def components():
    return [comps.XmlEsc(), comps_json.JsonEsc(), comps_json.JsonStr(), comps_doc.DocModel()]


def oracles_():
    return [comps.XmlEscStd(), oracles.StdReaders(), comps_doc.WellFormedX()]


MANIFEST = {
    "text": "Coq theorems: an independent RFC 8259 string reader recovers every valid UTF-8 string from json_print_string's output "
            "(C12_json_string_std); an independent XML 1.0 character-data / attribute-value reader (strict UTF-8 decoding, Char "
            "check, predefined entities and character references, line-end handling 2.11, attribute-value normalisation 3.3.3) "
            "recovers every string of XML Chars - CR, TAB and LF included - from lyxml_dump_text's output, as element content "
            "(C12_xml_text_std) and as attribute value (C12_xml_attr_std), with no further hypothesis: since commits 6fdbff2 / "
            "47fa563 the printer writes CR as &#xD; and, in attributes, TAB/LF as &#x9;/&#xA; (the former findings xml-cr and "
            "xml-attr-ws and their _refuted theorems are gone; positive examples with CR/TAB/LF instead). The Char hypothesis is "
            "necessary (C12_xml_text_std_nonchar_refuted: a non-Char such as U+0001 is written raw). Printer models tied by scraped "
            "tables (T1: the scraper understands exactly the present shape of lyxml_dump_text's switch and fails loudly "
            "otherwise) and differential runs (T2); lyxml_dump_text's output for CR/TAB/LF-rich strings is read by expat at "
            "function level, and whole documents printed by libyang are read by expat and Python json and compared with the "
            "instance (search). A deviation of either is a plain violation.",
    "note": "Modelled C: lyxml_dump_text, json_print_string (+ lexers). Document-level structure (namespaces, member qualification, "
            "metadata objects) is only checked by the expat/json oracle on generated instances, which is testing. The instance "
            "generator puts no CR into metadata values (TAB/LF it does); CR in attribute values is covered by the theorem, T2 and "
            "the function-level expat oracle only.",
    "technique": "Coq proof (independent standard readers vs printer models) + correspondence + expat/json oracles",
}
