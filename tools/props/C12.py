"""C12 - printed XML / JSON are standard conformant and mean the same to any parser"""
from props import comps, comps_doc, comps_json, oracles

PID = "C12"
LEVEL = "proof"


def components():
    return [comps.XmlEsc(), comps_json.JsonEsc(), comps_json.JsonStr(), comps_doc.DocModel(), comps_doc.QnTagModel()]


def oracles_():
    return [comps.XmlEscStd(), oracles.StdReaders(), comps_doc.WellFormedX(), comps_doc.QNamesX(), comps_doc.SingleNodeX()]


MANIFEST = {
    "text": "Coq theorems: an independent RFC 8259 string reader recovers every valid UTF-8 string without NUL from json_print_string's output (C12_json_string_std; the NUL "
            "exclusion is necessary: _nul_refuted; reader side, outside C12 proper: lyjson_string and the RFC 8259 reader "
            "disagree on backslash-b, surrogate pairs and non-hex u-escapes: C12_json_lexer_std_refuted); an independent XML 1.0 character-data / attribute-value reader (strict UTF-8 decoding, Char "
            "check, predefined entities and character references, line-end handling 2.11, attribute-value normalisation 3.3.3) "
            "recovers every string of XML Chars - CR, TAB and LF included - from lyxml_dump_text's output, as element content "
            "(C12_xml_text_std) and as attribute value (C12_xml_attr_std), with no further hypothesis: since commits 6fdbff2 / "
            "47fa563 the printer writes CR as &#xD; and, in attributes, TAB/LF as &#x9;/&#xA; (the former findings xml-cr and xml-attr-ws are fixed by these commits; C12_xml_text_std_cr_tab_lf_example). The Char hypothesis is "
            "necessary (C12_xml_text_std_nonchar_refuted: a non-Char such as U+0001 is written raw). Printer models tied by scraped "
            "tables (T1: the scraper understands exactly the present shape of lyxml_dump_text's switch and fails loudly "
            "otherwise) and differential runs (T2); lyxml_dump_text's output for CR/TAB/LF-rich strings is read by expat at "
            "function level, and whole documents printed by libyang are read by expat and Python json and compared with the "
            "instance (search). A deviation of either is a plain violation. DOCUMENT LEVEL (slice doc, Tree subset): "
            "C12_xml_doc_std / _sel / _single / _checked (hypotheses: tabs_okb, Canon, DocN V_std = values are XML Chars): "
            "a namespace-aware XML 1.0 reader written from the recommendations (elements, "
            "attributes with both quote characters, character data and attribute values through StdText, Element Type Match, "
            "Unique Att Spec, Prefix Declared, Attributes Unique) applied to xml_print (the transcription of printer_xml.c) "
            "reports no top-level character data and exactly the generic element trees of the selected forest: namespaces of "
            "elements and metadata attributes, values, order - also when two modules share a prefix (since 91f0178 the second one gets a numbered prefix: regression Example C12_xml_doc_prefix_clash_regression) - for metadata keys distinct per node (C12_xml_doc_dup_meta_refuted); several top-level nodes are well-formed content, "
            "not a document (C12_xml_doc_std_siblings_refuted). C12_xml_doc_start_tags: the namespace law of the start tags on the "
            "printer itself (no prefix defined twice in a tag or re-defined in the scope, default namespace = module of the "
            "node, the prefix of every metadata attribute bound in scope to the namespace of its annotation's module) - the "
            "law QNamesX checks on libyang's bytes; the definitions for prefixes INSIDE values (identityref, "
            "instance-identifier, xpath1.0) are modelled per start tag in XmlQn.v (values = literal pieces and module "
            "references printed with the module's own prefix; xml_print_node_open / xml_print_meta / xml_print_ns as coded "
            "after e9b7253: reserved value modules, REQUIRED definitions, attribute prefixes avoiding reserved ones, hidden "
            "definitions not reused): C12_xml_value_prefixes / _tree - under ANY ancestor scope, if the value modules of a tag "
            "do not need one prefix for two namespaces, no prefix is defined twice in the tag and every module reference of "
            "the node value and the metadata values, and every metadata attribute prefix, resolves in the scope of the element "
            "to the right namespace; C12_xml_value_prefixes_shared_refuted = listed finding xml-same-prefix-value-clash; "
            "regression Examples in XmlQn.v for the shapes of the seeded changes C12-3 and C12-8 "
            "(qn_value_prefix_redefined, qn_generated_prefix_avoids_reserved). Tie (T2 QnTagModel, extracted "
            "XmlQn.open_tag): for generated containers and leaves of the value-type module family (own prefixes distinct / "
            "shared / equal to a generated prefix; metadata and node values of identityref, instance-identifier, union and "
            "plain types, clash cases included) what libyang prints in the two nested start tags after the element name - "
            "namespace definitions, metadata attributes with prefixes and values - is byte-identical to the model's. The "
            "text of the NODE value (element content) with its prefixes is not part of that comparison (QNamesX checks its "
            "meaning with expat). C12_json_doc_std / _sel / _checked (tabs_okb, parents_ltb, Canon, JDocN utf8_nonul; the rendering alone: "
            "C12_json_rendering_std): an RFC 8259 reader (grammar of "
            "sections 2-7 + StdText strings) applied to json_print (the transcription of printer_json.c with its state) for "
            "EVERY node selection recovers the RFC 7951 value of the selected part of the forest (qualifiers, arrays, string / "
            "literal classes, [null], RFC 7952 metadata objects), through C01_json_print_is_rfc7951 (the state machine prints "
            "the RFC 7951 rendering of the selected part; since f592167 also in trim mode: regression Example C12_json_trim_regression). Tie as for C01 (byte-identical output, the "
            "standard readers of the Coq development run on libyang's bytes). WellFormedX: expat / json on libyang's output for "
            "opaque nodes, anydata / anyxml and operations. QNamesX: on the value-type module family of RoundTripTypes (every "
            "type as leaf, key, leafref, union member, annotation; identities of three modules; module families in which two "
            "or three modules legally share ONE prefix) expat with namespace processing reads libyang's XML and every prefix "
            "inside a value (identityref, instance-identifier, xpath1.0, unions) and every metadata attribute must stand for "
            "the namespace it stands for in the input document; Python json reads the JSON and identityref values must name "
            "the right module. SingleNodeX: every node of trees with runs of list / leaf-list / opaque instances printed ALONE and with "
            "siblings from the middle of a run (JSON, XML): python json / expat must read it and a top-level node must parse "
            "back to itself (the former finding print-json-single-list-instance-open-array is fixed by 6dea40e). Fixed: xml-value-ns-redeclared (a prefix defined twice in one start tag; e9b7253). Listed: "
            "xml-same-prefix-value-clash (values are printed with the modules' own prefixes; open).",
    "note": "Modelled C: lyxml_dump_text, json_print_string (+ lexers), xml_print_node_open / xml_print_meta / xml_print_ns "
            "/ xml_prefix_reserved for prefixed values (XmlQn.v, start tags only), xml_print_data and json_print_data on "
            "the Tree subset "
            "(one data module, shrink mode, no anydata / opaque nodes / unions / tagged with-defaults modes). Outside that subset the "
            "document-level structure is only checked by the expat/json oracles on generated instances, which is testing. Since "
            "2c539f8 (matching_node tells namespaces apart; the former assertion failure) WellFormedX prints opaque nodes of "
            "unknown namespaces as JSON too; that exposed the listed finding json-opaq-array-attr (an \"@name\" member inside an "
            "array). The instance "
            "generator puts no CR into metadata values (TAB/LF it does); CR in attribute values is covered by the theorem, T2 and "
            "the function-level expat oracle only.",
    "technique": "Coq proof (independent standard readers vs printer models) + correspondence + expat/json oracles",
}
