"""comps_depset.py - correspondence component of slice `depset` (property C11): the dependency set that
lys_unres_dep_sets_create() computes for a module vs coq/DepSet.v; driver impl/t_depset.c.

A case is a family of 2-7 modules m0 .. m(n-1), loaded in this order (imports point to smaller indices only, so the order
of ctx->list is the order of the indices), each with a random subset of: features, data nodes, a grouping, a typedef, an
augment / a deviation of an imported data module; and the module whose set is asked for."""
from props.comps import Comp


class DepSets(Comp):
    """lys_unres_dep_sets_create(ctx, set, mod) vs DepSet.dep_set_of"""
    name = "depset"
    driver = "t_depset"
    slice = "depset"

    def gen(self, rng, tier, scale=1.0):
        L = []
        for _ in range(self.n(tier, 1500, 60000, scale)):
            n = rng.choice([2, 3, 3, 4, 4, 5, 6, 7])
            mods = []
            for k in range(n):
                imps = [j for j in range(k) if rng.random() < (0.5 if k < 4 else 0.35)]
                rng.shuffle(imps)
                fl = ""
                for ch, p in (("f", 0.3), ("d", 0.45), ("g", 0.3), ("t", 0.35)):
                    if rng.random() < p:
                        fl += ch
                # an augment / a deviation needs an imported module with data
                if any("d" in mods[j][0] for j in imps):
                    for ch, p in (("a", 0.4), ("v", 0.3)):
                        if rng.random() < p:
                            fl += ch
                mods.append((fl, imps))
            start = rng.randrange(n)
            L.append("depset\t%d\t%d\t%s" % (start, n, "\t".join("%s\t%s" % (fl or "-", ",".join(map(str, im)) or "-") for fl, im in mods)))
        return L
