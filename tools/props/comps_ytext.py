"""comps_ytext.py - slice ytext: YANG string printer/lexer (C10) and lyd_path() value quoting (C15).

Correspondence components (model coq/YangText.v, coq/PathQuote.v vs impl/t_ytext.c):
  YEnc     ypr_encode()
  YPrint   ypr_text() for every layout (single/multi line, double/single quoted, shrink, level)
  YLex     get_argument()/read_qstring() on arbitrary quoted text at a given column
  YRt      print, then lex what was printed; witness() = the C10 round trip fails on the implementation
  PathQ    lyd_path() of a leaf-list / list instance + lyd_find_path()/lyd_find_xpath() on the result;
           witness() = the C15 round trip fails on the implementation
Oracles (implementation only, public API):
  YModRT   module with a description/units/presence/default string: parse, print YANG, parse, print
  PathQRT  the pathq flags
"""
import gens
from vlib import hexs, unhex
from props.comps import Comp

NAMES = [b"description", b"units", b"must", b"default", b"a", b"error-message", b"md:annotation", b"reference"]

S_TOK = [b"a", b"b c", b"xyz", b" ", b"  ", b"      ", b"\t", b"\t\t", b"\n", b"\n\n", b" \n", b"  \n", b"\n ", b"\n  ",
         b"\n         ", b"\t\n", b"\n\t", b" \t\n", b"\t \n", b'"', b"'", b"''", b"'''", b"\\", b"\\\\", b"\\n", b"\\t", b"\\\"",
         b"\r\n", b"+", b";", b"{", b"}", b"//", b"/*", b"*/", b"/", b"\xc3\xa9", b"\xe2\x82\xac", b"\xf0\x9f\x98\x80",
         b"\xef\xbf\xbd", b"\xf0\xbf\xbf\xbd", b"0", b"-", b"_"]
S_RARE = [b"\r", b"\xf1\x80\x80\x80", b"\xf1\x8f\xbf\xbd", b"\xf1\x90\x80\x80", b"\x01", b"\x7f", b"\x80", b"\xc3", b"\xef\xbf\xbe",
          b"\xef\xb7\x90", b"\xf0\x81\x80\x80", b"\xed\xa0\x80", b"\x0b", b"\xc2\x85", b"\xe2\x80\xa8"]


def yang_text(rng, maxtok=8, rare=0.04):
    k = rng.choice([0, 1, 1, 2, 3, 4, 6, maxtok])
    out = b""
    for _ in range(k):
        r = rng.random()
        if r < rare:
            out += rng.choice(S_RARE)
        elif r < 0.15:
            out += gens.enc_cp(gens.rand_cp(rng))
        else:
            out += rng.choice(S_TOK)
    return out.replace(b"\x00", b"")


def fixed_texts(tier):
    L = [b"", b"a", b" ", b"\n", b"\n\n", b"a \n b", b"a\n  b", b"a\n\nb", b"a\n", b" a", b"a ", b"a\t\nb", b"a \t\nb", b"a\t \nb",
         b"a\r\nb", b"a\rb", b"\r", b"'", b"''", b"a'b", b"a'b''c'", b"'a", b"a'b\nc", b"a\nb'c", b'"', b'a"b', b"\\", b"a\\", b"\\n",
         b"a\n b\n  c\n   d", b"\n a", b" \n", b"  \n  ", b"x" * 300, b"x" * 300 + b" \n" + b"y" * 300, (b"ab cd\n" * 60),
         "\u00e9 \n\u20ac".encode(), "a\n \U0001F600".encode(), "\U00040000".encode(), "\U0004fffd".encode(), "\U00050000".encode(),
         "\ufffd".encode(), b"a\n\tb", b"\ta", b"a\n \tb", b"a\n\t b",
         # regression cases of the two defects repaired by f628c31 (blank before a newline; single-line layout: blank
         # after a newline); they must round-trip now (a \n b, a\n  b, \n a,  \n above belong to them too)
         b"a \n", b" \nb", b"a  \n\n \nb ", b"a \n\n", b"\n \n", b" \n \n ", b"a\n b\nc", b"a\n\n b", b"a\n ", b"\n \n a",
         b"a \n b \n  c", b"a\t \nb", b"a \n\tb", b"a\\ \nb", b'a" \n b', b"a \n' b"]
    L.append(b"x" * (20000 if tier == "thorough" else 3000))
    L.append((b"line with trailing blank \n" * (400 if tier == "thorough" else 40)))
    return L


def layouts(rng, full=False):
    """(shrink, level, flags, name)"""
    if full:
        for shrink in (0, 1):
            for level in range(0, 5):
                for flags in range(4):
                    yield shrink, level, flags, b"description" if not (flags & 1) else b"units"
    else:
        yield (rng.choice([0, 0, 0, 1]), rng.choice([0, 1, 2, 3, 4, 4, 7, 30]), rng.randrange(4), rng.choice(NAMES))


def is_yang_string(b):
    """what buf_store_char() accepts: the yang-char of RFC 7950 section 14 (plane 4 too since /repo commit f25b870)"""
    try:
        u = b.decode("utf-8")
    except UnicodeDecodeError:
        return False
    for ch in u:
        cp = ord(ch)
        if not gens.is_yang_char(cp):
            return False
    return True


def c10_cause(s, single_line, single_quoted):
    """tag of the known reason why print/lex cannot give back s, or None.
    Blanks before a newline and (single-line layout) after a newline are no reason any more: since f628c31 the
    printer escapes such a newline, these strings must round-trip (C10_yang_text_roundtrip_dquoted)."""
    if single_quoted:
        # ypr_text() indents the continuation lines of a single-quoted text; the blanks become content
        if b"\n" in s:
            return "yang-squote-newline"
        return None
    if b"\r" in s:
        return "yang-cr"
    return None


class YEnc(Comp):
    """ypr_encode vs YangText.ypr_encode"""
    name = "yenc"
    driver = "t_ytext"
    slice = "ytext"

    def gen(self, rng, tier, scale=1.0):
        L = ["yenc\t" + hexs(bytes([b])) for b in range(1, 256)]
        L += ["yenc\t" + hexs(t) for t in fixed_texts(tier)]
        for _ in range(self.n(tier, 400, 20000, scale)):
            s = yang_text(rng) if rng.random() < 0.8 else gens.raw_bytes(rng, 8)
            L.append("yenc\t" + hexs(s))
        return L


class YPrint(Comp):
    """ypr_text vs YangText.ypr_text"""
    name = "yprint"
    driver = "t_ytext"
    slice = "ytext"
    comp = "yprint"

    def case(self, shrink, level, flags, name, s):
        return "%s\t%d\t%d\t%d\t%s\t%s" % (self.comp, shrink, level, flags, hexs(name), hexs(s))

    def gen(self, rng, tier, scale=1.0):
        L = []
        for i, t in enumerate(fixed_texts(tier)):
            if len(t) < 400:
                for lay in layouts(rng, full=True):
                    L.append(self.case(*lay, t))
            else:
                for flags in range(4):
                    L.append(self.case(0, 1 + i % 3, flags, b"description", t))
        # uint16_t LEVEL wraps in LEVEL++
        L.append(self.case(0, 65535, 0, b"description", b"a\nb"))
        L.append(self.case(0, 65535, 1, b"units", b"a\nb"))
        for _ in range(self.n(tier, 1500, 100000, scale)):
            s = yang_text(rng) if rng.random() < 0.9 else gens.raw_bytes(rng, 8)
            for lay in layouts(rng):
                L.append(self.case(*lay, s))
        return L


class YRt(YPrint):
    """ypr_text then get_argument on the output vs YangText.print_then_lex; witness = C10 string round trip"""
    name = "yrt"
    comp = "yrt"

    def witness(self, line, model_out, impl_out):
        f = line.split("\t")
        flags, s = int(f[3]), unhex(f[5])
        if not is_yang_string(s):
            return None
        o = impl_out.split(" ")
        if len(o) == 3 and o[1] != "E" and unhex(o[1]) == s:
            return None
        sq = bool(flags & 2)
        sl = bool(flags & 1) and not (sq and b"'" in s)
        return (c10_cause(s, sl, sq), "ypr_text output %s is read back as %s instead of %s" % (
            o[0][:200], " ".join(o[1:])[:200], f[5][:200]))


Q_TOK = [b'"', b"'", b"\\n", b"\\t", b'\\"', b"\\\\", b"\\x", b"\\", b" ", b"  ", b"        ", b"\t", b"\n", b"\n ", b"\n  ",
         b"\n    ", b"\n\t", b"\n \t", b"\n\t ", b" \n", b"\t\n", b" \t \n", b"\r\n", b"\r\\n", b"\r", b"+", b" + ", b"\n+\n", b"//c\n",
         b"// c", b"/* c */", b"/*/", b"/**/", b"/* * / */", b"/*", b"/", b";", b"{", b"a", b"bc", b"\xc3\xa9", b"\xf0\x9f\x98\x80",
         b"\xf1\x80\x80\x80", b"\xef\xbf\xbe", b"\x01", b"\x80", b"' + \"", b"\" + '", b"\" +\n   \"", b"' +\n '"]


class YLex(Comp):
    """get_argument/read_qstring vs YangText.lex_qstring"""
    name = "ylex"
    driver = "t_ytext"
    slice = "ytext"

    def gen(self, rng, tier, scale=1.0):
        L = []
        fixed = [b'"a\n" + "   b";', b'"a\r\\nb";', b'"abc', b'"abc\\', b"'abc", b'"a" +', b'"a" + b', b'"a" /* c */ + "b";', b'"a" + /* c */ "b";',
                 b'"a" + // c\n "b";', b'"a" + /* c', b'"a" + / "b"', b"'a\n  b' + \"c\n  d\";", b'"a\n\tb";', b'"a\n \tb";', b'"a\n\t\tb";',
                 b'"a \t\n\t\t b";', b'"a \\t\n\t\\t b"', b'"hello\\n\t\t world!"', b'"\n";', b'"\n\n";', b'""', b"''", b'"', b"'", b'"" + ""',
                 b'"a"\r\n;', b'"a"\r;', b'"a" +\r\n"b";', b'"a" +\r"b";', b'"a\r";', b'"a\r', b'"\xc3";', b'" \n  \n";', b'"a\n" + " b\n" + "  c";',
                 b"x", b";", b""]
        for t in fixed:
            for col in (0, 1, 3, 4, 9, 14):
                L.append("ylex\t%d\t%s" % (col, hexs(t)))
        for _ in range(self.n(tier, 3000, 200000, scale)):
            k = rng.randrange(0, 9)
            body = b"".join(rng.choice(Q_TOK) if rng.random() < 0.85 else gens.enc_cp(gens.rand_cp(rng)) for _ in range(k))
            q = rng.choice([b'"', b'"', b"'"])
            t = q + body
            if rng.random() < 0.8:
                t += q + rng.choice([b";", b" {", b"", b"\n;", b" + ", b"+'x';"])
            if rng.random() < 0.1:
                t = gens.mutate(rng, t)
            t = t.replace(b"\x00", b"")
            L.append("ylex\t%d\t%s" % (rng.choice([0, 0, 1, 2, 3, 4, 5, 7, 8, 9, 12, 17, 40]), hexs(t)))
        # every truncation of one mixed text
        doc = b'"a \\t\\n\n   b\xc3\xa9 \t \n\t  c" + \'d\'\'\' /* x */ + // y\n "e\\\\";'
        for i in range(len(doc) + 1):
            L.append("ylex\t4\t" + hexs(doc[:i]))
        return L


P_TOK = [b"a", b"b c", b" ", b"'", b'"', b"''", b'""', b"[", b"]", b"/", b"=", b"*", b".", b"\\", b"\\'", b"\t", b"\n", b"\xc3\xa9",
         b"\xe2\x82\xac", b"\xf0\x9f\x98\x80", b"zz", b"1", b"-", b"[.='x']", b"' or '1'='1", b"@", b"|", b"&", b"<", b"$v", b"(", b")"]


def path_value(rng):
    k = rng.choice([0, 1, 1, 2, 3, 4, 6])
    out = b""
    for _ in range(k):
        r = rng.random()
        if r < 0.03:
            out += rng.choice([b"\xef\xbf\xbe", b"\x01", b"\x80", b"\xc3", b"\xf0\x81\x80\x80"])
        elif r < 0.2:
            out += gens.enc_cp(gens.rand_cp(rng))
        else:
            out += rng.choice(P_TOK)
    return out.replace(b"\x00", b"")


def pathq_cases(self, rng, tier, scale):
    L = [b"", b"a", b"zz", b"zy", b"a'b", b'a"b', b"a'b\"c", b"a\"b'c", b"'", b'"', b"'\"", b"a b", b"a]", b"[a", b"a/b", b"a\\", b"\\'",
         b"a\\'b", "\u00e9".encode(), "\U0001F600".encode(), b" ", b"x" * 500, b"'" * 3, b'"' * 3, b"'\" or true() or \"", b"1", b"-1", b"1.5"]
    for _ in range(self.n(tier, 1500, 60000, scale)):
        L.append(path_value(rng))
    return ["pathq\t" + hexs(v) for v in L]


def pathq_fail(line, out):
    """None, or (tag, detail) when lyd_path() output does not find the node"""
    if out == "E" or not out:
        return None
    o = out.split(" ")
    if len(o) == 6 and o[1] == o[2] == o[4] == o[5] == "1":
        return None
    v = unhex(line.split("\t")[1])
    tag = "path-both-quotes" if (b"'" in v and b'"' in v) else None
    return (tag, "lyd_path gives %s / %s; find_path,find_xpath = %s" % (
        unhex(o[0])[:120] if o else "", unhex(o[3])[:120] if len(o) > 3 else "", " ".join(o[1:3] + o[4:6])))


class PathQ(Comp):
    """lyd_path quoting + lyd_find_path/lyd_find_xpath vs PathQuote.v; witness = C15 round trip"""
    name = "pathq"
    driver = "t_ytext"
    slice = "ytext"

    def gen(self, rng, tier, scale=1.0):
        return pathq_cases(self, rng, tier, scale)

    def witness(self, line, model_out, impl_out):
        return pathq_fail(line, impl_out)


# ---------------------------------------------------------------------------------------------
# oracles (implementation only)
# ---------------------------------------------------------------------------------------------
class YModRT:
    """C10 at the API: module with description / units / presence / leaf default s -> lys_print_mem(YANG) -> parse in a
    fresh context -> same string, and the second YANG output equals the first"""
    name = "ymod"
    driver = "t_ytext"

    def n(self, tier, quick, thorough, scale=1.0):
        return int((thorough if tier == "thorough" else quick) * scale)

    def gen(self, rng, tier, scale=1.0):
        L = []
        for t in fixed_texts(tier):
            for which in (0, 1, 2, 3):
                L.append("ymod\t%d\t%s" % (which, hexs(t)))
                if b"'" not in t:
                    L.append("ymod\t%d\t%s" % (which + 4, hexs(t)))
        for _ in range(self.n(tier, 600, 30000, scale)):
            t = yang_text(rng, rare=0.02)
            # +4: the module is written with s single-quoted and verbatim (the only way a CR gets in); a default (3)
            # written like that is also printed single-quoted
            sq_in = 4 if (b"'" not in t and rng.random() < 0.3) else 0
            L.append("ymod\t%d\t%s" % (rng.randrange(4) + sq_in, hexs(t)))
        return L

    def judge(self, line, out):
        f = line.split("\t")
        which, s = int(f[1]) & 3, unhex(f[2])
        # printed single-quoted: only a default that was read single-quoted (LYS_SINGLEQUOTED is kept by the parser)
        sq_out = which == 3 and bool(int(f[1]) & 4)
        if out.startswith("CRASH(") or out == "TIMEOUT":
            # (the driver died, e.g. because the re-parsed module has no such statement at all: a finding, not an exception
            # of the check - added by the ymod slice after seeded/C10-6 ended the whole check here)
            return (None, "the driver died on the string %r: %s" % (s[:80], out))
        if out == "E":
            return None                       # the context does not accept the module
        if out == "X":
            # the escaped form was not read as s: only the CR + backslash-n lexer case is expected here
            if b"\r" in s:
                # by design the lexer normalises CR LF to LF and rejects a lone CR inside a double-quoted argument: the
                # context never holds s, so there is nothing to round-trip (not a C10 matter)
                return None
            return (None, "first parse of the escaped text does not give %r" % s[:80])
        o = out.split(" ")
        if len(o) == 2 and o[0] != "E" and unhex(o[0]) == s and o[1] == "1":
            return None
        return (c10_cause(s, which != 0, sq_out), "string %r re-parsed from the YANG output as %s, outputs equal: %s" % (
            s[:80], "error" if o[0] == "E" else repr(unhex(o[0])[:80]), o[-1]))


class PathQRT:
    """C15: lyd_path() of a leaf-list / list instance is found by lyd_find_path and lyd_find_xpath as exactly that node"""
    name = "pathq_rt"
    driver = "t_ytext"

    def n(self, tier, quick, thorough, scale=1.0):
        return int((thorough if tier == "thorough" else quick) * scale)

    def gen(self, rng, tier, scale=1.0):
        return pathq_cases(self, rng, tier, scale)

    def judge(self, line, out):
        return pathq_fail(line, out)
