"""C03 - typed values: acceptance, canonical form, equality, ordering"""
from props import comps_types as T

PID = "C03"
LEVEL = "proof"


def components():
    return [T.IntStore(), T.Dec64Store(), T.Dec64Next(), T.BoolStore(), T.ValCmp(), T.ValSort(), T.RangeCheck()]


def oracles_():
    return [T.RfcStoreOracle(), T.Dec64ExactBuf()]


MANIFEST = {
    "text": "Coq theorems (Properties_C03_types.v): for all integer types, decimal64 (fraction-digits 1..18) and boolean, "
            "store succeeds iff the string is in the lexical language and the denoted value is in the value space/ranges "
            "(int_store_iff_lexical, dec64_scale), canonical forms are RFC 7950 canonical and idempotent, equality iff equal "
            "canonical strings, the sort callback is a strict total order; defects of the code are carried by the model with "
            "refutation witnesses. Tie: differential runs of the extracted model against lyd_value_validate/lyd_new_term/"
            "lyd_value_compare/sorted insertion (T2, exhaustive over short strings), RFC oracle as search.",
    "note": "Modelled C: ly_parse_int/uint (strtoll model), lyplg_type_parse_dec64, decimal64 printing, lyplg_type_validate_range, "
            "boolean store. Not modelled: string/binary/bits/enum/union/identityref/leafref/inet/date types (covered only through "
            "the API round-trip and validation oracles of C01/C02), LYB value encoding.",
    "technique": "Coq proof over hand-written model + differential correspondence (extracted OCaml vs C) + RFC oracle",
}
