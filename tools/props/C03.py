"""C03 - typed values: acceptance, canonical form, equality, ordering"""
from props import comps_types as T
from props import comps_types2 as T2
from props import comps_jsonnum

PID = "C03"
LEVEL = "proof"


def components():
    return [T.IntStore(), T.Dec64Store(), T.Dec64Next(), T.BoolStore(), T.ValCmp(), T.ValSort(), T.RangeCheck(),
            T2.EnumStore(), T2.BitsStore(), T2.BinStore(), T2.StrLenStore(), T2.UnionStore(), T2.Cmp2(), T2.Sort2(), T2.Ip4PrefixHost(), T2.IidCanon(), T2.IdRefStore()]


def oracles_():
    # JsonNumDenote (slice jsonnum): the text lyjson_number() hands to the type plugins denotes the JSON number that was written
    return [T.RfcStoreOracle(), T.Dec64ExactBuf(), T2.SourceIndep(), T2.Types2Rfc(), T2.DerivedRfc(), comps_jsonnum.JsonNumDenote()]


MANIFEST = {
    "text": "Coq theorems over hand-written as-coded models, all Closed under the global context. Properties_C03_types.v: "
            "integers (C03_int_store_iff_lexical: stored iff the text is, between optional isspace() bytes and cut at a NUL, "
            "[+-]digits denoting a value inside the type bounds and the range parts - the two departures from the strict RFC "
            "language are C03_int_strict_rfc_refuted; _canon_store, _canon_idempotent, _eq_iff_canon, _sort_total_order), the "
            "range/length check (C03_range_spec for sorted non-empty part lists, _unsorted_refuted), boolean (4 theorems) and "
            "decimal64 for fraction-digits >= 1 (C03_dec64_scale / _parse_scale / _complete, _canon_is_rfc, _canon_idempotent, "
            "_canon_store, _eq_iff_canon for int64 values, _sort_total_order; _sign_needs_digit is the regression of the fixed "
            "defects f731599, f933623). Properties_C03_types2.v: enumeration (store iff declared name given unique names; sort = "
            "strict total order by DEscending value on a well-formed enum), bits (under bits_wf / bits_names_ok: store iff "
            "isspace-separated declared names without repetition, canonical = names in position order, idempotent, equal "
            "bitmaps iff equal canonical strings on declared positions, memcmp order), binary (C03_binary_decode_encode, "
            "_canonical_accepted, _length_counts_octets, _canon_is_rfc4648, _canon_idempotent, _eq_iff_canon for every accepted "
            "text since fix c0ee3aa, _pad_bits_regression), string length (C03_strlen_counts_chars / _store_iff for byte "
            "strings: length in characters = ly_checkutf8 steps; _not_bytes), union over int/enum/string members "
            "(C03_union_store_first, string-level _canon_idempotent, _eq_implies_canon, _eq_iff_canon_same_member, "
            "_eq_iff_canon_refuted across members = known finding union-member-eq; full idempotence and eq iff canon under "
            "union_separated: _canon_idempotent_separated, _eq_iff_canon_separated, _separated_ints_first; _sort_total_order on "
            "well-typed values), ipv4-prefix host bits at value level only (C03_ipv4_prefix_host_bits_zero, _canon_idempotent, "
            "_eq_iff_canon_partial, _ends: no text form), and the canonical STRING of instance-identifier / "
            "node-instance-identifier (IidCanon.v on PathQuote.v: C03_iid_parse_print, _canon_idempotent, _eq_iff_canon for "
            "paths with identifier names whose predicate values hold one quote kind; _hoisted_quote_refuted is a regression "
            "witness of a shared-quote printer variant, not a defect of the tree), and identityref at value level (IdRef.v, JSON "
            "value format: C03_idref_isderived_iff - the derived-array search finds exactly the chains of 1..fuel base statements; "
            "C03_idref_store_all_bases - an accepted value is an identity of the addressed module derived from EVERY base "
            "(f805b4f); C03_idref_canon_idempotent and C03_idref_eq_iff_canon for module names without colon; "
            "C03_idref_sort_total_order among identities of one module, C03_idref_sort_refuted across modules (model level only); "
            "C03_idref_any_base_refuted = regression of the fixed any-base variant; C03_idref_empty_prefix_refuted = the known "
            "finding idref-empty-prefix as coded). Tie (T2): the extracted models and the C "
            "library answer the same generated cases through lyd_value_validate / lyd_new_term / lyd_value_compare / sorted "
            "insertion (exhaustive over short strings for int8/uint8/decimal64 only, boundary-dense and random otherwise). "
            "Search only (no proof): RfcStoreOracle and Types2Rfc (independent Python reading of RFC 7950 section 9 / RFC 4648), "
            "JsonNumDenote (slice jsonnum: the text lyjson_number() hands to the plugins denotes the written JSON number), "
            "SourceIndep (the last sentence of the property: one lexical value of about 35 restricted types - built-in types "
            "incl. identityref, leafref, instance-identifier, empty, typedef chains, unions, inet/yang derived types - offered "
            "as leaf, list key and leaf-list through XML, JSON string and literal, lyd_new_term, lyd_new_list, lyd_new_path value "
            "and predicates, lyd_find_path, lyd_value_validate, lyd_change_term, a schema default, lyd_dup_single and LYB must "
            "give one verdict and one canonical string, except for the format rules listed with their RFC sections in "
            "SourceIndep.expect()) and DerivedRfc (inet/yang derived types, binary, identityref, (node-)instance-identifier "
            "against a Python reference from RFC 6991 / 5952 / 3339 / 4648: canonical string, idempotence incl. "
            "lyd_change_term_canon and duplication into a second context, equality and duplicate detection modulo canonical "
            "form, insertion-order independence). Listed known findings: union-member-eq, dt-year-10000, dt-day-overflow, "
            "dt-sort-eq, idref-empty-prefix, ip6-embedded-v4-leading-zero; the earlier ones are recorded as fixed in "
            "known_findings*.json.",
    "note": "Modelled (transcribed by hand, tied by T2 only): ly_parse_int/uint (own strtoll/strtoull model), "
            "lyplg_type_parse_dec64, decimal64 printing, lyplg_type_validate_range, boolean store; lyplg_type_store_enum/"
            "sort_enum, bits_str2bitmap/bitmap2items/items2canon/compare/sort (canonical string as a filter over the "
            "position-ordered compiled array), binary_base64_newlines/validate/decode/encode/is_canonical + store/compare/sort, "
            "ly_utf8len + string length check (UTF-8 check from Utf8.v), union_find_type/compare_union/sort_union over "
            "int/enum/string members only, ipv4prefix_zero_host (mask loop; inet_pton/inet_ntop not modelled), "
            "instanceid_path2str / node_instanceid_path2str in the JSON format with a reader restricted to the printed shapes "
            "(no schema resolution), identityref_str2ident / identityref_check_base / lyplg_type_identity_isderived / compare / "
            "sort on an explicit table of modules, identities and derived arrays (T2 t2-idref on the test module's identities; "
            "disabled identities, unimplemented modules, the status check and the XML / schema prefix formats are not modelled). "
            "Oracle level only: patterns (C18), leafref, instance-identifier resolution, "
            "the inet/yang derived types incl. date-and-time, hints handling of the JSON parser, LYB value encoding (round trip "
            "only), schema-default entry point (hex/octal integers excepted by RFC 7950 9.2.1). Outside everything: values "
            "with NUL bytes or non-YANG characters are compared among API sources only; time-zone dependent canonical form of "
            "date-and-time is checked with TZ=UTC. Trusted: the Python references and the exception list of SourceIndep "
            "(RFC 7951 6.1/6.3/6.9 literals, 6.8/6.11 and RFC 7950 9.10.3/9.13.2 prefixes, RFC 7951 6.10 unions, RFC 7950 9.2.1 "
            "defaults, white-space-only XML content, inet_ntop mixed notation for ::ffff:a.b.c.d and ::a.b.c.d).",
    "technique": "Coq proof over hand-written model + differential correspondence (extracted OCaml vs C) + RFC oracle + "
                 "cross-source agreement oracle",
}
