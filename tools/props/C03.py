"""C03 - typed values: acceptance, canonical form, equality, ordering"""
from props import comps_types as T
from props import comps_types2 as T2
from props import comps_jsonnum

PID = "C03"
LEVEL = "proof"


def components():
    return [T.IntStore(), T.Dec64Store(), T.Dec64Next(), T.BoolStore(), T.ValCmp(), T.ValSort(), T.RangeCheck(),
            T2.EnumStore(), T2.BitsStore(), T2.BinStore(), T2.StrLenStore(), T2.UnionStore(), T2.Cmp2(), T2.Sort2(), T2.Ip4PrefixHost(), T2.IidCanon()]


def oracles_():
    # JsonNumDenote (slice jsonnum): the text lyjson_number() hands to the type plugins denotes the JSON number that was written
    return [T.RfcStoreOracle(), T.Dec64ExactBuf(), T2.SourceIndep(), T2.Types2Rfc(), T2.DerivedRfc(), comps_jsonnum.JsonNumDenote()]


MANIFEST = {
    "text": "Coq theorems (Properties_C03_types.v): for all integer types, decimal64 (fraction-digits 1..18) and boolean, "
            "store succeeds iff the string is in the lexical language and the denoted value is in the value space/ranges "
            "(int_store_iff_lexical, dec64_scale), canonical forms are RFC 7950 canonical and idempotent, equality iff equal "
            "canonical strings, the sort callback is a strict total order; defects of the code are carried by the model with "
            "refutation witnesses. Properties_C03_types2.v: the same for enumeration (store iff declared name, sort = strict "
            "total order by descending value), bits (store iff white-space separated declared names without repetition, "
            "canonical string = names in position order with single spaces, idempotent, equal bitmaps iff equal canonical "
            "strings, memcmp order), binary (decode(encode d) = d, RFC 4648 texts accepted and canonical, length counted on "
            "the octets, idempotent; canonical string = RFC 4648 text of the octets and equality iff equal canonical strings for "
            "every accepted text since c0ee3aa, with the former pad-bits counter-example as regression), string length (counted in "
            "characters: utf8len = number of ly_checkutf8 steps) and union (first accepting member, canonical string "
            "idempotent, equality iff canonical within one member, REFUTED across members, sort = strict total order). "
            "Tie: differential runs of the extracted models against lyd_value_validate/lyd_new_term/lyd_value_compare/"
            "sorted insertion (T2, exhaustive over short strings), RFC oracles as search. The last sentence of the property "
            "(source independence) is checked by the SourceIndep oracle (search, no proof): one lexical value of 33 "
            "restricted types (all built-in types incl. identityref, leafref, instance-identifier, empty, typedef chains, "
            "unions, and the ietf-inet-types / ietf-yang-types derived types) is offered as leaf, list key and leaf-list "
            "through XML, JSON string and literal, lyd_new_term, lyd_new_list, lyd_new_path value / key predicate / "
            "leaf-list predicate, lyd_find_path, lyd_value_validate, lyd_change_term, a schema default compiled on the fly, "
            "lyd_dup_single and a LYB round trip; all must agree on the verdict and on the canonical string except for the "
            "format-specific rules written down in SourceIndep.expect() with their RFC sections. The derived types of "
            "ietf-inet-types / ietf-yang-types (ipv4/ipv6 address with and without zone, ip-address, ipv4/ipv6/ip-prefix for "
            "every prefix length, date-and-time, hex-string, phys-address, mac-address, uuid) and identityref are checked by the "
            "DerivedRfc oracle (search) against a Python reference written from RFC 6991, RFC 5952 and RFC 3339: canonical "
            "string, idempotence, equality and duplicate detection modulo canonical form, insertion-order independence; the "
            "host-bit masking of ipv4-prefix has a value-level Coq model (C03_ipv4_prefix_*, T2 t2-ip4p). The canonical string of "
            "instance-identifier / node-instance-identifier has the model IidCanon.v on top of PathQuote.v (module printed "
            "where it changes, key / leaf-list / position predicates, quote chosen per value): C03_iid_parse_print, "
            "C03_iid_canon_idempotent, C03_iid_eq_iff_canon for every path whose values hold one quote kind, "
            "C03_iid_hoisted_quote_refuted as regression of the shared-quote variant; T2 t2-iid against lyd_new_term. For "
            "unions whose members' canonical forms are separated (in particular: only the first member is an integer type) "
            "the canonical string is stored as the same value and equality iff equal canonical strings holds "
            "(C03_union_canon_idempotent_separated, C03_union_eq_iff_canon_separated, C03_union_separated_ints_first).",
    "note": "Modelled C: ly_parse_int/uint (strtoll model), lyplg_type_parse_dec64, decimal64 printing, lyplg_type_validate_range, "
            "boolean store; lyplg_type_store_enum/sort_enum, bits_str2bitmap/bitmap2items/items2canon/compare/sort, "
            "binary_base64_newlines/validate/decode/encode + store/compare/sort, ly_utf8len + string length check (UTF-8 "
            "check from Utf8.v), union_find_type/compare_union/sort_union over int/enum/string members. Not modelled "
            "(searched by SourceIndep / Types2Rfc only): patterns (C18), identityref, leafref, instance-identifier, "
            "inet/yang derived types, LYB value encoding, hints handling of the JSON parser. Trusted for SourceIndep: the "
            "exception list of its judge (RFC 7951 6.1/6.3/6.9 literals, 6.8/6.11 and RFC 7950 9.10.3/9.13.2 prefixes, "
            "RFC 7951 6.10 unions, RFC 7950 9.2.1 hex/octal defaults, white-space-only XML content, non-YANG characters).",
    "technique": "Coq proof over hand-written model + differential correspondence (extracted OCaml vs C) + RFC oracle + "
                 "cross-source agreement oracle",
}
