"""comps_sorted.py - slice `sorted` (property C04, ordering kernel): the red-black tree and the lyds_* functions of
src/tree_data_sorted.c against coq/RBTree.v + coq/Sorted.v (driver impl/t_sorted.c, model ocaml/run_sorted.ml).

Components (Comp):  RbStatic   `rbs <every> <ops>`                 the static rb_insert_node / rb_remove / rb_find on free nodes
                    LydsApi    `lyds <type> <place> <every> <ops>` one system-ordered (leaf-)list through the public API, every op
                               of the driver against the extracted Coq model (Sorted.v): insert, LAST append, unlink, free, re-insert,
                               find; duplication of a source list into the parent (lyd_dup_siblings / lyd_dup_single, WITH_PARENTS,
                               NO_LYDS; at top level duplicates without parent + lyd_insert_sibling) - Sorted.lyds_dup;
                               lyd_merge_tree / lyd_merge_siblings with and without LYD_MERGE_DESTRUCT (g<o>) - Sorted.lyd_merge_list;
                               lyd_unlink_siblings (s<i>) - Sorted.lyds_split; lyd_insert_child / lyd_insert_sibling of the chain
                               (m) - Sorted.lyds_merge (lyds_merge_nodes1 / 2 / 3)
Oracles:            SortedOrder  the same `lyds` lines judged on the implementation alone against a Python model of the abstract
                                 sequence semantics (SeqModel), incl. source lists with equal keys for lyd_merge (not in the Coq model)
                    SiblingOrder `sib` lines: ALL children of one parent (leaves, system-ordered leaf-list, user-ordered list and
                                 leaf-list, opaque nodes; with / without children hash table; container / top level) under create,
                                 lyd_insert_after / lyd_insert_before (every pair incl. first <-> last wrap-around), free, unlink,
                                 re-insert, judged against a list model (SibModel, Python only): schema order, user order as
                                 established, data nodes before opaque nodes, lyd_find_sibling_first / _val / _opaq_next = scan
Findings of this slice: lyds_merge_nodes2 read *next_p uninitialised (fixed /repo cefb23b, MERGE_REGRESS); lyd_dup appended duplicates
behind existing instances outside the sorting tree (seed agent's finding, fixed /repo d989bef; follow-up 03a093d; DUP_REGRESS).
Not explored on purpose: an OPAQUE node moved among data nodes by lyd_insert_after/before (allowed by the API; lyd_find_sibling_opaq_next
then asserts `opaque nodes are last`), lyd_insert_sibling of several nodes into instances that were appended UNSORTED as ordered input
(lyds_merge_nodes2_among walks into NULL; Sorted.lyds_merge answers None), LYD_DUP_NO_LYDS into a parent whose list already has a
sorting tree (by contract of the flag).

After EVERY op both sides print `result/dump/inv`: the dump is the sibling order, the pre-order of the red-black tree with
colours (same algorithm => same SHAPE, compared exactly), the metadata owner and the pool of unlinked nodes; inv is the
answer of the driver's read-only checker (model side: the extracted rb_check and in-order = sibling order).
witness(): a disagreement is a failure of the property itself when the implementation crashed, its checker complained,
or its sibling / in-order sequence differs from the model's (which is proved to be the stable sorted one).
"""
import itertools
import re

from props.comps import Comp

TYPES = ["i8", "str", "d64", "un", "l1", "l2"]
PLACES = ["c0", "c1", "c2", "t0", "t1", "t2"]


def is_crash(out):
    return out.startswith("CRASH(") or out == "TIMEOUT" or "NULL-DEREF" in out


def inorder_of_dump(d):
    """in-order list of `key.id` of a pre-order dump (B5.0(R3.1..).)"""
    pos = 0

    def rec():
        nonlocal pos
        if pos >= len(d):
            raise ValueError(d)
        if d[pos] == ".":
            pos += 1
            return []
        if d[pos] != "(":
            raise ValueError(d)
        pos += 2
        m = re.match(r"-?\d+\.\d+", d[pos:])
        if not m:
            raise ValueError(d)
        pos += m.end()
        l = rec()
        r = rec()
        if d[pos] != ")":
            raise ValueError(d)
        pos += 1
        return l + [m.group(0)] + r
    return rec()


def split_tok(tok):
    p = tok.split("/")
    return p if len(p) == 3 else [tok, "", "?"]


def seq_of(comp, dump):
    """the element sequence a dump denotes (None when not dumped)"""
    if dump in ("~", ""):
        return None
    try:
        if comp == "rbs":
            return inorder_of_dump(dump)
        m = re.match(r"s=([^;]*);t=([^;]*);", dump)
        if not m:
            return ["?"]
        s = [x for x in m.group(1).split(",") if x]
        if m.group(2) not in ("-", "."):
            if inorder_of_dump(m.group(2)) != s:
                return ["tree-differs"] + s
        return s
    except (ValueError, IndexError):
        return ["unparsable"]


def truncated(out):
    """the driver writes the answer of a case as one whole line; an answer with a malformed token can only come from a
    process that was cut off outside the driver's control (never a statement about libyang): not judged"""
    return not is_crash(out) and any(len(t.split("/")) != 3 for t in out.split(" "))


def judge_tokens(comp, ops, out):
    """(tag, detail) when the implementation's own output shows a violated invariant"""
    if is_crash(out):
        return ("sorted-crash", out[:80])
    toks = out.split(" ")
    for i, tok in enumerate(toks):
        res, dump, inv = split_tok(tok)
        if inv != "ok":
            return ("sorted-invariant-" + inv, "op %d (%s): checker says %s" % (i, ops[i] if i < len(ops) else "?", inv))
        if res in ("E", "W", "!", "?"):
            return ("sorted-result", "op %d (%s): result %s" % (i, ops[i] if i < len(ops) else "?", res))
    return None


class _Base(Comp):
    driver = "t_sorted"
    slice = "sorted"

    def witness(self, line, model_out, impl_out):
        f = line.split("\t")
        ops = f[-1].split(" ")
        if truncated(impl_out) or truncated(model_out):
            return None
        j = judge_tokens(f[0], ops, impl_out)
        if j:
            return j
        mt, it = model_out.split(" "), impl_out.split(" ")
        for i, (a, b) in enumerate(zip(mt, it)):
            ra, da, _ = split_tok(a)
            rb, db, _ = split_tok(b)
            sa, sb = seq_of(f[0], da), seq_of(f[0], db)
            if sa != sb:
                return ("sorted-order", "op %d (%s): order %s, expected %s" % (i, ops[i], sb, sa))
            if ra != rb and ops[i][0] in "qfg":
                return ("sorted-find", "op %d (%s): answer %s, expected %s" % (i, ops[i], rb, ra))
        return None


# ------------------------------------------------------------------------------------------------
def adversarial_key_orders(n):
    asc = list(range(n))
    zig = []
    lo, hi = 0, n - 1
    while lo <= hi:
        zig.append(lo)
        if lo != hi:
            zig.append(hi)
        lo += 1
        hi -= 1
    mid = []

    def rec(a, b):
        if a > b:
            return
        m = (a + b) // 2
        mid.append(m)
        rec(a, m - 1)
        rec(m + 1, b)
    rec(0, n - 1)
    return {"asc": asc, "desc": asc[::-1], "zig": zig, "mid": mid, "eq": [3] * n, "two": [i % 2 for i in range(n)],
            "eqrun": [i // 4 for i in range(n)], "eqrun-desc": [(n - i) // 4 for i in range(n)]}


def removal_orders(rng, n):
    """lists of positions that empty a sequence of n elements"""
    outs = [[0] * n, [n - 1 - i for i in range(n)], [(n - i) // 2 for i in range(n)]]
    r = []
    for i in range(n):
        r.append(rng.randrange(n - i))
    outs.append(r)
    return outs


def random_script(rng, nops, nkeys, maxlive, api, allow_a=False):
    """insert / remove / find over a small key universe, in phases (grow, shrink, churn)"""
    ops = []
    live = 0
    pool = 0
    klo = -(nkeys // 2)
    phase, left = "grow", 0
    if allow_a:
        for _ in range(rng.randrange(1, 8)):
            ops.append("a%d" % rng.randrange(klo, klo + nkeys))
            live += 1
    while len(ops) < nops:
        if left <= 0:
            phase = rng.choice(["grow", "shrink", "churn", "churn"])
            left = rng.randrange(5, 60)
        left -= 1
        pi = {"grow": 0.75, "shrink": 0.2, "churn": 0.45}[phase]
        x = rng.random()
        if live >= maxlive:
            pi = 0.05
        if x < pi or live == 0:
            if api and pool and rng.random() < 0.3:
                ops.append("r%d" % rng.randrange(pool))
                pool -= 1
            else:
                ops.append("i%d" % rng.randrange(klo, klo + nkeys))
            live += 1
        elif x < pi + 0.12:
            k = rng.randrange(klo - 1, klo + nkeys + 1)
            if api:
                ops.append("q%d" % k)
            elif rng.random() < 0.7:
                ops.append("f%d" % rng.randrange(live))
            else:
                ops.append("g%d" % k)
        else:
            pos = rng.choice([0, live - 1, live // 2, rng.randrange(live), rng.randrange(live)])
            if api:
                if rng.random() < 0.5 and pool < 30:
                    ops.append("u%d" % pos)
                    pool += 1
                else:
                    ops.append("d%d" % pos)
            else:
                ops.append("r%d" % pos)
            live -= 1
    return ops


DUP_TARGETS = [[], ["i1"], ["a1"], ["i1", "i3"], ["a3", "a1"], ["a1", "a3"], ["i1", "i3", "i5", "d1"], ["i3", "i1", "i5", "i7", "i2"]]
DUP_SOURCES = [["c2"], ["c2", "c4"], ["c0", "c2", "c4"], ["c4", "c2", "c0", "c6"], ["C4", "C2"], ["C2", "C4", "C6"], ["c2", "C0", "c6"],
               ["c3", "c3", "c1"], ["c1", "c3"], ["c7", "c8", "c9"], ["c-3", "c-2"], ["c9", "c-9"]]
DUP_FOLLOW = [["i6"], ["i0", "q0"], ["i2", "q2", "d0", "i9"], ["u0", "r0", "i4"], ["p0", "i5"], ["q4", "q-9", "d1", "d0", "i3"],
              ["p3", "i10", "q10"], ["i8", "i8", "d2", "u1", "r0"]]


def dup_scripts(rng, thorough, places, model):
    """model=True: only histories the Coq model follows exactly (LYD_DUP_NO_LYDS only into an empty parent: otherwise the
    copy of the leader's metadata stays on a non-leader instance)"""
    L = []
    types = TYPES if thorough else ["i8", "l2", rng.choice(["str", "d64", "un", "l1"])]
    for t in types:
        for p in places:
            for tg in DUP_TARGETS:
                if p[1] == "2" and tg and tg[0][0] == "a":
                    continue
                if p[0] == "t" and tg == ["a3", "a1"]:
                    # merging (lyd_insert_sibling of several nodes -> lyds_merge_nodes2) into instances that were appended
                    # UNSORTED as `ordered` input is outside the contract of LYD_INSERT_NODE_LAST: lyds_merge_nodes2_among
                    # walks rb_next() from the previous destination node and meets NULL (a single insert sorts lazily)
                    continue
                for src in DUP_SOURCES:
                    pops = ["p0", "p2", "p3"] + (["p1", "p4"] if not tg else [])
                    for po in pops:
                        for fo in (DUP_FOLLOW if thorough else rng.sample(DUP_FOLLOW, 3)):
                            if po in ("p1", "p4") and model and any(o[0] == "p" for o in fo):
                                continue
                            L.append("lyds\t%s\t%s\t1\t%s" % (t, p, " ".join(tg + src + [po] + fo)))
    # random histories with duplications
    for _ in range(600 if thorough else 60):
        t, p = rng.choice(TYPES), rng.choice(places)
        nk = rng.choice([3, 8, 30])
        ops, live, nsrc, pool = [], 0, 0, 0
        for _ in range(rng.choice([10, 30, 80])):
            x = rng.random()
            k = rng.randrange(-(nk // 2), nk - nk // 2)
            if x < 0.3:
                ops.append("i%d" % k)
                live += 1
            elif x < 0.5 and nsrc < 6:
                ops.append("c%d" % k)
                nsrc += 1
            elif x < 0.65 and nsrc:
                o = rng.choice([0, 0, 2, 3] + ([1, 4] if live == 0 and not model else []))
                ops.append("p%d" % o)
                live += nsrc
            elif x < 0.8 and live:
                ops.append("d%d" % rng.randrange(live))
                live -= 1
            elif x < 0.85 and live and model:
                ops.append("u%d" % rng.randrange(live))
                live -= 1
                pool += 1
            elif x < 0.9 and pool and model:
                ops.append("r%d" % rng.randrange(pool))
                pool -= 1
                live += 1
            else:
                ops.append("q%d" % k)
        L.append("lyds\t%s\t%s\t1\t%s" % (t, p, " ".join(ops)))
    return L


def split_merge_scripts(rng, thorough):
    """histories with s<i> / m (Sorted.lyds_split, Sorted.lyds_merge): the chain with / without tree (s0 / s>0) meets a target
    with / without tree (inserted / appended SORTED - lyds_merge_nodes2 needs a sorted target - / a single instance / none),
    duplicate keys included, followed by further edits"""
    L = []
    for _ in range(6000 if thorough else 600):
        t, p = rng.choice(TYPES), rng.choice(PLACES)
        nk = rng.choice([3, 6, 40])
        ops, live, chain, pool = [], 0, 0, 0
        for _ in range(rng.choice([8, 20, 60])):
            x = rng.random()
            k = rng.randrange(-(nk // 2), nk - nk // 2)
            if x < 0.42 or live == 0 and not chain:
                ops.append("i%d" % k)
                live += 1
            elif x < 0.5 and live:
                ops.append("d%d" % rng.randrange(live))
                live -= 1
            elif x < 0.55 and live:
                ops.append("u%d" % rng.randrange(live))
                live -= 1
                pool += 1
            elif x < 0.58 and pool:
                ops.append("r%d" % rng.randrange(pool))
                pool -= 1
                live += 1
            elif x < 0.8 and live and not chain:
                i = rng.choice([0, 0, live - 1, rng.randrange(live)])
                ops.append("s%d" % i)
                chain = live - i
                live = i
            elif chain:
                ops.append("m")
                live += chain
                chain = 0
            else:
                ops.append("q%d" % k)
        L.append("lyds\t%s\t%s\t1\t%s" % (t, p, " ".join(ops)))
    # target appended in order without tree (sorted), chain with tree: lyds_merge_nodes2 front / among / back
    for _ in range(3000 if thorough else 300):
        t, p = rng.choice(TYPES), rng.choice(["c0", "c1", "t0", "t1"])
        ck = [rng.randrange(-6, 7) for _ in range(rng.randrange(2, 7))]
        tk = sorted(rng.randrange(-6, 7) for _ in range(rng.randrange(1, 6)))
        ops = ["i%d" % k for k in ck] + ["s0"] + ["a%d" % k for k in tk] + ["m"] + \
            rng.choice([["i0"], ["d0", "q%d" % ck[0]], ["s1", "i3", "m"], ["u0", "r0", "s0", "m"]])
        L.append("lyds\t%s\t%s\t1\t%s" % (t, p, " ".join(ops)))
    return L


def merge_scripts(rng, thorough):
    """target of nt instances (appended without tree - sorted or not -, or inserted with tree), source of ns instances (with tree
    when ns >= 2 and built by sorted inserts; without when appended), keys distinct inside each list, all overlaps"""
    L = []
    types = TYPES if thorough else ["i8", "l2", rng.choice(["str", "d64", "un", "l1"])]
    places = PLACES if thorough else ["c0", "c2", "t0", rng.choice(["c1", "t1", "t2"])]
    for t in types:
        for p in places:
            for nt in range(0, 7 if thorough else 6):
                for ns in range(1, 6 if thorough else 5):
                    for rep in range(3 if thorough else 1):
                        tk = rng.sample(range(-9, 10), nt)
                        sk = rng.sample(range(-9, 10), ns)
                        for tmode in ("a", "as", "i"):
                            if tmode == "a" and p[1] == "2":
                                continue
                            keys = sorted(tk) if tmode == "as" else tk
                            if tmode == "as" and p[1] == "2":
                                tpre = ["i%d" % k for k in keys]
                            else:
                                tpre = ["%s%d" % ("i" if tmode == "i" else "a", k) for k in keys]
                            for smode in ("c", "C"):
                                spre = ["%s%d" % (smode, k) for k in sk]
                                for g in ("g1", "g0"):
                                    live = sorted(set(tk) | set(sk))
                                    free = [k for k in range(-9, 10) if k not in live]
                                    fo = rng.choice([["i%d" % free[0]], ["q%d" % sk[0], "d0", "i%d" % free[-1]],
                                                     ["u0", "r0"], ["d%d" % (len(live) - 1), "q%d" % live[-1]]])
                                    L.append("lyds\t%s\t%s\t1\t%s" % (t, p, " ".join(tpre + spre + [g] + fo)))
    return L


class RbStatic(_Base):
    """rb_insert_node / rb_insert_color / rb_remove / rb_remove_color / rb_find / rb_next / rb_prev vs RBTree.v"""
    name = "rbs"

    def gen(self, rng, tier, scale=1.0):
        L = []
        thorough = tier == "thorough"
        # adversarial insertion orders, then every removal order, dump after every op
        for n in ([3, 7, 10, 16, 33] if not thorough else [1, 2, 3, 4, 5, 6, 7, 8, 10, 13, 16, 21, 33, 50, 64, 100]):
            for nm, keys in adversarial_key_orders(n).items():
                ins = ["i%d" % k for k in keys]
                for rem in removal_orders(rng, n):
                    ops = ins + ["f%d" % (n // 2), "g2", "g-1"] + ["r%d" % p for p in rem]
                    L.append("rbs\t1\t" + " ".join(ops))
        # exhaustive: every script of the given length over 4 keys / 4 positions (prefixes are covered: dump after every op)
        alpha = ["i0", "i1", "i2", "i3", "r0", "r1", "r2", "r3"]
        for s in itertools.product(alpha, repeat=5 if thorough else 4):
            if s[0][0] == "r":
                continue
            L.append("rbs\t1\t" + " ".join(s))
        # exhaustive suffixes after a base tree (deeper fix-up cases)
        bases = [[2 * i for i in range(6)], [2 * i for i in range(10, 0, -1)], [5, 1, 9, 3, 7, 5, 5, 1, 9], [4] * 7,
                 [2 * i for i in range(14)]]
        for b in bases:
            n = len(b)
            alpha2 = ["i%d" % k for k in sorted(set([-1, 1, b[len(b) // 2], b[len(b) // 2] + 1, max(b) + 1]))] + \
                     ["r%d" % p for p in sorted(set([0, 1, n // 2, n - 2, n - 1]))]
            for s in itertools.product(alpha2, repeat=4 if thorough else 3):
                L.append("rbs\t1\t%s" % " ".join(["i%d" % k for k in b] + list(s)))
        # random long scripts
        for i in range(self.n(tier, 12, 300, scale)):
            nkeys = rng.choice([1, 2, 4, 8, 16, 64, 200])
            nops = rng.choice([200, 1000, 3000]) if not thorough else rng.choice([500, 3000, 6000])
            ops = random_script(rng, nops, nkeys, rng.choice([8, 40, 150]), api=False)
            L.append("rbs\t%d\t%s" % (rng.choice([1, 8, 32]) if nops <= 200 else 16, " ".join(ops)))
        return L


class LydsApi(_Base):
    """lyd_insert_node -> lyds_insert / lyds_link_data_node / lazy tree creation, lyd_unlink -> lyds_unlink,
    lyd_free_tree, lyd_find_sibling_val on int8 / string / decimal64 / union leaf-lists and lists vs Sorted.v"""
    name = "lyds"

    def gen(self, rng, tier, scale=1.0):
        L = []
        thorough = tier == "thorough"
        combos = [(t, p) for t in TYPES for p in PLACES]
        # adversarial orders through the API
        for (t, p) in combos:
            for n in ([5, 12] if not thorough else [2, 3, 5, 8, 12, 20, 40]):
                for nm, keys in adversarial_key_orders(n).items():
                    ins = ["i%d" % (k - n // 2) for k in keys]
                    rem = rng.choice(removal_orders(rng, n))
                    ops = ins + ["q0", "q%d" % n] + ["%s%d" % (rng.choice("ud"), q) for q in rem] + ["r0", "r0", "i0"]
                    L.append("lyds\t%s\t%s\t1\t%s" % (t, p, " ".join(ops)))
        # exhaustive scripts over 4 keys
        alpha = ["i0", "i1", "i2", "i3", "u0", "u1", "u2", "u3", "d0", "d2", "r0", "r1"]
        full = [("i8", "c2"), ("l2", "t1")] if thorough else [("i8", "c2")]
        for (t, p) in combos:
            k = (5 if thorough else 4) if (t, p) in full else (4 if thorough else (3 if p in ("c2", "t0") else 0))
            if not k:
                continue
            for s in itertools.product(alpha, repeat=k):
                if s[0][0] != "i":
                    continue
                L.append("lyds\t%s\t%s\t1\t%s" % (t, p, " ".join(s)))
        # lists first only appended to (LYD_INSERT_NODE_LAST, no tree), possibly unsorted, then edited: lazy creation
        alpha_a = ["a0", "a1", "a2", "a3"]
        alpha_b = ["i0", "i2", "i4", "u0", "u1", "d2", "r0"]
        for (t, p) in [("i8", "c1"), ("str", "t0"), ("l1", "c0"), ("un", "t1")]:
            for na in ([2, 3] if not thorough else [1, 2, 3, 4]):
                for pre in itertools.product(alpha_a, repeat=na):
                    for s in itertools.product(alpha_b, repeat=2 if not thorough else 3):
                        L.append("lyds\t%s\t%s\t1\t%s" % (t, p, " ".join(list(pre) + list(s))))
        # duplication into the parent (lyd_dup_siblings / lyd_dup_single, with WITH_PARENTS, NO_LYDS) of a source list built
        # by sorted inserts (c) / appends (C), into 0, 1, >= 2 existing instances with and without a sorting tree, then edits
        L += dup_scripts(rng, thorough, PLACES, model=True)
        # lyd_merge_tree / lyd_merge_siblings with and without LYD_MERGE_DESTRUCT (Sorted.lyd_merge_list: lyds_pool_add,
        # lyds_insert2, lyds_additionally_reuse_rb_tree with the pool running dry at every point)
        L += merge_scripts(rng, thorough)
        # lyd_unlink_siblings (lyds_split) and lyd_insert_child / lyd_insert_sibling of the chain (lyds_merge, all four cases)
        L += list(MERGE_REGRESS) + split_merge_scripts(rng, thorough)
        # random long scripts
        for i in range(self.n(tier, 18, 400, scale)):
            t, p = rng.choice(combos)
            nkeys = rng.choice([1, 2, 4, 8, 30])
            nops = rng.choice([100, 600, 2000]) if not thorough else rng.choice([300, 2000, 5000])
            ops = random_script(rng, nops, nkeys, rng.choice([6, 25, 60]), api=True, allow_a=(p[1] != "2" and rng.random() < 0.5))
            L.append("lyds\t%s\t%s\t%d\t%s" % (t, p, 1 if nops <= 100 else 8, " ".join(ops)))
        return L


# regression: lyds_merge_nodes2() used to read *next_p uninitialised when lyds_merge_nodes2_back() had nothing to move
# (destination list without tree, chain leader with a tree, no chain key greater than the last destination key): crash /
# stale node linked into the list. Fixed in /repo commit cefb23b; these histories must pass (also under ASan).
MERGE_REGRESS = [
    "lyds\ti8\tc0\t1\ti-2 i0 s0 i0 m",
    "lyds\ti8\tc0\t1\ti1 i2 s0 i5 m i3 q1 s0 m",
    "lyds\ti8\tt0\t1\ti1 i2 s0 i5 m i3",
    "lyds\tl1\tc2\t1\ti1 i2 s0 i5 m i3 d0 i1",
    "lyds\tstr\tt1\t1\ti1 i2 s0 i5 m i3 q1",
    "lyds\tl2\tc1\t1\ti-2 i0 s0 i2 d0 i0 m s0 m",
    "lyds\td64\tt2\t1\ti-7 i-15 s0 i13 m i-12 d2 q2 i19 i-12 s2 m i7 d2 i6 i-8 i17 i-6 i15 d5 s0 i-11 m d6 i6",
    "lyds\tun\tc2\t1\ti-3 i-1 i2 s0 i2 m s0 i3 i2 m s1 i0 m",
]


# regression: lyd_dup() appended the 2nd.. duplicate with LYD_INSERT_NODE_LAST also when the first duplicate landed behind
# EXISTING instances; the appended duplicates never entered the leader's sorting tree and the next sorted insert went
# wrong (1 2 3 5 4). Found by a seed agent; these histories must give sorted sequences.
DUP_REGRESS = [
    "lyds\ti8\tc0\t1\ti1 i2 c3 c4 p0 i5",
    "lyds\ti8\tc1\t1\ti1 i2 c3 c4 c6 p0 i5 q4 d3 i4",
    "lyds\tl2\tc0\t1\ti1 c3 c4 p2 i5 i2",
    "lyds\tstr\tc1\t1\ti0 i1 i2 c3 c4 c5 p0 d0 d0 d0 i9 i3",
    "lyds\tun\tt0\t1\ti1 i2 c3 c4 p0 i5",
    # /repo 03a093d: from the third instance on the duplicates were inserted by a sorted search (d989bef), which reordered
    # sources that are not sorted; they are appended again when the first duplicate is alone in the parent
    "lyds\ti8\tc0\t1\tC4 C2 C0 p0 q2 i3",
    "lyds\tl1\tc1\t1\tC4 C2 C0 C6 p2 d1 i3 i1",
    "lyds\tstr\tt0\t1\tC4 C2 C0 p0 i3",
    "lyds\ti8\tc2\t1\tC4 C2 C0 p0 i3",
]


def is_subseq(a, b):
    it = iter(b)
    return all(x in it for x in a)


def stable_pos(seq, k):
    return max([q + 1 for q, e in enumerate(seq) if e[0] <= k] + [0])


def is_sorted(seq):
    return all(seq[i][0] <= seq[i + 1][0] for i in range(len(seq) - 1))


class SeqModel:
    """the sibling sequence of one system-ordered (leaf-)list as the abstract semantics (Sorted.v: stable_insert, isort,
    remove_nth; lyds_dup) gives it; tree = the leader owns a sorting tree (decides when the lazy creation sorts)"""

    def __init__(self, seq=None, tree=False):
        self.seq = list(seq or [])
        self.tree = tree

    def insert(self, x):
        if self.seq and not self.tree:
            self.seq = sorted(self.seq, key=lambda e: e[0])       # lazy creation = stable insertion sort
        if self.seq:
            self.tree = True
        pos = stable_pos(self.seq, x[0])
        self.seq = self.seq[:pos] + [x] + self.seq[pos:]

    def append(self, x):
        self.seq.append(x)

    def delete(self, i):
        if 0 <= i < len(self.seq):
            del self.seq[i]
            if not self.seq:
                self.tree = False

    def dup(self, xs, opt, after):
        """lyd_dup() as of /repo 03a093d: the first duplicate by the default path; if it is then the only instance and the last
        sibling all the others are appended, otherwise the next one is treated like a first one again;
        NO_LYDS: all appended; lyd_dup_single of each: all by the default path"""
        if opt in (1, 4):
            for x in xs:
                self.append(x)
            return
        fast = False
        for x in xs:
            if fast and opt != 3:
                self.append(x)
            else:
                self.insert(x)
                fast = len(self.seq) == 1 and not after


class SortedOrder:
    """C04 ordering kernel on the implementation alone: after every public editing call on a system-ordered (leaf-)list the
    read-only checker is quiet (links, red-black invariants, tree walk = sibling order, metadata on the leader, every
    present instance found) and the sibling sequence is the one the abstract sequence semantics gives: insert = stable
    insert by key (after a stable sort when no tree existed), free/unlink = delete that position, lyd_unlink_siblings = keep
    the prefix (lyds_split), inserting the split-off chain again = sorted union that keeps the destination instances in
    place (lyds_merge, not in the Coq model), lyd_dup_siblings / lyd_dup_single into the parent (with WITH_PARENTS, NO_LYDS;
    at top level duplicates without parent merged by lyd_insert_sibling) = the instances inserted one by one;
    two permutations of the same distinct keys give the same sequence"""
    name = "sorted-order"
    driver = "t_sorted"

    def gen(self, rng, tier, scale=1.0):
        L = list(MERGE_REGRESS) + list(DUP_REGRESS)
        thorough = tier == "thorough"
        n = int((400 if thorough else 40) * scale)
        for _ in range(n):
            t, p = rng.choice(TYPES), rng.choice(PLACES)
            keys = rng.sample(range(-20, 21), rng.randrange(2, 30))
            perm = keys[:]
            rng.shuffle(perm)
            for ks in (keys, perm):
                L.append("lyds\t%s\t%s\t1\t%s" % (t, p, " ".join("i%d" % k for k in ks)))
            dup = [rng.randrange(-3, 4) for _ in range(rng.randrange(2, 40))]
            ops = []
            live = 0
            for k in dup:
                ops.append("i%d" % k)
                live += 1
                if rng.random() < 0.3:
                    ops.append("d%d" % rng.randrange(live))
                    live -= 1
            L.append("lyds\t%s\t%s\t1\t%s" % (t, p, " ".join(ops)))
        # split / merge histories
        for _ in range(int((600 if thorough else 60) * scale)):
            t, p = rng.choice(TYPES), rng.choice(PLACES)
            nk = rng.choice([3, 6, 40])
            ops = []
            live, chain = 0, 0
            for _ in range(rng.choice([8, 25, 80])):
                x = rng.random()
                if x < 0.5 or live == 0 and not chain:
                    ops.append("i%d" % rng.randrange(-(nk // 2), nk - nk // 2))
                    live += 1
                elif x < 0.62 and live:
                    ops.append("d%d" % rng.randrange(live))
                    live -= 1
                elif x < 0.8 and live and not chain:
                    i = rng.choice([0, 0, live - 1, rng.randrange(live)])
                    ops.append("s%d" % i)
                    chain = live - i
                    live = i
                elif chain:
                    ops.append("m")
                    live += chain
                    chain = 0
                else:
                    ops.append("q%d" % rng.randrange(-(nk // 2), nk - nk // 2))
            L.append("lyds\t%s\t%s\t1\t%s" % (t, p, " ".join(ops)))
        # duplication histories, all placements (top level: duplicates without parent + lyd_insert_sibling)
        sub = dup_scripts(rng, thorough, PLACES, model=False)
        L += sub if thorough else rng.sample(sub, min(len(sub), int(1500 * scale)))
        # lyd_merge_tree / lyd_merge_siblings of a source list (distinct keys in each list), with and without LYD_MERGE_DESTRUCT
        for _ in range(int((800 if thorough else 120) * scale)):
            t, p = rng.choice(TYPES), rng.choice(PLACES)
            tk = rng.sample(range(-8, 9), rng.randrange(0, 7))
            live = list(tk)
            ops = ["i%d" % k for k in tk]
            for _ in range(rng.randrange(1, 4)):
                sk = rng.sample(range(-8, 9), rng.randrange(1, 7))
                ops += ["c%d" % k for k in sk]
                g = rng.randrange(2)
                ops.append("g%d" % g)
                live = sorted(set(live) | set(sk))
                # follow-up edits keep the keys distinct
                for _ in range(rng.randrange(0, 4)):
                    x = rng.random()
                    free = [k for k in range(-8, 9) if k not in live]
                    if x < 0.5 and free:
                        k = rng.choice(free)
                        ops.append("i%d" % k)
                        live = sorted(live + [k])
                    elif x < 0.8 and live:
                        i = rng.randrange(len(live))
                        ops.append("d%d" % i)
                        del live[i]
                    else:
                        ops.append("q%d" % rng.randrange(-8, 9))
                if not g:
                    break       # the source list stays: a second merge of it would only find equal instances
            L.append("lyds\t%s\t%s\t1\t%s" % (t, p, " ".join(ops)))
        # LYD_DUP_NO_LYDS into a parent with 1 / >= 2 instances that were only appended (no tree), source without metadata
        for t in (TYPES if thorough else ["i8", "l1"]):
            for p in ("c0", "c1", "c2", "t0"):
                for tg in (["a1"], ["a1", "a3"], ["a3", "a1", "a2"]):
                    if p[1] == "2":
                        tg = ["i1"]
                    for src in (["c2"], ["C2", "C4"], ["C4", "C0", "C2"]):
                        for po in ("p1", "p4"):
                            for fo in (["i2"], ["q2", "d0", "i0", "i9"]):
                                L.append("lyds\t%s\t%s\t1\t%s" % (t, p, " ".join(tg + src + [po] + fo)))
        return L

    def judge(self, line, out):
        f = line.split("\t")
        ops = f[-1].split(" ")
        place = f[2]
        top, after = place[0] == "t", place[1] == "2"
        if truncated(out):
            return None
        j = judge_tokens("lyds", ops, out)
        if j:
            return j
        M, S, chain, nid, pool = SeqModel(), SeqModel(), None, 0, []
        toks = out.split(" ")
        if len(toks) != len(ops):
            return ("sorted-result", "%d answers for %d ops" % (len(toks), len(ops)))
        for i, (op, tok) in enumerate(zip(ops, toks)):
            res, dump, _ = split_tok(tok)
            s = seq_of("lyds", dump)
            try:
                cur = [tuple(int(v) for v in x.split(".")) for x in s]
            except (ValueError, TypeError):
                return ("sorted-order", "op %d (%s): %s" % (i, op, s))
            arg = int(op[1:]) if len(op) > 1 else 0
            prev = list(M.seq)
            if op[0] == "i":
                M.insert((arg, nid))
                nid += 1
            elif op[0] == "a":
                M.append((arg, nid))
                nid += 1
            elif op[0] == "c":
                S.insert((arg, nid))
                nid += 1
            elif op[0] == "C":
                S.append((arg, nid))
                nid += 1
            elif op[0] in "du":
                if op[0] == "u" and 0 <= arg < len(prev):
                    pool.append(prev[arg])
                M.delete(arg)
            elif op[0] == "r":
                if 0 <= arg < len(pool):
                    M.insert(pool.pop(arg))
            elif op[0] == "s":
                if chain is None and 0 <= arg < len(prev) and res == "-":
                    chain = SeqModel(prev[arg:], M.tree and arg == 0)
                    M = SeqModel(prev[:arg], M.tree and arg > 0)
            elif op[0] == "m" or (op[0] == "p" and top):
                src = None
                if op[0] == "m":
                    if chain is not None and res == "+":
                        src, chain = chain, None
                elif S.seq and res == "+":
                    src = SeqModel()
                    xs = [(k, nid + n) for n, (k, _) in enumerate(S.seq)]
                    nid += len(xs)
                    src.dup(xs, arg if arg in (1, 4) else 0, False)       # the driver uses lyd_dup_siblings at top level
                if src is not None:
                    if not prev:
                        M = src
                    else:
                        union = sorted(prev + src.seq)
                        if sorted(cur) != union or (is_sorted(prev) and not is_subseq(prev, cur)) or not is_sorted(cur):
                            return ("sorted-merge", "op %d (%s): %s + %s gave %s" % (i, op, prev, src.seq, cur))
                        M = SeqModel(cur, True)
            elif op[0] == "p":
                if S.seq and res == "+":
                    xs = [(k, nid + n) for n, (k, _) in enumerate(S.seq)]
                    nid += len(xs)
                    M.dup(xs, arg, after)
            elif op[0] == "g":
                # lyd_merge_tree / lyd_merge_siblings: a source instance whose key the parent does not have yet is inserted
                # (a duplicate of it, or the instance itself with LYD_MERGE_DESTRUCT); generated with distinct keys per list
                if S.seq and res == "+":
                    for (k, sid) in list(S.seq):
                        if not any(e[0] == k for e in M.seq):
                            if arg == 1:
                                M.insert((k, sid))
                            else:
                                M.insert((k, nid))
                                nid += 1
                    if arg == 1:
                        S = SeqModel()
            if cur != M.seq:
                tag = "sorted-dup" if op[0] == "p" else "sorted-order"
                return (tag, "op %d (%s): sequence %s, expected %s" % (i, op, cur, M.seq))
            if op[0] == "q":
                exp = "1" if any(e[0] == arg for e in M.seq) else "0"
                if res != exp:
                    return ("sorted-find", "op %d (%s): answer %s, expected %s" % (i, op, res, exp))
        return None


# ------------------------------------------------------------------------------------------------
# all children of one parent: schema order, user-ordered instances, opaque nodes last (driver mode `sib`)
# ------------------------------------------------------------------------------------------------
SIB_USER = (4, 5)       # schema indexes of the user-ordered list ul and leaf-list uu
SIB_LEAF = {1: 0, 2: 1, 3: 3, 4: 6, 5: 7, 6: 8}


class SibModel:
    """list model of the children of one parent: entries (schema index | None for opaque, key | name, id).
    default insertion (lyd_insert_node): system-ordered leaf-list sl by value (stable), any other data node behind the last
    instance of its schema node, i.e. before the first node of a LATER schema node, before all opaque nodes; opaque nodes last;
    lyd_insert_after / lyd_insert_before move a user-ordered instance next to another instance of the same schema node"""

    def __init__(self):
        self.seq = []

    def insert(self, e):
        sidx, key, _ = e
        if sidx is None:
            self.seq.append(e)
            return
        pos = len(self.seq)
        for q, (s2, k2, _) in enumerate(self.seq):
            if s2 is None or s2 > sidx or (sidx == 2 and s2 == 2 and k2 > key):
                pos = q
                break
        self.seq.insert(pos, e)

    def move(self, i, j, after):
        """True when the call must succeed"""
        if i == j:
            return False
        node, sib = self.seq[i], self.seq[j]
        if node[0] is None or sib[0] is None:
            return None         # opaque nodes may be put anywhere: not generated
        if node[0] not in SIB_USER or node[0] != sib[0]:
            return False
        del self.seq[i]
        q = self.seq.index(sib)
        self.seq.insert(q + 1 if after else q, node)
        return True


def sib_parse(dump):
    out = []
    for x in dump.split(","):
        if not x:
            continue
        m = re.match(r"^(\d+):(-?\d+)#(\d+)$", x)
        if m:
            out.append((int(m.group(1)), int(m.group(2)), int(m.group(3))))
            continue
        m = re.match(r"^~(\w)#(\d+)$", x)
        if not m:
            return None
        out.append((None, m.group(1), int(m.group(2))))
    return out


class SiblingOrder:
    """C04 on the implementation: the children of one parent (leaves, a system-ordered leaf-list, a user-ordered list and
    leaf-list, opaque nodes; with and without children hash table; container and top level) after every create / insert
    after / insert before / free / unlink / re-insert call equal a list model of the sibling order (schema order, user-ordered
    instances exactly where the calls put them, data nodes before opaque nodes), links are consistent, and
    lyd_find_sibling_first / _val / _opaq_next find what a scan finds"""
    name = "sibling-order"
    driver = "t_sorted"

    def gen(self, rng, tier, scale=1.0):
        L = []
        thorough = tier == "thorough"
        # every insert_after / insert_before pair among n user-ordered instances that start and end the chain, or not
        for place in "ct":
            for kind in "UV":
                for n in (2, 3, 4):
                    for pre, post in (([], []), (["L1"], []), ([], ["L6"]), (["L1", "L2", "L3"], ["L4", "L5"]), ([], ["Ox"]),
                                      (["S1"], ["Oy", "Oz"])):
                        base = pre + ["%s%d" % (kind, k) for k in range(1, n + 1)] + post
                        off = len([o for o in pre])
                        for i in range(n):
                            for j in range(n):
                                for op in "AB":
                                    mv = "%s%d.%d" % (op, off + i, off + j)
                                    mv2 = "%s%d.%d" % (rng.choice("AB"), off + rng.randrange(n), off + rng.randrange(n))
                                    L.append("sib\t%s\t%s" % (place, " ".join(base + [mv, mv2, "%s9" % kind])))
        # a data node created behind all data children of a parent with / without hash table and trailing opaque nodes
        leaves = ["L1", "L2", "L3", "L4", "L5", "L6"]
        for place in "ct":
            for nl in range(0, 6):
                for opq in (["Ox"], ["Ox", "Oy"], ["Ox", "Ox"], ["Oy", "Ox", "Oz"], ["Oz", "Oy", "Ox", "Oy"]):
                    for last in (["L6"], ["L5", "L6"], ["V1"], ["U1", "V2", "L4"], ["S1", "L6", "S0"]):
                        pre = [l for l in leaves[:nl] if l not in last]
                        L.append("sib\t%s\t%s" % (place, " ".join(pre + opq + last + ["Oy"] + ["X0"])))
                        L.append("sib\t%s\t%s" % (place, " ".join(pre + ["S2", "U3"] + opq + last + ["Y1", "R0"])))
        # random histories (simulated with the list model so that insert_after / insert_before name data nodes only:
        # the API lets an OPAQUE node be put anywhere, after which `opaque nodes are last` no longer holds by request)
        for _ in range(int((3000 if thorough else 300) * scale)):
            place = rng.choice("ct")
            M, nid, pool, ops = SibModel(), 0, [], []
            for _ in range(rng.choice([6, 15, 40])):
                x = rng.random()
                data = [q for q, e in enumerate(M.seq) if e[0] is not None]
                if x < 0.2:
                    c = [n for n in SIB_LEAF if not any(e[0] == SIB_LEAF[n] for e in M.seq + pool)]     # no second instance of a leaf
                    if c:
                        n = rng.choice(c)
                        ops.append("L%d" % n)
                        M.insert((SIB_LEAF[n], 0, nid))
                        nid += 1
                elif x < 0.45:
                    k, key = rng.choice("SUUVV"), rng.randrange(1, 60)
                    ops.append("%s%d" % (k, key))
                    M.insert(({"S": 2, "U": 4, "V": 5}[k], key, nid))
                    nid += 1
                elif x < 0.57:
                    c = rng.choice("xyz")
                    ops.append("O" + c)
                    M.insert((None, c, nid))
                    nid += 1
                elif x < 0.85 and len(data) >= 2:
                    usr = [q for q in data if M.seq[q][0] in SIB_USER]
                    i = rng.choice(usr) if usr and rng.random() < 0.8 else rng.choice(data)
                    same = [q for q in data if M.seq[q][0] == M.seq[i][0]]
                    j = rng.choice(same) if rng.random() < 0.8 else rng.choice(data)
                    if rng.random() < 0.3 and same:
                        # wrap-around positions: first <-> last instance
                        i, j = rng.choice([(same[0], same[-1]), (same[-1], same[0])])
                    after = rng.random() < 0.5
                    ops.append("%s%d.%d" % ("A" if after else "B", i, j))
                    M.move(i, j, after)
                elif x < 0.9 and M.seq:
                    i = rng.randrange(len(M.seq))
                    ops.append("X%d" % i)
                    M.seq.pop(i)
                elif x < 0.95 and M.seq:
                    i = rng.randrange(len(M.seq))
                    ops.append("Y%d" % i)
                    pool.append(M.seq.pop(i))
                elif pool:
                    j = rng.randrange(len(pool))
                    ops.append("R%d" % j)
                    M.insert(pool.pop(j))
            if ops:
                L.append("sib\t%s\t%s" % (place, " ".join(ops)))
        return L

    def judge(self, line, out):
        f = line.split("\t")
        ops = f[-1].split(" ")
        if is_crash(out):
            return ("sibling-crash", out[:80])
        if truncated(out):
            return None
        toks = out.split(" ")
        if len(toks) != len(ops):
            return ("sibling-result", "%d answers for %d ops" % (len(toks), len(ops)))
        M, nid, pool = SibModel(), 0, []
        for i, (op, tok) in enumerate(zip(ops, toks)):
            p = tok.split("/")
            if len(p) != 3:
                return ("sibling-result", "op %d (%s): %s" % (i, op, tok[:60]))
            res, dump, inv = p
            cur = sib_parse(dump)
            if cur is None:
                return ("sibling-result", "op %d (%s): dump %s" % (i, op, dump[:80]))
            exp_res = None
            if op[0] == "L":
                n = int(op[1:])
                if any(e[0] == SIB_LEAF.get(n) for e in M.seq):
                    exp_res = "x"
                else:
                    M.insert((SIB_LEAF[n], 0, nid))
                    nid += 1
                    exp_res = "+"
            elif op[0] in "SUV":
                M.insert(({"S": 2, "U": 4, "V": 5}[op[0]], int(op[1:]), nid))
                nid += 1
                exp_res = "+"
            elif op[0] == "O":
                M.insert((None, op[1], nid))
                nid += 1
                exp_res = "+"
            elif op[0] in "AB":
                a, b = [int(v) for v in op[1:].split(".")]
                if a >= len(M.seq) or b >= len(M.seq):
                    exp_res = "x"
                else:
                    r = M.move(a, b, op[0] == "A")
                    if r is None:
                        # an opaque node is involved: allowed anywhere by the API, follow the implementation
                        M.seq = cur
                        exp_res = res
                    else:
                        exp_res = "+" if r else "E"
            elif op[0] in "XY":
                a = int(op[1:])
                if a >= len(M.seq):
                    exp_res = "x"
                else:
                    e = M.seq.pop(a)
                    if op[0] == "Y":
                        pool.append(e)
                    exp_res = "-"
            elif op[0] == "R":
                a = int(op[1:])
                if a >= len(pool):
                    exp_res = "x"
                else:
                    M.insert(pool.pop(a))
                    exp_res = "+"
            if res != exp_res:
                return ("sibling-result", "op %d (%s): answer %s, expected %s" % (i, op, res, exp_res))
            if cur != M.seq:
                return ("sibling-order", "op %d (%s): siblings %s, expected %s" % (i, op, dump, M.seq))
            if inv != "ok":
                return ("sibling-invariant-" + inv, "op %d (%s): checker says %s" % (i, op, inv))
        return None


class SibApi(_Base):
    """lyd_insert_node (both anchor searches, opaque fallback), lyd_insert_after / lyd_insert_before, free / unlink /
    re-insert on ALL children of one parent vs Siblings.v (driver mode `sib`; the same case lines as the oracle sibling-order)"""
    name = "sib"

    def gen(self, rng, tier, scale=1.0):
        return SiblingOrder().gen(rng, tier, scale)

    def witness(self, line, model_out, impl_out):
        if truncated(impl_out) or truncated(model_out):
            return None
        return SiblingOrder().judge(line, impl_out)
