"""comps_xmlbuf.py - correspondence component (T2) of slice `xmlbuf`: the buffer bookkeeping of lyxml_parse_value() /
lyxml_parse_value_use_buf() of src/xml.c vs XmlBuf.parse_value (driver impl/t_xmlbuf.c, model ocaml/run_xmlbuf.ml).
The generator makes EVENT lists (what the model consumes) and renders each into a text (what the C function consumes);
compared: return code, dynamic flag, value length and the sequence of malloc / realloc / free requests."""
from props.comps import Comp
from vlib import hexs

PLAIN = {1: [b"a", b" ", b"\n", b">", b"]", b"\t"], 2: ["é".encode()], 3: ["€".encode()], 4: ["\U0001F600".encode()]}
REF = {1: [b"&lt;", b"&gt;", b"&amp;", b"&apos;", b"&quot;", b"&#65;", b"&#x41;", b"&#9;", b"&#x0000041;"],
       2: [b"&#233;", b"&#xE9;", b"&#x7ff;"], 3: [b"&#x20AC;", b"&#8364;", b"&#xfffd;"], 4: [b"&#x1F600;", b"&#128512;", b"&#x10fffd;"]}
REFBAD = [b"&nbsp;", b"&", b"&lt", b"&#;", b"&#x;", b"&#xZ;", b"&#65", b"&#0;", b"&#xD800;", b"&#x110000;", b"&#xFFFE;", b"&#x41 ;", b"&LT;"]
BADCHAR = [b"\xff", b"\xc3", b"\x01", b"\xed\xa0\x80", b"\xf4\x90\x80\x80", b"\xc0\x80"]


def render(rng, evs):
    """the text an event list stands for; the text after a stopping event is arbitrary"""
    out = []
    stop = False
    for e in evs:
        k, n = e[0], int(e[1:] or 0)
        if k == "p":
            out.append(rng.choice(PLAIN[n]))
        elif k == "r":
            out.append(rng.choice(REF[n]))
        elif k == "x":
            out.append(rng.choice(REFBAD))
            stop = True
        elif k == "c":
            # content without the end mark; `]` and `>` alone are fine
            body = bytes(rng.choice(b"b \n]>&<") for _ in range(n)) if n < 64 else (b"b" * (n - 3) + b"<&]")
            body = body.replace(b"]]>", b"]b>")
            out.append(b"<![CDATA[" + body + b"]]>")
        elif k == "o":
            out.append(b"<![CDATA[" + b"x]]" * rng.randrange(0, 3))
            stop = True
        elif k == "b":
            out.append(rng.choice(BADCHAR))
            stop = True
        elif k == "e":
            out.append(b"<")
            stop = True
        elif k == "z":
            stop = True
        if stop:
            break
    t = b"".join(out)
    if stop and evs and evs[-1] == "e":
        t += rng.choice([b"", b"/a>", b"b/>x"])
    return t


def line(rng, evs):
    # a failing reference of the form `&` + end of text / `&lt` etc. must be the last thing of the text: the renderer stops there
    return "xbuf\t%s\t%s" % (",".join(evs) if evs else "-", hexs(render(rng, evs)))


class XmlBuf(Comp):
    """lyxml_parse_value / lyxml_parse_value_use_buf (sizes, allocator requests) vs XmlBuf.parse_value.
    witness: a crash / sanitizer report / failed post-condition of the driver is a failure of C05 itself."""
    name = "xmlbuf"
    driver = "t_xmlbuf"
    slice = "xmlbuf"

    def gen(self, rng, tier, scale=1.0):
        E = []
        # the class of the seeded change C05-5 and its neighbours: p pending plain bytes, then a reference / CDATA of every
        # size around the initial size (24) and the step (128), at the start of the value and after an earlier reference
        plains = [0, 1, 19, 20, 21, 23, 24, 25, 100, 127, 128, 129, 147, 148, 149, 152, 200, 300]
        cds = [0, 1, 3, 4, 5, 19, 20, 22, 23, 24, 25, 100, 126, 127, 128, 129, 130, 151, 152, 153, 255, 256, 257, 300, 1000]
        for p in plains:
            for pre in ([], ["r1"], ["c0"], ["p1"] * 30 + ["r4"]):
                for c in cds:
                    for post in (["e"], ["p1", "e"], ["z"]):
                        E.append(pre + ["p1"] * p + ["c%d" % c] + post)
                for k in (1, 2, 3, 4):
                    E.append(pre + ["p1"] * p + ["r%d" % k, "e"])
                E.append(pre + ["p1"] * p + ["x"])
                E.append(pre + ["p1"] * p + ["o"])
                E.append(pre + ["p1"] * p + ["b"])
                E.append(pre + ["p1"] * p + ["e"])
                E.append(pre + ["p1"] * p + ["z"])
        # runs of references and of CDATA sections that cross several steps one byte at a time
        for k in (1, 2, 3, 4):
            for n in (5, 6, 7, 19, 20, 21, 37, 38, 39, 150, 400):
                E.append(["r%d" % k] * n + ["e"])
                E.append((["p%d" % k, "r%d" % k]) * n + ["e"])
        for n in (10, 100, 1000):
            E.append(["c1"] * n + ["e"])
            E.append(["c0", "p1"] * n + ["e"])
        for c in (10000, 65535, 65536, 1000000) if tier == "thorough" else (10000, 70000):
            E.append(["p1", "c%d" % c, "r1", "e"])
        # random event lists
        kinds = ["p1"] * 6 + ["p2", "p3", "p4", "r1", "r1", "r2", "r3", "r4", "cS", "cS", "cM", "cL"]
        for _ in range(self.n(tier, 3000, 200000, scale)):
            evs = []
            for _ in range(rng.choice([1, 2, 3, 5, 8, 13, 40, 200])):
                k = rng.choice(kinds)
                if k == "cS":
                    k = "c%d" % rng.randrange(0, 30)
                elif k == "cM":
                    k = "c%d" % rng.choice([120, 124, 127, 128, 129, 132, 150, 152, 153, 256, 280])
                elif k == "cL":
                    k = "c%d" % rng.randrange(100, 3000)
                if k[0] == "p" and rng.random() < 0.5:
                    evs += [k] * rng.choice([1, 3, 20, 23, 24, 100, 127, 128, 129])
                else:
                    evs.append(k)
            evs.append(rng.choice(["e"] * 8 + ["z", "x", "o", "b"]))
            E.append(evs)
        return [line(rng, e) for e in E]

    def witness(self, line, model_out, impl_out):
        if impl_out.startswith("CRASH") or impl_out.startswith("TIMEOUT") or "!" in impl_out:
            return (None, "lyxml_parse_value on events %s: %s" % (line.split("\t")[1][:120], impl_out[:300]))
        return None
