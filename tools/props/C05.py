"""C05 - arbitrary input never corrupts memory, leaks, hangs or leaves partial results (partial)"""
from props import comps, comps_iff, comps_json, comps_jsonnum, comps_robust, comps_types, comps_xmlbuf, comps_yangstr

PID = "C05"
LEVEL = "proof"
ASAN_QUICK = True            # the correspondence runs also on the ASan+UBSan build in the quick tier


def components():
    # index-style models with explicit out-of-bounds answers (if-feature compiler, JSON number lexer + exponent normaliser),
    # the size-only model of the buffer growth of the XML value lexer (every store recorded with the block size of the moment)
    # and list-style lexers whose models cannot read past the end of the input: agreement of the C code with them on
    # truncated / malformed inputs under ASan+UBSan is what ties the no-out-of-bounds theorems to the code
    return [comps_iff.IffCompile(), comps_iff.IffValue(), comps.Utf8(), comps.XmlVal(), comps_json.JsonStr(),
            comps_types.Dec64Next(), comps_jsonnum.JsonNum(), comps_xmlbuf.XmlBuf(), comps_yangstr.YangStr()]


def oracles_():
    o = comps_iff.IffDenote()
    o.quick_sanitize = True
    e = comps_types.Dec64ExactBuf()
    e.quick_sanitize = True
    # numbers around the uint16_t window of lyjson_exp_number (the list-based model is too slow for 65535-byte texts)
    n = comps_jsonnum.JsonNumLong()
    # SEARCH (no proof): every parsing entry point under ASan+UBSan+LSan with post-condition and context-health checks
    r = comps_robust.Robust()
    return [o, e, n, r]


MANIFEST = {
    "text": "Coq theorems. C05_iffeature_no_oob: for EVERY byte string, module version and feature table the model of "
            "lys_compile_iffeature()/lysc_iffeature_value() (index style: every access to the expression array, the feature "
            "array, the operator stack and the input answers Oob outside its extent) never goes out of bounds, terminates within "
            "its fuel and never requests an absurd allocation. C05_jsonnum_no_oob: for EVERY byte string shorter than 4 GiB the "
            "model of lyjson_number()/lyjson_number_is_zero()/lyjson_count_in_row()/lyjson_exp_number()/"
            "lyjson_exp_number_copy_num_part()/lyjson_get_buffer_for_number() (index style: reads outside the text + NUL, stores "
            "outside the malloc'ed block, failed assert()s and wrapped memset sizes all answer Oob; uint16/int32/uint32/uint64 and "
            "strtoll modelled with their widths) never answers Oob and ends within its fuel; C05_jsonnum_len_exact: the block has "
            "exactly buf_len+1 <= 22 bytes, the bytes stored before the NUL are exactly buf_len and the value handed on holds no unwritten "
            "byte; C05_jsonnum_denotes: for EVERY accepted text the decimal string handed to the type plugins denotes the number that was "
            "written (mantissa x 10^exp, exact rationals), all five layouts of lyjson_exp_number and the three outcomes without conversion "
            "(the model is the code as of /repo 63186d2, which repaired layout 2; the former wrong results 0.5E1 -> `.`, 0.0055E3 -> `55` are "
            "the regression Example C05_jsonnum_former_witnesses); C05_jsonnum_denotes_bounded: the same by computation on all 37449 short "
            "strings (checks the specification side independently). C05_xmlbuf_no_overflow: for EVERY sequence of events of the loop of "
            "lyxml_parse_value() (plain characters of 1-4 bytes, references storing 1-4 bytes, failing references, CDATA sections of ANY "
            "length, end character, errors) every store - the pending plain bytes copied by lyxml_parse_value_use_buf(), the bytes of a "
            "reference, the CDATA content, the final copy and the NUL - lies inside the block as allocated at that moment (model: block "
            "size, bytes used, pending plain bytes, the 24-byte start and the as-coded 128-byte growth loop; bytes abstracted away) and "
            "the growth loop ends; C05_xmlbuf_len_exact: a dynamic value comes back in a block of exactly length+1 bytes and the stores "
            "are contiguous from 0 to length+1 (no byte unwritten, none twice), a value without references / CDATA makes no store and "
            "no allocation; C05_xmlbuf_size_bounded: every block size and requested size is at most the input length + 152, so size_t "
            "cannot wrap; C05_xmlbuf_no_leak: the malloc/realloc/free calls of one call are balanced (error: everything allocated is freed exactly "
            "once; dynamic value: exactly the one block, not freed; value in place: no call); regression Example C05_xmlbuf_oneshot_growth_refuted: the one-shot growth of the seeded change C05-5 stores "
            "200 bytes into a block of 153. C05_yangstr_no_underflow: for EVERY sequence of events of the quoted-string lexer of "
            "parser_yang.c (read_qstring / buf_store_char / buf_add_char / end of get_argument; model of word_len, buf_len, trailing_ws, "
            "block and current indentation, need_buf; characters of 1-4 bytes, blanks, tabs, line feeds, escapes, + concatenation of "
            "double- and single-quoted parts, any ctx->indent) trailing_ws is at most word_len whenever it is subtracted, the "
            "assert(need_buf) of the tab branch holds and every store (copy into the fresh buffer, each character after the single "
            "16-byte growth step, leftover blanks of a tab, final NUL) lies inside the block of the moment; regression Example "
            "C05_yangstr_noreset_refuted: without the reset of trailing_ws after a line break (seeded change C05-3) two blanks and two "
            "line breaks subtract 2 from a word_len of 1; C05_yangstr_len_rfc: for EVERY double-quoted string without concatenation (given as its "
            "lines, any column of the opening quote) the returned length is the number of bytes RFC 7950 6.1.3 keeps (indentation removed up to "
            "the column after the quote with tabs of 8 columns and their leftover blanks, blanks/tabs before a line break removed, escapes kept), "
            "against a specification on lines that knows nothing of the counters. The lexer models (UTF-8 decoder, XML value lexer, JSON string "
            "lexer, decimal64 parser) are structural recursions on the input list and cannot read past its end. Tie: extracted models "
            "vs the C functions on generated, exhaustive-short, malformed and truncated inputs under ASan+UBSan (T2), crash-isolated; for xmlbuf and yangstr the "
            "compared line is return code, dynamic flag, value length and the SEQUENCE of malloc/realloc/free requests of the real "
            "lyxml_parse_value() / get_argument() (seen through macros around the allocator names in the white-box drivers, sources unedited) on texts rendered "
            "from event lists; the stores themselves are not observable from outside, there ASan is the observer.",
    "note": "Partial by nature: memory safety of the remaining C code, allocator failure paths, leaks and stack depth are runtime "
            "behaviour no executable Gallina model exhibits. Modelled C (with proofs): lys_compile_iffeature, lysc_iffeature_value, "
            "ly_getutf8, lyxml_parse_value (bytes: XmlText.v; buffer sizes: XmlBuf.v), lyxml_parse_value_use_buf, read_qstring / buf_store_char / buf_add_char (sizes and counters: YangStr.v, length vs RFC 7950 6.1.3: YangStrLen.v; WHICH bytes are kept is slice ytext, C10/C15), lyjson_string, lyplg_type_parse_dec64, lyjson_number, lyjson_exp_number (+ helpers). "
            "NOT modelled, only SEARCHED by the oracle `robust` (impl/t_robust.c, structure-aware mutation of valid seeds under "
            "ASan+UBSan with a leak check per case, a CPU limit per case, dictionary reference counts, log-location stack, module list and "
            "a health workload compared with a fresh context): lys_parse_mem (YANG, YIN, pattern and if-feature inside modules), "
            "lyd_parse_data_mem (XML, JSON x STRICT/ONLY/OPAQ/NO_STATE/ORDERED x PRESENT/NO_STATE/MULTI_ERROR), lyd_parse_op "
            "(RPC/notification/reply, YANG + NETCONF + RESTCONF envelopes), lyd_find_xpath, lyd_eval_xpath4, lys_find_xpath, "
            "lyd_find_path, lyd_new_path, lyd_value_validate (all built-in types, ietf-inet-types, ietf-yang-types), ly_pattern_match. "
            "LYB input is documented as trusted and is not fuzzed. The pointer VALUES lyjson_exp_number forms outside the text without "
            "dereferencing them (C11 6.5.6p8) are not covered by the model. The defects the search found are listed in "
            "known_findings.d/robust.json.",
    "technique": "Coq proof (bounds/termination of index-style models) + differential correspondence under ASan/UBSan + sanitizer-guided "
                 "mutation search with post-condition oracle",
}
