"""C05 - arbitrary input never corrupts memory, leaks, hangs or leaves partial results (partial)"""
from props import comps, comps_iff, comps_json, comps_types

PID = "C05"
LEVEL = "proof"
ASAN_QUICK = True            # the correspondence runs also on the ASan+UBSan build in the quick tier


def components():
    # index-style model with explicit out-of-bounds answers (if-feature compiler) and list-style lexers whose models cannot
    # read past the end of the input: agreement of the C code with them on truncated / malformed inputs under ASan+UBSan is
    # what ties the no-out-of-bounds theorems to the code
    return [comps_iff.IffCompile(), comps_iff.IffValue(), comps.Utf8(), comps.XmlVal(), comps_json.JsonStr(),
            comps_types.Dec64Next()]


def oracles_():
    o = comps_iff.IffDenote()
    o.quick_sanitize = True
    e = comps_types.Dec64ExactBuf()
    e.quick_sanitize = True
    return [o, e]


MANIFEST = {
    "text": "Coq theorem C05_iffeature_no_oob: for EVERY byte string, module version and feature table the model of "
            "lys_compile_iffeature()/lysc_iffeature_value() (index style: every access to the expression array, the feature "
            "array, the operator stack and the input answers Oob outside its extent) never goes out of bounds, terminates within "
            "its fuel and never requests an absurd allocation; the lexer models (UTF-8 decoder, XML value lexer, JSON string "
            "lexer, decimal64 parser) are structural recursions on the input list and cannot read past its end. Tie: extracted "
            "models vs the C functions on generated, malformed and truncated inputs under ASan+UBSan (T2), crash-isolated.",
    "note": "Partial by nature: memory safety of the remaining C code, allocator failure paths, leaks and stack depth are runtime "
            "behaviour no executable Gallina model exhibits; they are only searched (sanitizer builds). Modelled C: "
            "lys_compile_iffeature, lysc_iffeature_value, ly_getutf8, lyxml_parse_value, lyjson_string, lyplg_type_parse_dec64.",
    "technique": "Coq proof (bounds/termination of index-style model) + differential correspondence under ASan/UBSan",
}
