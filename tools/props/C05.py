"""C05 - arbitrary input never corrupts memory, leaks, hangs or leaves partial results (partial)"""
from props import (comps, comps_iff, comps_json, comps_jsonbuf, comps_jsonnum, comps_robust, comps_types, comps_xmlbuf,
                   comps_yangstr)

PID = "C05"
LEVEL = "proof"
ASAN_QUICK = True            # the correspondence runs also on the ASan+UBSan build in the quick tier


def components():
    # index-style models with explicit out-of-bounds answers (if-feature compiler, JSON number lexer + exponent normaliser),
    # the size-only model of the buffer growth of the XML value lexer (every store recorded with the block size of the moment)
    # and list-style lexers whose models cannot read past the end of the input: agreement of the C code with them on
    # truncated / malformed inputs under ASan+UBSan is what ties the no-out-of-bounds theorems to the code
    return [comps_iff.IffCompile(), comps_iff.IffValue(), comps.Utf8(), comps.XmlVal(), comps_json.JsonStr(),
            comps_types.Dec64Next(), comps_jsonnum.JsonNum(), comps_xmlbuf.XmlBuf(), comps_yangstr.YangStr(),
            comps_jsonbuf.JsonBuf()]


def oracles_():
    o = comps_iff.IffDenote()
    o.quick_sanitize = True
    e = comps_types.Dec64ExactBuf()
    e.quick_sanitize = True
    # numbers around the uint16_t window of lyjson_exp_number (the list-based model is too slow for 65535-byte texts)
    n = comps_jsonnum.JsonNumLong()
    # SEARCH (no proof): every parsing entry point under ASan+UBSan+LSan with post-condition and context-health checks
    r = comps_robust.Robust()
    return [o, e, n, r]


TRUSTED = [
    "impl/t_iff.c, impl/t_xml.c, impl/t_json.c, impl/t_types.c, impl/t_jsonnum.c (white-box drivers that include the C file and call the "
    "static functions), impl/t_xmlbuf.c + impl/t_yangstr.c + impl/t_jsonbuf.c (the same, plus function-like macros malloc / ly_realloc / free defined "
    "between the headers and the included source to record the requested sizes; the sources are not edited), impl/t_robust.c (the "
    "search driver: post-conditions, LSan / heap-growth leak attribution, CPU limit, health workload)",
    "tools/props/comps_xmlbuf.py + comps_yangstr.py + comps_jsonbuf.py render EVENT lists into texts: that a text is cut into exactly those events by the "
    "C loop is checked only by the agreement of the compared lines, not proved; tools/props/comps_robust.py classify() / asan_tag() "
    "(sanitizer report -> tag, solo re-run of coarse release-build failures on the ASan build)",
]

ASSUMPTIONS = [
    "every theorem is about a Gallina transcription of the named C functions; the tie to the C code is differential testing (T2) on "
    "generated inputs under ASan+UBSan, not a proof",
    "hypotheses of the theorems: if-feature string shorter than 2^62 bytes (len_ok); JSON text shorter than 4 GiB; XML / YANG / JSON-string "
    "events with characters and reference / escape results of 1 to 4 bytes (ev_wf: what ly_getutf8 / ly_pututf8 deliver); C05_yangstr_len_rfc only for "
    "ONE double-quoted string (no + concatenation) whose lines hold characters, blanks, tabs and valid escapes and that ends with its "
    "closing quote",
    "malloc / realloc never fail (LY_EMEM paths are in no model); sizes are unbounded N: for xmlbuf and jsonbuf C05_xmlbuf_size_bounded / C05_jsonbuf_size_bounded show "
    "that size_t cannot wrap, for yangstr the same bound (input length + 17) is argued in YangStr.v but NOT proved, for iffeature / jsonnum the "
    "C integer widths are modelled",
]

MANIFEST = {
    "text": "Coq theorems about as-coded models, all closed under the global context. "
            "(iff) C05_iffeature_no_oob: for EVERY byte string shorter than 2^62 bytes, both module versions and every feature lookup "
            "function the model of lys_compile_iffeature() (index style: every access to the expression array, the features array, the "
            "operator stack and the string, the assert()s of iff_stack_pop and a pop from an empty stack answer Oob) never answers Oob, ends "
            "within its fuel and never requests an absurd allocation; regression Example C05_former_witnesses: the four former crash "
            "inputs (fixed in /repo 299b7de, 6f66310, 685c1af) now compile or are rejected. "
            "(jsonnum, text shorter than 4 GiB) C05_jsonnum_no_oob: the model of lyjson_number() / lyjson_number_is_zero() / "
            "lyjson_count_in_row() / lyjson_exp_number() / lyjson_exp_number_copy_num_part() / lyjson_get_buffer_for_number() (reads outside "
            "the text + NUL, stores outside the malloc'ed block, failed assert()s and wrapped memset sizes answer Oob; uint16 / int32 / "
            "uint32 / uint64 and strtoll with their widths) never answers Oob and ends within its fuel; C05_jsonnum_len_exact: whenever "
            "lyjson_exp_number() produces a value the block has exactly buf_len+1 <= 22 bytes, exactly buf_len bytes are stored before the "
            "NUL and the value holds no unwritten byte; C05_jsonnum_denotes: for EVERY accepted text the decimal string handed on is "
            "well-formed and denotes the number written (mantissa x 10^exp, exact rationals; five layouts of lyjson_exp_number and the three "
            "outcomes without conversion; code as of /repo 63186d2, which repaired layout 2 - regression Example "
            "C05_jsonnum_former_witnesses); C05_jsonnum_denotes_bounded: the same by computation alone on all strings of at most 5 "
            "characters over `015-+.Ee`. "
            "(xmlbuf, sizes only, bytes abstracted away) C05_xmlbuf_no_overflow: for EVERY sequence of events of the loop of "
            "lyxml_parse_value() (plain characters and reference results of 1-4 bytes, failing references, CDATA sections of ANY length, end "
            "character, errors) every store - pending plain bytes copied by lyxml_parse_value_use_buf(), reference bytes, CDATA content, "
            "final copy, NUL - lies inside the block as allocated at that moment (24-byte start, as-coded 128-byte growth loop) and the "
            "loop ends; C05_xmlbuf_len_exact: a dynamic value comes back in a block of exactly length+1 bytes, the stores are contiguous from "
            "0 to length+1, a value without references / CDATA makes no store and no allocation; C05_xmlbuf_size_bounded: every block and "
            "requested size is at most the byte count of the events + 152; C05_xmlbuf_no_leak (no hypothesis): the malloc / realloc / free "
            "calls of one call are balanced; regression Example C05_xmlbuf_oneshot_growth_refuted: the one-shot growth of the seeded change "
            "C05-5 stores 200 bytes into a block of 153. "
            "(jsonbuf, sizes only) the model of lyjson_string() keeps the variable size AND the real size of the block (as coded the variable is "
            "advanced by ONE 128-byte step although the realloc may add several, so it lags behind the block after a long run of plain bytes; "
            "harmless, it only causes extra reallocs). C05_jsonbuf_no_overflow: for EVERY sequence of events (plain characters and escape "
            "results of 1-4 bytes, failing escapes, invalid characters, closing quotation mark, end of input) every store - pending plain "
            "bytes copied at an escape, the bytes of ly_pututf8(), final copy, NUL - lies inside the REAL block of the moment and the "
            "increment loop ends; C05_jsonbuf_len_exact: a dynamic value comes back in a block of exactly length+1 bytes with contiguous "
            "stores from 0 to length+1, a string without escapes makes no store and no allocation; C05_jsonbuf_no_leak: on every error exit "
            "what was allocated is freed exactly once, a dynamic value is the one block, not freed; C05_jsonbuf_size_bounded: every block and "
            "requested size is at most the byte count of the events + 132; regression Example C05_jsonbuf_onestep_growth_refuted: growth by "
            "a single step (the code without its increment loop; the shape of seeded change C05-5 in the XML twin) stores 200 bytes into a "
            "block of 152. "
            "(yangstr, sizes and counters only) C05_yangstr_no_underflow: for EVERY sequence of events of read_qstring() / buf_store_char() / "
            "buf_add_char() / end of get_argument() (characters of 1-4 bytes, blanks, tabs, line feeds, valid and invalid escapes, invalid "
            "characters, + concatenation of double- and single-quoted parts, end of input; either first quote, any ctx->indent) trailing_ws "
            "is at most word_len whenever it is subtracted, the assert(need_buf) of the tab branch holds and every store (copy into the "
            "fresh buffer, each character after the single 16-byte step, leftover blanks of a tab, final NUL) lies inside the block of the "
            "moment; C05_yangstr_len_rfc: for ONE double-quoted string without concatenation, given as its lines, any column of the opening "
            "quote, the call succeeds and the returned length is the number of bytes RFC 7950 6.1.3 keeps (specification on lines, "
            "independent of the counters; example C05_yangstr_len_rfc_example); regression Example C05_yangstr_noreset_refuted: without the "
            "reset of trailing_ws after a line break (seeded change C05-3) the subtraction underflows. "
            "No C05 theorem, by construction only: the models of ly_getutf8, lyxml_parse_value (bytes), lyjson_string and "
            "lyplg_type_parse_dec64 (theorems under C01 / C03) are structural recursions on the input list and cannot read past its end. "
            "Tie (T2): extracted models vs the C functions on generated, exhaustive-short, malformed and truncated inputs, release and "
            "ASan+UBSan builds, crash-isolated; for xmlbuf / yangstr / jsonbuf the compared line is return code, dynamic flag, length and the "
            "SEQUENCE of malloc / realloc / free requests of the real lyxml_parse_value() / get_argument() / lyjson_string() on texts rendered from event lists; the "
            "stores themselves are not observable from outside, there ASan is the observer.",
    "note": "Partial by nature: memory safety of the remaining C code, allocation failure paths, leaks and stack depth are runtime "
            "behaviour no Gallina model exhibits. Modelled C: lys_compile_iffeature (lysc_iffeature_value is compared by T2 component "
            "iffv, its theorems are under C11), lyjson_number + helpers, the buffer sizes of lyxml_parse_value / "
            "lyxml_parse_value_use_buf (XmlBuf.v), the buffer sizes of lyjson_string (JsonBuf.v; its bytes: JsonText.v, C01/C12), the counters of read_qstring / buf_store_char / buf_add_char (YangStr.v, YangStrLen.v; "
            "WHICH bytes are kept is slice ytext, C10/C15); T2 only under this property: ly_getutf8, lyxml_parse_value (bytes), "
            "lyjson_string (bytes), lyplg_type_parse_dec64. Oracle level only (search on the implementation, no proof): iff-denote (every rendering "
            "of an if-feature AST compiles and evaluates to its denotation, no crash), decvx (decimal64 value in a heap block of exactly "
            "its length, ASan; regression of /repo f731599), jsonnum-long (mantissas around 65535 bytes), and `robust` (impl/t_robust.c: "
            "structure-aware mutation of valid seeds under ASan+UBSan with a leak check per case, a CPU limit per case, dictionary "
            "reference counts, log-location stack, module list unchanged after every rejected call (names, revisions, implemented, latest-revision "
            "flag and the answers of ly_ctx_get_module_latest / _latest_ns for every loaded module; family `latest-flag`: newer revisions of loaded "
            "modules rejected after the revision comparison, the class of seeded change C05-4), strict error-record rule, LY_EINT never returned, and a health workload "
            "compared with a fresh context) over lys_parse_mem (YANG, YIN, pattern and if-feature inside modules), lyd_parse_data_mem "
            "(XML, JSON x STRICT/ONLY/OPAQ/NO_STATE/ORDERED x PRESENT/NO_STATE/MULTI_ERROR), lyd_parse_op (RPC / notification / reply, YANG + "
            "NETCONF + RESTCONF envelopes), lyd_find_xpath, lyd_eval_xpath4, lys_find_xpath, lyd_find_path, lyd_new_path, "
            "lyd_value_validate (built-in types, ietf-inet-types, ietf-yang-types), ly_pattern_match, and API-built degenerate trees "
            "(lyd_new_any / lyd_any_copy_value / lyd_new_opaq / lyd_new_term / lyd_new_meta / lyd_new_list, then the XML, JSON and LYB "
            "printers, dup, compare, free). LYB INPUT is documented as trusted and is not fuzzed. Outside everything: allocation failure, "
            "the pointer VALUES lyjson_exp_number forms outside the text without dereferencing them (C11 6.5.6p8), threads. The defects "
            "the search found are in known_findings.d/robust.json: all fixed in /repo (commit ids recorded there, witnesses kept as "
            "regression cases in corpus/robust.txt) except the open tags leak:parse_text_field / leak:get_argument (text argument not "
            "released at the nesting limit), leak:lys_parse_in (one dictionary string, trigger not isolated), post:no-error-record:xml-rc3 (invalid UTF-8 inside CDATA of anyxml content: LY_EINVAL without error record), assert:lydxml_subtree_r:xmlctx-status-LYXML_ELEM_CONTENT (NETCONF notification with a malformed eventTime; both found by the last thorough run, reproduced alone, not patched) and timeout:pattern:pattern / "
            "timeout:yang:modpattern / timeout:value:value (PCRE2 backtracking, libyang sets no match limit; deliberately not patched). "
            "The former if-feature and UTF-8 findings of known_findings.json (iff-not-paren, iff-neg-depth, iff-rp-word, "
            "utf8-overlong-4byte) are fixed.",
    "technique": "Coq proof (bounds / termination / counter invariants of as-coded models) + differential correspondence under ASan/UBSan "
                 "+ sanitizer-guided mutation search with post-condition oracle",
}
