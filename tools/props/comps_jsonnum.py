"""comps_jsonnum.py - correspondence component (T2) of slice `jsonnum`: lyjson_number() and the exponent normaliser
lyjson_exp_number() of src/json.c vs JsonNum.number_c (driver impl/t_jsonnum.c, model ocaml/run_jsonnum.ml), plus a
specification-side oracle (JsonNumDenote: the text libyang produces denotes the number that was written)."""
import itertools
import re
from fractions import Fraction

from props.comps import Comp
from vlib import hexs, unhex

ALPHABET = b"0159-+.eE"

# exponents at the limits of the C variables that hold them: long long e_val = strtoll(), the explicit
# UINT16_MAX window, int32_t dp_position, uint16_t num_len, LY_NUMBER_MAXLEN = 22 bytes of output
EXPS = [0, 1, 2, 3, 5, 9, 10, 15, 18, 19, 20, 21, 22, 23, 24, 25, 32, 100, 255, 256, 32767, 32768, 65534, 65535, 65536, 65537,
        131070, 131071, 2147483647, 2147483648, 4294967295, 4294967296, 4294967297, 4294967296 + 5, 999999999999,
        9223372036854775806, 9223372036854775807, 9223372036854775808, 9223372036854775809, 18446744073709551615,
        18446744073709551616, 18446744073709551617, 18446744073709551616 + 3, 10 ** 30]

INTS = ["0", "1", "5", "9", "10", "15", "50", "100", "105", "150", "500", "1000", "1050", "90009", "123456", "1000000",
        "9223372036854775807", "18446744073709551615", "1" * 21, "1" * 22, "1" * 23, "5" + "0" * 20, "5" + "0" * 21, "5" + "0" * 22]
FRACS = ["0", "1", "5", "00", "05", "50", "55", "005", "050", "500", "055", "550", "505", "0055", "5500", "0050", "00505000",
         "123456", "000001", "100000", "0" * 19 + "1", "0" * 20 + "1", "0" * 21 + "1", "0" * 22 + "1", "5" * 20, "5" * 21, "5" * 22]


def rand_number(rng):
    """a mostly well-formed JSON number with the exponent chosen around the layout boundaries of lyjson_exp_number"""
    minus = "-" if rng.random() < 0.3 else ""
    r = rng.random()
    if r < 0.45:
        ip = "0"
    elif r < 0.8:
        ip = rng.choice(INTS)
    else:
        ip = str(rng.randrange(1, 10)) + "".join(rng.choice("0005") for _ in range(rng.randrange(0, 8)))
    r = rng.random()
    if r < 0.25:
        fp = ""
    elif r < 0.65:
        fp = "." + rng.choice(FRACS)
    else:
        fp = "." + "".join(rng.choice("00051") for _ in range(rng.randrange(1, 9)))
    r = rng.random()
    if r < 0.1:
        ex = ""
    else:
        if r < 0.7:
            # exponent that puts the new decimal point around the ends of the digit string
            n = len(ip) + max(0, len(fp) - 1)
            e = rng.randrange(-n - 3, n + 4)
        elif r < 0.85:
            e = rng.choice(EXPS) * rng.choice([1, -1])
        else:
            e = (rng.choice(EXPS) + rng.randrange(-2, 3)) * rng.choice([1, -1])
        sign = "-" if e < 0 else rng.choice(["", "+"])
        ex = rng.choice("eE") + sign + ("0" * rng.choice([0, 0, 0, 1, 3])) + str(abs(e))
    return (minus + ip + fp + ex).encode()


TAILS = [b"", b"]", b",", b" ]", b"}", b".", b".5", b"e", b"x", b"\t\n]", b"-", b"+1", b"E5", b"\xff", b"0"]


class JsonNum(Comp):
    """lyjson_number / lyjson_exp_number vs JsonNum.number_c (jnum: direct call; jdoc: through lyjson_ctx_new/next).
    witness: a crash / sanitizer report / failed post-condition of the driver is a failure of C05 itself."""
    name = "jsonnum"
    driver = "t_jsonnum"
    slice = "jsonnum"

    def gen(self, rng, tier, scale=1.0):
        T = []
        # exhaustive short texts over the alphabet (every layout branch has witnesses of length <= 7)
        maxlen = 7 if tier == "thorough" else 5
        for n in range(0, maxlen + 1):
            for t in itertools.product(ALPHABET, repeat=n):
                T.append(bytes(t))
        # fixed boundary numbers
        F = []
        for ip in ["0", "1", "15", "100", "1" * 21, "1" * 22, "1" * 23]:
            for fp in ["", ".0", ".5", ".05", ".50", ".055", ".0055", ".123456"]:
                for e in EXPS[:26]:
                    for sg in ("", "-", "+"):
                        F.append(("%s%sE%s%d" % (ip, fp, sg, e)).encode())
        for e in EXPS:
            for sg in ("", "-", "+"):
                for m in ("1", "0.5", "1.5", "-0.05", "0", "0.0", "12"):
                    F.append(("%se%s%d" % (m, sg, e)).encode())
                    F.append(("%sE%s000%d" % (m, sg, e)).encode())
        # the documented wrong results of the second layout branch stay in the stream
        F += [b"0.5E1", b"0.50E1", b"0.55E1", b"0.055E2", b"0.0055E3", b"0.123456E3", b"10.0E-1", b"0.05E2", b"50E-1", b"-0.5e1"]
        # output length around LY_NUMBER_MAXLEN in each layout
        for k in range(17, 26):
            F += [b"1E%d" % k, b"-1E%d" % k, b"1.5E%d" % k, b"0.5E%d" % k, b"-0.05E%d" % k, b"1E-%d" % k, b"-1E-%d" % k,
                  b"1.5E-%d" % k, b"0.5E-%d" % k, b"1" + b"0" * k + b"E-1", b"0." + b"0" * k + b"1E1", b"0." + b"5" * k + b"E1",
                  b"0." + b"5" * k + b"E%d" % k, b"0." + b"5" * k + b"E%d" % (k + 1), b"5" * k + b"E-1", b"5" * k + b".5E1",
                  b"5" * k + b"E-%d" % k, b"5" * k + b"E-%d" % (k - 1)]
        # long mantissas (the uint16_t window itself, 65535 bytes, is driven by the oracle JsonNumLong: the list-based
        # model needs minutes for one text of that size)
        for n in (300, 1500):
            F += [b"1" * n + b"E1", b"0." + b"0" * (n - 3) + b"1E5", b"-" + b"1" * (n - 1) + b"E-1", b"1." + b"0" * (n - 2) + b"E1",
                  b"1" + b"0" * (n - 1) + b"E-%d" % (n - 1), b"1" * n]
        T += F
        for _ in range(self.n(tier, 4000, 400000, scale)):
            t = rand_number(rng)
            r = rng.random()
            if r < 0.15:
                # one random edit
                b = bytearray(t)
                k = rng.randrange(len(b) + 1)
                q = rng.random()
                if q < 0.4:
                    b.insert(k, rng.choice(ALPHABET))
                elif q < 0.7 and b:
                    del b[min(k, len(b) - 1)]
                elif b:
                    b[min(k, len(b) - 1)] = rng.choice(ALPHABET + b"x\xc3 ")
                t = bytes(b)
            elif r < 0.25:
                t = t[:rng.randrange(len(t) + 1)]
            T.append(t + rng.choice(TAILS))
        L = ["jnum\t" + hexs(t) for t in T]
        # the same numbers through lyjson_ctx_new()/lyjson_ctx_next(), bare and as the first array member
        for t in F + T[-self.n(tier, 1500, 50000, scale):]:
            if t[:1] and t[:1] in b"-0123456789":
                L.append("jdoc\t" + hexs(t))
                L.append("jdoc\t" + hexs(b"[" + t + b"]"))
        return L

    def witness(self, line, model_out, impl_out):
        if impl_out.startswith("CRASH") or impl_out.startswith("TIMEOUT") or "!" in impl_out:
            return (None, "lyjson_number on %s: %s" % (line.split("\t")[1][:80], impl_out))
        return None


def denote_json(t):
    """exact value of a JSON number text"""
    m = re.fullmatch(rb"(-?)(0|[1-9]\d*)(?:\.(\d+))?(?:[eE]([+-]?\d+))?", t)
    if not m:
        return None
    sg, ip, fp, ex = m.groups()
    fp = fp or b""
    v = Fraction(int(ip + fp), 10 ** len(fp))
    e = int(ex) if ex else 0
    if abs(e) > 70000:
        return None
    v = v * Fraction(10) ** e
    return -v if sg else v


def denote_dec(t):
    m = re.fullmatch(rb"(-?)(\d+)(?:\.(\d+))?", t)
    if not m:
        return None
    sg, ip, fp = m.groups()
    fp = fp or b""
    v = Fraction(int(ip + fp), 10 ** len(fp))
    return -v if sg else v


class JsonNumDenote:
    """the text lyjson_number() hands to the type plugins denotes the JSON number that was written
    (specification side, judged with exact rationals; the defect it exposes is a C03/C01 matter)"""
    name = "jsonnum-denote"
    driver = "t_jsonnum"

    def gen(self, rng, tier, scale=1.0):
        T = []
        maxlen = 7 if tier == "thorough" else 6
        for n in range(3, maxlen + 1):
            for t in itertools.product(b"015-.E", repeat=n):
                t = bytes(t)
                if denote_json(t) is not None:
                    T.append(t)
        for _ in range(int((200000 if tier == "thorough" else 3000) * scale)):
            t = rand_number(rng)
            if denote_json(t) is not None:
                T.append(t)
        return ["jnum\t" + hexs(t) for t in T]

    def judge(self, line, out):
        t = unhex(line.split("\t")[1])
        if out.startswith("CRASH") or out.startswith("TIMEOUT") or "!" in out:
            return (None, out)
        if out == "E":
            return None
        v = unhex(out.split(" ")[0])
        a, b = denote_json(t[:int(out.split(" ")[1])]), denote_dec(v)
        if a is not None and a != b:
            return ("json-exp-number-wrong-value", "%s is handed on as %s" % (t.decode(), v.decode("latin-1")))
        return None


class JsonNumLong:
    """numbers whose mantissa is around 65535 bytes long (uint16_t num_len, the explicit exponent - in > UINT16_MAX test):
    the answer is predicted by the rule of the code (too long: error; otherwise the layout is decided by the output
    length limit of 22 bytes) and the run is under ASan+UBSan"""
    name = "jsonnum-long"
    driver = "t_jsonnum"
    quick_sanitize = True

    def gen(self, rng, tier, scale=1.0):
        L = []
        self.expect = {}
        lens = [65533, 65534, 65535, 65536, 65537, 70000, 131072] if tier == "thorough" else [65534, 65535, 65536, 65537]
        for n in lens:
            cases = [
                (b"1" * n + b"E1", "E"),                                      # too long for 22 bytes or for uint16_t
                (b"-" + b"1" * (n - 1) + b"E-1", "E"),
                (b"0." + b"0" * (n - 3) + b"1E5", "E"),                       # 0.00..01E5 -> 0.00..001 (too long)
                (b"1." + b"0" * (n - 2) + b"E1", "E" if n > 65535 else "10"),  # trailing zeros are dropped: 10
                (b"1" + b"0" * (n - 1) + b"E-%d" % (n - 1), "E" if n > 65535 else "1"),
                (b"0." + b"0" * (n - 3) + b"1E%d" % (n - 2), "E" if n > 65535 else "1"),
                (b"1" * n, "E"),                                               # no exponent: LY_NUMBER_MAXLEN
                (b"0." + b"0" * (n - 2) + b"E5", "0"),                         # zero mantissa: shortened to 0, any length
                (b"1." + b"0" * (n - 2) + b"E0", None),                        # zero exponent: mantissa verbatim, any length
            ]
            for t, exp in cases:
                line = "jnum\t" + hexs(t)
                L.append(line)
                self.expect[line] = exp if exp is not None else t[:t.index(b"E")].decode()
        return L

    def judge(self, line, out):
        if out.startswith("CRASH") or out.startswith("TIMEOUT") or "!" in out:
            return (None, out[:200])
        exp = self.expect.get(line)
        got = out if out == "E" else unhex(out.split(" ")[0]).decode("latin-1")
        if exp is not None and got != exp:
            return (None, "expected %s, got %s" % (exp[:40], got[:40]))
        return None
