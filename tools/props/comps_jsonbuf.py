"""comps_jsonbuf.py - correspondence component (T2) of slice `jsonbuf`: the buffer bookkeeping of lyjson_string() of
src/json.c vs JsonBuf.json_string (driver impl/t_jsonbuf.c, model ocaml/run_jsonbuf.ml). The generator makes EVENT lists
and renders each into a text; compared: return code, dynamic flag, value length and the sequence of malloc / realloc /
free requests."""
from props.comps import Comp
from vlib import hexs

PLAIN = {1: [b"a", b" ", b"/", b"'", b"}", b"\x7f"], 2: ["é".encode()], 3: ["€".encode()], 4: ["\U0001F600".encode()]}
ESC = {1: [b'\\"', b"\\\\", b"\\/", b"\\n", b"\\r", b"\\t", b"\\u0041", b"\\u007f", b"\\u000a"],
       2: [b"\\u00e9", b"\\u0080", b"\\u07FF"], 3: [b"\\u20AC", b"\\u0800", b"\\ufffd", b"\\uD7FF"]}
ESCBAD = [b"\\x", b"\\b", b"\\f", b"\\u0000", b"\\u001f", b"\\uD800", b"\\uFFFE", b"\\u12", b"\\u", b"\\", b"\\U0041", b"\\0"]
BADCHAR = [b"\x01", b"\n", b"\t", b"\xff", b"\xc3", b"\xed\xa0\x80", b"\xc0\x80"]


def render(rng, evs):
    out = []
    for e in evs:
        k, n = e[0], int(e[1:] or 0)
        if k == "p":
            out.append(rng.choice(PLAIN[n]))
        elif k == "r":
            out.append(rng.choice(ESC[n]))
        elif k == "x":
            out.append(rng.choice(ESCBAD))
            break
        elif k == "b":
            out.append(rng.choice(BADCHAR))
            break
        elif k == "e":
            out.append(b'"' + rng.choice([b"", b":1}", b" ,", b"]"]))
            break
        elif k == "z":
            break
    return b"".join(out)


def line(rng, evs):
    return "jbuf\t%s\t%s" % (",".join(evs) if evs else "-", hexs(render(rng, evs)))


class JsonBuf(Comp):
    """lyjson_string (sizes, allocator requests) vs JsonBuf.json_string.
    witness: a crash / sanitizer report / failed post-condition of the driver is a failure of C05 itself."""
    name = "jsonbuf"
    driver = "t_jsonbuf"
    slice = "jsonbuf"

    def gen(self, rng, tier, scale=1.0):
        E = []
        # p pending plain bytes before an escape, around the start size (24), the step (128) and several steps; at the start of
        # the string and after earlier escapes (the variable size then lags behind the block)
        plains = [0, 1, 15, 16, 19, 20, 21, 23, 24, 100, 119, 120, 121, 147, 148, 149, 152, 200, 275, 276, 277, 300, 404, 1000]
        for p in plains:
            for pre in ([], ["r1"], ["r3", "r2"], ["p1"] * 300 + ["r1"], ["p1"] * 300 + ["r1", "r1", "r1"]):
                for k in (1, 2, 3):
                    for post in (["e"], ["p1", "e"], ["z"], ["p1"] * 200 + ["r1", "e"]):
                        E.append(pre + ["p1"] * p + ["r%d" % k] + post)
                E.append(pre + ["p1"] * p + ["x"])
                E.append(pre + ["p1"] * p + ["b"])
                E.append(pre + ["p1"] * p + ["e"])
                E.append(pre + ["p1"] * p + ["z"])
        # runs of escapes crossing the steps one byte at a time
        for k in (1, 2, 3):
            for n in (5, 6, 7, 8, 19, 20, 21, 50, 51, 52, 150, 400):
                E.append(["r%d" % k] * n + ["e"])
                E.append(["p%d" % (k + 1), "r%d" % k] * n + ["e"])
        for n in (10000, 70000):
            E.append(["p1"] * n + ["r1", "p1", "e"])
        # random event lists
        kinds = ["p1"] * 6 + ["p2", "p3", "p4", "r1", "r1", "r1", "r2", "r3"]
        for _ in range(self.n(tier, 3000, 200000, scale)):
            evs = []
            for _ in range(rng.choice([1, 2, 3, 5, 8, 13, 40, 200])):
                k = rng.choice(kinds)
                if k[0] == "p" and rng.random() < 0.5:
                    evs += [k] * rng.choice([1, 3, 19, 20, 21, 100, 120, 127, 128, 129, 400])
                else:
                    evs.append(k)
            evs.append(rng.choice(["e"] * 8 + ["z", "x", "b"]))
            E.append(evs)
        return [line(rng, e) for e in E]

    def witness(self, line, model_out, impl_out):
        if impl_out.startswith("CRASH") or impl_out.startswith("TIMEOUT") or "!" in impl_out:
            return (None, "lyjson_string on events %s: %s" % (line.split("\t")[1][:120], impl_out[:300]))
        return None
