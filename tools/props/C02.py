"""C02 - validation accepts exactly the instances that satisfy the schema (RFC 7950)"""
from props import comps_valid

PID = "C02"
LEVEL = "proof"


def components():
    return [comps_valid.ValidModel(), comps_valid.IdrefModel()]


def oracles_():
    return [comps_valid.ValidMut()]


TRUSTED = [
    "impl/t_valid.c (verdict = return code, vecode, app-tag and the class of the error message; dump with LYD_NEW / "
    "LYD_DEFAULT flags), ocaml/tree_io.ml + ocaml/run_valid.ml (dump and schema tables -> model values), tools/treeenc.py + "
    "tools/validenc.py (yanggen module -> Tree.schema line, schema tree with choices/cases, unique table; sids in "
    "lys_getnext order), tools/yanggen.py (modules, valid-by-construction instances, own XML / JSON encoders), "
    "validenc.py_violations (independent Python reading of the RFC rules used as expectation)",
]

ASSUMPTIONS = [
    "C02_validate_iff_rfc_partial / C02_error_class speak about FRESH trees (every node flagged LYD_NEW, none LYD_DEFAULT, no "
    "non-presence container without children: what a parser builds from a document without empty containers), "
    "C02_history_iff_rfc_partial about trees that satisfy hist_ok (the un-flagged nodes were validated before, no LYD_DEFAULT "
    "flags, no case replacement) with values of their types and list entries with their keys; both about schemas that "
    "satisfy vschema_ok (checked on every generated schema by the correspondence run) and about the modelled rule set only "
    "(no when / must / leafref / instance-identifier, one module); C02_multi_error_first has no hypothesis",
    "type restrictions are a parameter (type_ok): the slices types / restrict / regex prove them; the parser's own checks "
    "(value of the type, list keys) are modelled as a pre-pass on the tree, the document level (unknown elements, key order "
    "in XML) is not",
]

MANIFEST = {
    "category": "proof",
    "text": "Coq (Properties_C02_valid.v, closed under the global context). RfcValid.v is the SPEC: one independent boolean per "
            "RFC 7950 rule (types 9, list keys 7.8.2, single instance 7.5/7.6, key uniqueness 7.8.2, configuration leaf-list "
            "values 7.7, one case per choice 7.9, mandatory leaf/anydata 7.6.5, mandatory choice 7.9.4, min-elements 7.7.5, "
            "max-elements 7.7.6, unique 7.8.3 with defaults in use 7.6.1), flag-free and order-free, read on the tree without "
            "empty non-presence containers (7.5.1). ValidateImpl.v is lyd_validate() AS CODED for these rules (state after the "
            "fixes 06232b2, ba1198e, 357db45): lyd_validate_new (cases old/new with auto-deletion, default auto-deletion incl. "
            "the walk through nested default cases, duplicates ONLY for nodes flagged LYD_NEW), the DFS of "
            "lyd_validate_subtree, lyd_validate_final_r / lyd_validate_siblings_schema_r (choices first, first case with data), "
            "lyd_validate_mandatory / _minmax / _unique with lyd_val_uniq_dflt_in_use, implicit non-presence containers, and the "
            "parser's type / key checks. Theorems: C02_validate_iff_rfc_partial (fresh tree, any well-formed schema: "
            "impl_parse_validate = Ok <-> rfc_valid), C02_error_sound / C02_error_class (an error of class e only when rule class "
            "e is violated; exactly one class violated -> that class with its RFC 7950 section 15 app-tag), "
            "C02_verdict_perm_invariant (rfc_valid, and the verdict on fresh trees, are invariant under any permutation of "
            "siblings at every level), C02_history_iff_rfc_partial (a tree whose un-flagged part was validated before - hist_ok - "
            "and whose flagged nodes are arbitrary: lyd_validate_module = Ok <-> rfc_valid of the content; a new node is checked "
            "against ALL siblings), C02_multi_error_first / _verdict (impl_validate_multi, the code with every return on a "
            "validation error replaced by record-and-continue: for EVERY tree the first logged error is the error of the plain "
            "run, so accept / reject does not depend on LYD_VALIDATE_MULTI_ERROR), C02_identityref_all_bases (one type predicate: "
            "identityref_check_base / lyplg_type_identity_isderived accept exactly the identities derived transitively from ALL "
            "bases, for acyclic base statements; component idrefmodel ties it on random identity hierarchies over two "
            "modules), C02_validate_iff_rfc_refuted (arbitrary flags: an UN-FLAGGED duplicate is accepted - "
            "validation is incremental; since 06232b2 the public insert functions set the flag), C02_regressions (the witnesses "
            "of the fixed findings unique-default-not-in-use and stale-nested-default-case now behave as the RFC says). Tie: "
            "component validmodel runs lyd_validate_module and the extracted impl_validate / rfc_valid on the same trees (the "
            "dump of a LYD_PARSE_ONLY parse with flags, and of trees edited through the API - new path, free, change, move "
            "between list entries, duplicate + insert - and validated again): verdict, error class and app-tag must be equal, "
            "rfc_valid must agree with the verdict (for edited trees: of the resulting explicit content), its violated rules "
            "with an independent Python reading of the RFC; every fresh tree is validated a second time with "
            "LYD_VALIDATE_MULTI_ERROR (libyang reports the LAST logged error = last element of impl_validate_multi); histories: "
            "the valid instance parsed with LYD_PARSE_NO_NEW (validated state, no implicit nodes), nodes added by lyd_new_term / "
            "lyd_new_list2 / lyd_new_path / dup+insert / change, then validated (hist_ok is evaluated on each, and the history "
            "theorem re-checked). Oracle validmut: valid instance + one mutation per rule class (also "
            "must / when on nodes, choices and cases / leafref / instance-identifier) through XML, JSON, LYB, shuffled siblings, "
            "parse+validate, parse-only + validate, lyd_new_path + validate, lyd_free_tree on the validated valid instance + "
            "validate: every route gives the verdict and class expected by construction; duplicates next to leaf-list values "
            "whose node hashes collide; lists with several unique statements, 3+ entries and incomplete earlier sets; the "
            "witnesses of the fixed findings as regression cases.",
    "note": "PARTIAL - what C02_validate_iff_rfc_partial / C02_history_iff_rfc_partial leave out of the full statement: (a) RULES: "
            "when, must, leafref and instance-identifier require-instance, and the type restrictions themselves (a parameter "
            "type_ok) are not in the Coq models - the oracle covers them by construction (incl. every built-in type, "
            "identityref with 1-3 bases, if-feature, state placement); input/output placement (RPC / action) is not covered at "
            "all. (b) TREES: the theorems need hist_ok - the nodes NOT flagged LYD_NEW were validated before (no duplicates, one "
            "case per choice among them), no node is flagged LYD_DEFAULT, new data do not sit in another case than old data - "
            "fresh trees (everything flagged, what a parser builds) are the special case; outside are the auto-deletions "
            "(defaults, old case replaced by a new one: there validation edits the tree and the verdict is about the result - "
            "modelled in ValidateImpl and tied by the correspondence run, not in a theorem), un-flagged duplicates (refuted "
            "theorem: only reachable by manipulating flags or links directly) and explicit empty non-presence containers "
            "(finding empty-np-container-dupcase). (c) OPTIONS / ENTRY POINTS: LYD_VALIDATE_MULTI_ERROR is modelled "
            "(impl_validate_multi; C02_multi_error_first holds for every tree); NO_STATE, OPERATIONAL, NO_DEFAULTS, NOT_FINAL, the "
            "validation diff, RPC / notification / extension-data validation, several modules are not. (d) the implicit default "
            "nodes are not materialised (WithDefaults slice): schemas where a leaf-list has both defaults and min/max-elements "
            "are excluded; the children_ht and the linear path of lyd_validate_duplicates are one model function; the document "
            "level (unknown elements, XML key order) is not modelled. Known findings: instid-notfound-rc, "
            "empty-np-container-dupcase, lyb-when-not-evaluated; fixed: moved-node-dup-unchecked (06232b2), "
            "unique-default-not-in-use (ba1198e), stale-nested-default-case (357db45).",
    "technique": "Coq proof about a transcribed functional model against an RFC-derived specification + differential "
                 "correspondence on libyang trees (with flags) + metamorphic / by-construction API oracle",
}
