"""C02 - validation accepts exactly the instances that satisfy the schema (RFC 7950)"""
from props import comps_valid

PID = "C02"
LEVEL = "proof"


def components():
    return [comps_valid.ValidModel(), comps_valid.IdrefModel(), comps_valid.ConfigModel()]


def oracles_():
    return [comps_valid.ValidMut()]


TRUSTED = [
    "impl/t_valid.c (verdict = return code, vecode, app-tag and the class read from the error message by a prefix table; "
    "dump with LYD_NEW / LYD_DEFAULT flags; edit commands over the public API), ocaml/tree_io.ml + ocaml/run_valid.ml (dump and schema tables -> model values), tools/treeenc.py + "
    "tools/validenc.py (yanggen module -> Tree.schema line, schema tree with choices/cases, unique table; sids in "
    "lys_getnext order), tools/yanggen.py (modules, valid-by-construction instances, own XML / JSON encoders), "
    "validenc.py_violations (independent Python reading of the RFC rules used as expectation)",
]

ASSUMPTIONS = [
    "every theorem is about the Gallina transcriptions in ValidateImpl.v, not about the C text; the C code is tied by the "
    "differential runs (components validmodel, idrefmodel) and the oracle only",
    "C02_validate_iff_rfc_partial / C02_error_sound / C02_error_class / C02_impl_verdict_perm_invariant: vschema_ok vs (schema "
    "tree well formed: choices hold cases, no mandatory node directly under a default case, list keys are leaves, unique "
    "paths lead through containers to a leaf of the list; evaluated on every generated schema by the correspondence run) and "
    "fresh vs f (no LYD_DEFAULT flag, no non-presence container without children; the tree is then validated with every node "
    "flagged LYD_NEW: what a parser builds from a document without empty containers)",
    "C02_history_iff_rfc_partial / C02_history_error_sound: vschema_ok, hist_ok (the nodes NOT flagged LYD_NEW are duplicate-free "
    "among themselves and lie in one case per choice, new data do not sit in another case than old data, no LYD_DEFAULT "
    "flag), no empty non-presence container, and rfc_types / rfc_keys of the content as hypotheses (lyd_validate_module does "
    "not re-check values and keys)",
    "C02_config_validate_iff_rfc_partial / C02_config_error_sound / C02_config_error_class: vschema_ok (cfg_view vs) (the schema "
    "stays well formed when config false nodes lose their constraints and defaults, e.g. no unique of a config true list "
    "over config false leaves with defaults; evaluated on every case of component configmodel) and fresh vs f; the spec "
    "rfc_valid_config and the model share cfg_view, which keeps the schema tree: both are the intended reading only for "
    "cfg_ready schemas (no mandatory choice below a config false node, no unique statement of a config true list over a "
    "config false leaf; not a hypothesis of the proof, cases outside are dropped by configmodel)",
    "C02_identityref_all_bases: IdAcyclic (no identity is transitively its own base; the compiler rejects that). "
    "C02_multi_error_first / _verdict and C02_verdict_perm_invariant have no hypothesis",
    "all theorems: the modelled rule set only (no when / must / leafref / instance-identifier, one module); type restrictions "
    "are a parameter type_ok of the spec and of impl_parse_validate (slices types / restrict / regex; identityref here); the "
    "parser's own checks (value of the type, list keys) are a pre-pass on the tree, the document level (unknown elements, "
    "key order in XML) is not modelled",
]

MANIFEST = {
    "category": "proof",
    "text": "Coq (Properties_C02_valid.v, every theorem closed under the global context) about Gallina models, tied to libyang by "
            "differential runs. RfcValid.v is the SPEC: one independent boolean per RFC 7950 rule (types 9 as a parameter, list "
            "keys 7.8.2, single instance 7.5/7.6, key uniqueness 7.8.2, configuration leaf-list values 7.7, one case per choice "
            "7.9, mandatory leaf/anydata 7.6.5, mandatory choice 7.9.4, min-elements 7.7.5, max-elements 7.7.6, unique 7.8.3 "
            "with defaults in use 7.6.1), flag-free, read on the tree without empty non-presence containers (7.5.1). "
            "ValidateImpl.v TRANSCRIBES lyd_validate() for these rules (state after the fixes 06232b2, ba1198e, 357db45): "
            "lyd_validate_new (cases old/new with auto-deletion, default auto-deletion incl. the walk through nested default "
            "cases, duplicates only for nodes flagged LYD_NEW), the DFS of lyd_validate_subtree, lyd_validate_final_r / "
            "lyd_validate_siblings_schema_r (choices first, first case with data), lyd_validate_mandatory / _minmax / _unique "
            "with lyd_val_uniq_dflt_in_use, implicit non-presence containers (visited, not materialised), the parser's type / "
            "key checks as a pre-pass, the same code in multi-error mode (impl_validate_multi), identityref_check_base, and the "
            "run with LYD_VALIDATE_NO_STATE (impl_parse_validate_config: the per-node 'state' check of lyd_validate_final_r at "
            "every level before the schema checks of that level; the `continue` on LYS_CONFIG_R schema nodes in "
            "lyd_validate_siblings_schema_r and lyd_new_implicit = running on RfcValid.cfg_view vs, the schema in which "
            "config false nodes carry no mandatory / min / max / unique constraint and no default). "
            "Theorems (hypotheses: ASSUMPTIONS): C02_validate_iff_rfc_partial (vschema_ok, fresh tree: impl_parse_validate = Ok "
            "<-> rfc_valid); C02_error_sound / C02_error_class (fresh: an error of class e only if rule class e is violated; "
            "exactly one class violated -> that class, reported as LY_EVALID / LYVE_DATA / app-tag of C02_apptags); "
            "C02_history_iff_rfc_partial / C02_history_error_sound (hist_ok: the un-flagged part was validated before, flagged "
            "nodes arbitrary, values and keys of the content fine: impl_validate = Ok <-> rfc_valid of the content; a new node is "
            "compared with ALL siblings; C02_history_examples); C02_multi_error_first / _verdict (every tree, no hypothesis: the "
            "first error logged by impl_validate_multi is the error of impl_validate, so the MODEL's accept / reject does not "
            "depend on LYD_VALIDATE_MULTI_ERROR; C02_multi_error_example); C02_identityref_all_bases (idref_check accepts exactly "
            "the identities derived transitively from ALL bases, for acyclic base statements; C02_identityref_example); "
            "C02_verdict_perm_invariant (rfc_valid is invariant under permutation of siblings at every level, all trees) and "
            "C02_impl_verdict_perm_invariant (so is impl_parse_validate = Ok on fresh trees); C02_config_validate_iff_rfc_partial "
            "(vschema_ok (cfg_view vs), fresh tree: impl_parse_validate_config = Ok <-> rfc_valid_config = no config false node "
            "in the tree (rfc_nostate) and rfc_valid for cfg_view vs), C02_config_error_sound / C02_config_error_class (an error "
            "of class e only if class e is violated, EState = some node is config false; exactly one class violated -> that "
            "class), C02_config_view (cfg_view keeps kinds, keys, config flags and the schema tree, changes info by neut only), "
            "C02_config_example (a mandatory config false leaf: the configuration alone is accepted with the option and "
            "rejected without it, configuration + state the other way round); C02_validate_iff_rfc_refuted (the "
            "iff for ARBITRARY flags, Definition C02_validate_iff_rfc, is false in the model: an un-flagged duplicate is accepted - validation is incremental; "
            "since 06232b2 the public insert functions set the flag); C02_regressions (model facts: the witnesses of the fixed "
            "findings unique-default-not-in-use and stale-nested-default-case now get the RFC verdict); C02_example (the "
            "hypotheses are satisfiable, one mutation per class gives that class). Tie T2: component validmodel runs "
            "lyd_validate_module (driver impl/t_valid.c) and the extracted impl_validate / rfc_valid on the same trees - the dump "
            "WITH LYD_NEW / LYD_DEFAULT flags of a LYD_PARSE_ONLY parse (generated modules, valid or 1-3 mutations; families for "
            "several unique statements, implicit nodes under nested choices, cases that start with implicit defaults), of "
            "trees edited through the API and validated again, and of histories (valid instance parsed with LYD_PARSE_NO_NEW, "
            "nodes added by lyd_new_term / lyd_new_list2 / lyd_new_path / dup+insert / change): verdict, error class and app-tag "
            "must be equal; rfc_valid must agree with the verdict (edited trees: of the resulting explicit content), its violated "
            "rules with an independent Python reading of the RFC; vschema_ok / fresh / hist_ok are evaluated and the two iff "
            "theorems re-checked on every case; every fresh tree is validated again with LYD_VALIDATE_MULTI_ERROR (libyang "
            "reports the last logged error = last element of impl_validate_multi). Component idrefmodel: random acyclic identity "
            "hierarchies over two modules, identityref with 1-3 bases, libyang's acceptance = idref_check. Component configmodel: "
            "lyd_validate_module with LYD_VALIDATE_NO_STATE on LYD_PARSE_ONLY trees of modules with config false nodes (valid "
            "instance with its state data, its configuration part, the configuration part after 1-3 mutations) = extracted "
            "impl_parse_validate_config (verdict and error class incl. 'state'), and C02_config_validate_iff_rfc_partial "
            "re-checked on every case (hypotheses and cfg_ready evaluated by the model, cases outside dropped). ORACLE validmut "
            "(expectation by construction / Python reading, no model): valid instance + one mutation per rule class, the same "
            "families, fixed documents for must, when on nodes / choices / cases, leafref, instance-identifier, if-feature, and "
            "type restrictions of every built-in type, through XML, JSON, LYB, shuffled siblings, parse+validate, parse-only + "
            "lyd_validate_module / _all, each also with MULTI_ERROR, lyd_new_path + validate, lyd_free_tree or lyd_new_term / "
            "lyd_new_list2 (duplicate, other lexical form, or fresh) on the validated instance + validate, NO_STATE placement: "
            "every route gives the verdict (and class where one error is expected); leaf-list values with colliding node hashes; "
            "the witnesses of the fixed findings as regression cases.",
    "note": "PARTIAL. (a) RULES: when, must, leafref and instance-identifier require-instance and the type restrictions (parameter "
            "type_ok; only identityref is modelled) are not in the Coq models - oracle level only, incl. if-feature; state "
            "placement is modelled for LYD_VALIDATE_NO_STATE only (LYD_PARSE_NO_STATE: oracle only); input/output placement "
            "(RPC / action) is covered by nothing. (b) TREES: the iff theorems need hist_ok "
            "(fresh trees = everything flagged are the special case); outside are the auto-deletions (defaults, old case replaced "
            "by a new one: validation edits the tree, the verdict is about the result - transcribed in ValidateImpl and tied by "
            "the correspondence run, no theorem), un-flagged duplicates (refuted theorem; reachable only by manipulating flags "
            "or links directly) and explicit empty non-presence containers (finding empty-np-container-dupcase). (c) OPTIONS: "
            "LYD_VALIDATE_MULTI_ERROR and LYD_VALIDATE_NO_STATE are modelled, NO_STATE for fresh trees only (no history theorem, "
            "not combined with MULTI_ERROR, schemas with a mandatory choice below a config false node, with a unique of a config true "
            "list over a config false leaf, or with an ill-formed configuration view excluded = outside cfg_ready. Observed on "
            "the excluded unique shape (thorough seed 1, list l47 { unique \"lf46\"; leaf lf46 { default; config false } }): with "
            "NO_STATE libyang does not create the default node of lf46 but lyd_validate_unique still compares its schema default "
            "(lyd_val_uniq_dflt_in_use) and rejects two entries with data-not-unique, while cfg_view drops the default and "
            "accepts; not triaged as a defect, the shape is outside the theorem's reading and dropped by configmodel); OPERATIONAL, NO_DEFAULTS, NOT_FINAL, the validation "
            "diff, RPC / notification / extension-data validation, several modules (beyond an imported identity module) are not. "
            "(d) implicit default nodes are not materialised (WithDefaults slice): schemas where a leaf-list has both defaults "
            "and min/max-elements are excluded; the children_ht and the linear path of lyd_validate_duplicates are one model "
            "function (hash collisions: oracle only); the document level (unknown elements, XML key order) is not modelled; the "
            "error class of libyang is read from the message text by impl/t_valid.c. Known findings (still reproduce): "
            "instid-notfound-rc, empty-np-container-dupcase, lyb-when-not-evaluated; fixed: moved-node-dup-unchecked (06232b2), "
            "unique-default-not-in-use (ba1198e), stale-nested-default-case (357db45).",
    "technique": "Coq proof about a transcribed functional model against an RFC-derived specification + differential "
                 "correspondence on libyang trees (with flags) + metamorphic / by-construction API oracle",
}
