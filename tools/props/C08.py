"""C08 - XPath evaluation on data follows XPath 1.0 with the YANG data model"""
from props import comps_xpath as X

PID = "C08"
LEVEL = "proof"


def components():
    return [X.XPathEval(), X.XPathS2N(), X.XPathN2S()]


def oracles_():
    return [X.XPathFastPair(), X.XPathMust(), X.XPathRegress(), X.XPathSan()]


TRUSTED = [
    "tools/props/comps_xpath.py: XPath text <-> AST (renderer/parser) and the tree dump handed to the model",
    "the reference semantics coq/XPathSem.v (spec_flags) as a reading of the W3C XPath 1.0 recommendation",
]

ASSUMPTIONS = [
    "trees of the fixed module family a/b (containers, keyed lists incl. two keys and user-ordered, leaf-lists, defaults, "
    "an augmenting second module); no metadata, no opaque nodes, no RPC/notification context, LY_VALUE_JSON prefixes",
    "numbers: exponent range of long double not modelled (magnitudes between 2^-1000 and 2^1000)",
]

MANIFEST = {
    "text": "The XPath evaluator of libyang as a whole (src/xpath.c, 10 kLoC) is NOT modelled statement by statement. The Coq "
            "artefact is (A) an executable reference semantics of XPath 1.0 on YANG data trees written from the W3C "
            "recommendation (XPathSem.eval with spec_flags: 13 axes, node tests, predicates with position()/last(), filters, "
            "unions, operators, core function library, current()), carrying one switch per construct in which xpath.c still "
            "departs from the recommendation (impl_flags = as coded, 7 switches), proved to have the set-theoretic properties "
            "of the property text FOR EVERY SETTING OF THE SWITCHES, in particular as coded: C08_eval_nodeset_sorted_nodup / "
            "C08_eval_nodeset_nodup / C08_eval_nodeset_nodup_as_coded (every node-set value of every expression is strictly "
            "increasing in document order, hence duplicate free), C08_union_comm, C08_predicate_true_identity, "
            "C08_child_step_is_filter_of_children, C08_step_no_preds_is_union, C08_descendant_or_self_decomposes, "
            "C08_fastpath_equiv (l[k='v'] selects exactly the instances whose key child has string value v); the lookup "
            "clause (coq/XPathLookup.v): the as-coded condition of the key lookup as a boolean (ctx_free value: no relative "
            "path start / implicit context node / position() / last() outside nested predicates; evaluates to a string or "
            "exactly one node), the lookup itself (values evaluated once, instances whose key tuple has these values) and "
            "C08_ctx_free_eval (such a value is the same for every instance, for every setting of the switches), "
            "C08_lookup_eq_generic / C08_lookup_step_eq_generic (the lookup selects exactly the node-set, in the same order, "
            "that generic evaluation of the predicates selects: every tree, context, context set, candidate list, number of "
            "keys; recommendation flags - the type/canonical-form conditions of the code belong to the listed cmp-canonize "
            "deviation), C08_lookup_answer_eq_eval (executable form, run on the pair-oracle inputs in the correspondence), "
            "with the two defect classes repaired in 97c7154 as refutations of the old condition; and (B) the "
            "conversion kernels modelled as coded (cast_string_to_number: Number syntax check + strtold, lyxp_set_cast number->string: "
            "shortest decimal that strtold reads back, floorl/ceill, string-length/substring on bytes) with impl = spec theorems at "
            "full strength where the code follows the recommendation (C08_s2n_impl_eq_spec for EVERY string and precision, "
            "C08_n2s_impl_eq_spec for every long double, C08_floor_impl_eq_spec for all numbers) or on the domain where it does "
            "(C08_string_length_ascii) with refutation witnesses elsewhere; "
            "the two conversion kernels of the code are tied to the recommendation kernel at 64 bits. Tie to xpath.c: differential testing only - "
            "lyxp_eval()/lyd_eval_xpath4() on generated expressions x trees x context nodes must answer the reference result, or "
            "the as-coded result, in which case the needed switches name a LISTED deviation (known_findings.d/xpath.json: 7 "
            "known, each with a replay on the real library; a switch whose replay answers the reference result is put back "
            "for the run, so a repaired deviation needs no model change; 27 fixed in /repo 61e2388..c545a4e, whose witnesses "
            "stay as regression cases); any other answer, crash or failed assertion is a violation. Oracles on the implementation "
            "itself: key predicates answered by the hash lookup select the same nodes as forced generic evaluation, on lists "
            "without and with the children hash table; the must decisions of lyd_validate_module() equal the conjunction of "
            "lyd_eval_xpath3() of every must of every node (explicit, default leaf, implicit container, list instance) of the "
            "default-completed tree on generated modules and data; no sanitizer report on generated expressions.",
    "note": "Not modelled: deref(), re-match(), derived-from(-or-self)(), enum-value(), bit-is-set(), lang(), id(), "
            "namespace-uri(), variables, metadata (attribute axis is empty in the model), opaque nodes, when/must integration, "
            "schema (atom) evaluation. Unprefixed names follow the JSON rule (module of the parent node). The key lookup of "
            "the code ([key=value] answered by one hash lookup) is not modelled: it must agree with generic evaluation (pair oracle with "
            "literal, numeric, boolean and node-set values, also relative to the list instance and to its parent) and with "
            "the reference semantics; no deviation of it is listed any more (repaired in /repo 434e77e, a599f2f, 97c7154).",
    "technique": "Coq proof over an executable specification + as-coded kernels, differential correspondence (extracted OCaml vs C) "
                 "with deviation attribution, implementation-level oracles",
}
