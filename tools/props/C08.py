"""C08 - XPath evaluation on data follows XPath 1.0 with the YANG data model"""
from props import comps_xpath as X

PID = "C08"
LEVEL = "proof"


def components():
    return [X.XPathEval(), X.XPathS2N(), X.XPathN2S()]


def oracles_():
    return [X.XPathFastPair(), X.XPathSan()]


TRUSTED = [
    "tools/props/comps_xpath.py: XPath text <-> AST (renderer/parser) and the tree dump handed to the model",
    "the reference semantics coq/XPathSem.v (spec_flags) as a reading of the W3C XPath 1.0 recommendation",
]

ASSUMPTIONS = [
    "trees of the fixed module family a/b (containers, keyed lists incl. two keys and user-ordered, leaf-lists, defaults, "
    "an augmenting second module); no metadata, no opaque nodes, no RPC/notification context, LY_VALUE_JSON prefixes",
    "numbers: exponent range of long double not modelled (magnitudes between 2^-1000 and 2^1000)",
]

MANIFEST = {
    "text": "The XPath evaluator of libyang as a whole (src/xpath.c, 10 kLoC) is NOT modelled statement by statement. The Coq "
            "artefact is (A) an executable reference semantics of XPath 1.0 on YANG data trees written from the W3C "
            "recommendation (XPathSem.eval with spec_flags: 13 axes, node tests, predicates with position()/last(), filters, "
            "unions, operators, core function library, current()), proved to have the set-theoretic properties of the property "
            "text: C08_eval_nodeset_sorted_nodup / C08_eval_nodeset_nodup (every node-set value of every expression is strictly "
            "increasing in document order, hence duplicate free), C08_union_comm, C08_predicate_true_identity, "
            "C08_child_step_is_filter_of_children, C08_step_no_preds_is_union, C08_descendant_or_self_decomposes, "
            "C08_fastpath_equiv (l[k='v'] selects exactly the instances whose key child has string value v); and (B) the "
            "conversion kernels modelled as coded (cast_string_to_number/strtold, lyxp_set_cast number->string, "
            "xpath_floor/ceiling/round, string-length/substring on bytes) with impl = spec theorems on the domains where the "
            "code follows the recommendation (C08_s2n_impl_eq_spec_plain, C08_n2s_impl_eq_spec_int, "
            "C08_floor_impl_eq_spec_nonneg, C08_string_length_ascii) and refutation witnesses elsewhere. "
            "The same evaluator carries one switch per construct in which xpath.c departs from the recommendation "
            "(impl_flags, 25 switches). Tie to xpath.c: differential testing only - lyxp_eval()/lyd_eval_xpath4() on generated "
            "expressions x trees x context nodes must answer the reference result, or the as-coded result, in which case the "
            "needed switches name a LISTED deviation (known_findings.d/xpath.json, 30 entries, each with a replay on the real "
            "library; a switch whose canonical witness the tree under test answers as the recommendation says is put back "
            "automatically, so repaired deviations need no model change); any other answer is a violation. Oracle on the implementation itself: key predicates answered by the "
            "hash lookup select the same nodes as forced generic evaluation, on lists without and with the children hash "
            "table.",
    "note": "Not modelled: deref(), re-match(), derived-from(-or-self)(), enum-value(), bit-is-set(), lang(), id(), "
            "namespace-uri(), variables, metadata (attribute axis is empty in the model), opaque nodes, when/must integration, "
            "schema (atom) evaluation. Unprefixed names are modelled by the documented rule (module of the context node) only; "
            "the code's mix of that rule and any-module matching is a listed deviation decided syntactically. The theorem "
            "C08_eval_nodeset_sorted_nodup excludes the switch f_alldup: with it (the code as it is) C08_nodeset_nodup_refuted "
            "exhibits a node-set with a duplicate, confirmed on the library.",
    "technique": "Coq proof over an executable specification + as-coded kernels, differential correspondence (extracted OCaml vs C) "
                 "with deviation attribution, implementation-level oracle",
}
