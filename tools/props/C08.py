"""C08 - XPath evaluation on data follows XPath 1.0 with the YANG data model"""
from props import comps_xpath as X

PID = "C08"
LEVEL = "proof"


def components():
    return [X.XPathEval(), X.XPathS2N(), X.XPathN2S()]


def oracles_():
    return [X.XPathFastPair(), X.XPathMust(), X.XPathRegress(), X.XPathSan()]


TRUSTED = [
    "tools/props/comps_xpath.py: XPath text <-> AST (renderer/parser) and the tree dump handed to the model",
    "the reference semantics coq/XPathSem.v (spec_flags) as a reading of the W3C XPath 1.0 recommendation",
    "impl/t_xpath.c (driver: lyxp_eval, lyd_eval_xpath3/4, lyd_validate_module on the tree under test)",
]

ASSUMPTIONS = [
    "correspondence runs: trees of the fixed module family a/b (containers, keyed lists incl. two keys, user-ordered and a "
    "list directly in a list, leaf-lists, choice/case, defaults, an augmenting second module); no metadata, no opaque "
    "nodes, no RPC/notification context, LY_VALUE_JSON prefixes; the must oracle uses its own generated modules (must only)",
    "theorems about node-sets assume wf_tree (node ids are the pre-order positions); numbers: the exponent range of long "
    "double is not modelled (generators keep magnitudes between 2^-1000 and 2^1000)",
]

MANIFEST = {
    "text": "MODELLED, NOT VERIFIED: the XPath evaluator of libyang (src/xpath.c, about 10 kLoC) is not transcribed. The Coq "
            "artefact is (A) an executable reference semantics of XPath 1.0 on YANG data trees written from the W3C "
            "recommendation (XPathSem.eval with spec_flags: 13 axes, node tests, predicates with position()/last(), filters, "
            "unions, operators, core function library, current()) carrying one switch per construct in which xpath.c still "
            "departs from it (impl_flags = as coded, 7 switches). Proved FOR EVERY SETTING OF THE SWITCHES (so also as coded), "
            "for wf_tree trees: C08_eval_nodeset_sorted_nodup / C08_eval_nodeset_nodup / C08_eval_nodeset_nodup_as_coded (every "
            "node-set value of every expression is strictly increasing in document order, hence duplicate free); without tree "
            "hypothesis: C08_union_comm, C08_predicate_true_identity, C08_ctx_free_eval (a value expression without relative "
            "path start / implicit context node / position() / last() outside nested predicates has the same value in every "
            "context with the same current()). Proved for the RECOMMENDATION FLAGS ONLY (spec_flags): "
            "C08_child_step_is_filter_of_children, C08_step_no_preds_is_union and C08_descendant_or_self_decomposes (wf_tree, "
            "not the namespace/attribute axis), C08_fastpath_equiv (l[k='v'] from one context node selects exactly the "
            "instances whose key child has string value v), and the lookup clause (coq/XPathLookup.v, a MODEL of the condition "
            "of eval_name_test_try_compile_predicate_append since /repo 97c7154: lookup_ok = every value is context-free and "
            "evaluates to a string or exactly one node; lookup_insts = values evaluated once, instances whose key tuple has "
            "these strings): C08_lookup_eq_generic / C08_lookup_step_eq_generic (the lookup selects exactly the node-set, in "
            "the same order, that generic evaluation of the key predicates selects - every tree, context, context set, "
            "candidate list, number of keys) and C08_lookup_answer_eq_eval (executable form); the further conditions of the "
            "code (type of the value node, canonical string for the key type) are NOT modelled, they exist because of the "
            "listed deviation xpath-cmp-canonize; Examples C08_lookup_context_dependent_refuted / "
            "C08_lookup_nodeset_as_string_refuted show that the condition before 97c7154 breaks the equation. (B) the "
            "conversion kernels transcribed as coded (cast_string_to_number: Number syntax check + strtold; lyxp_set_cast "
            "number->string: shortest decimal that strtold reads back; floorl/ceill; string-length on bytes): "
            "C08_s2n_impl_eq_spec (every string, every precision), C08_n2s_impl_eq_spec (every long double: x_ld, a fixed point "
            "of rounding to 64 bits; against the recommendation read at 64 bits, not at IEEE double), C08_floor_impl_eq_spec "
            "(every number with non-negative magnitude, x_wf; equality up to x_same), C08_string_length_ascii (ASCII strings "
            "only; beyond that bytes and characters differ: listed deviation xpath-string-bytes); regression Examples "
            "C08_s2n_regression, C08_n2s_regression, C08_floor_ceiling_regression, C08_fastpath_nonstring_rhs_regression, "
            "C08_hypotheses_satisfiable. TIE TO xpath.c - differential testing only (T2): lyxp_eval()/lyd_eval_xpath4() on "
            "generated expressions x trees x context nodes (incl. the inputs of the pair oracle) must answer the reference "
            "result, or the as-coded result, in which case the needed switches name a LISTED deviation (known_findings.d/"
            "xpath.json, status known: xpath-predicate-position-global, xpath-cmp-canonize, xpath-namespace-axis, "
            "xpath-text-nodes, xpath-string-value-indent, xpath-string-bytes, xpath-long-double, each with a replay on the "
            "real library; a switch whose replay answers the reference result is put back for the run, so a repaired deviation "
            "needs no model change; the deviations fixed in /repo 61e2388..c545a4e stay as regression cases); any other answer, "
            "crash or failed assertion is a violation; cast_string_to_number and number->string are compared with the "
            "recommendation kernels at 64 bits, and the modelled lookup answers the same as the evaluation on the cases that "
            "take it. ORACLE LEVEL ONLY (implementation against itself, no model): key predicates answered by the hash lookup "
            "select the same nodes as the same predicates forced to generic evaluation (literal, numeric, boolean and node-set "
            "values, relative to the instance and to its parent; lists without and with the children hash table); "
            "lyd_validate_module() refuses data exactly when lyd_eval_xpath3() of some must of some node (explicit, default "
            "leaf, implicit container, list instance) of the default-completed tree is false; fixed expected answers for "
            "metadata, comment(), the YANG functions, re-match() and schema atoms; no sanitizer or leak report.",
    "note": "Outside the model (covered at most by fixed-answer regression cases of the oracle XPathRegress): deref(), "
            "re-match(), derived-from(-or-self)(), enum-value(), bit-is-set(), lang(), id(), namespace-uri(), variables, metadata "
            "(the attribute axis is empty in the model), opaque nodes, schema (atom) evaluation. when is outside everything; "
            "must only through the decision oracle. Unprefixed names follow the JSON rule (module of the parent node). The "
            "hash lookup code itself (moveto_node_hash_child, ly_path predicates, hash tables) is not transcribed: XPathLookup "
            "models its condition and result at the level of node-sets, the tie is the correspondence run and the pair oracle; "
            "no deviation of the lookup is listed any more (repaired in /repo 434e77e, a599f2f, 97c7154).",
    "technique": "Coq proof over an executable specification + as-coded kernels, differential correspondence (extracted OCaml vs C) "
                 "with deviation attribution, implementation-level oracles",
}
