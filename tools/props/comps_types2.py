"""comps_types2.py - slice `types2` (property C03): driver impl/t_types2.c, model coq/TypesMore.v.

  SourceIndep   oracle: ONE lexical value offered through every source that can carry a value (XML, JSON string and
                literal, lyd_new_term, lyd_new_list, lyd_new_path value and predicates, lyd_find_path, lyd_value_validate,
                lyd_change_term, schema default, duplicate, LYB) must be accepted/rejected identically and give the same
                canonical string. The format-specific rules that RFC 7951 / RFC 7950 define are the ONLY exceptions and are
                written down one by one in SourceIndep.expect().
  EnumStore BitsStore BinStore StrLenStore UnionStore Cmp2 Sort2
                T2 correspondence of the extracted model (coq/TypesMore.v) against lyd_new_term / lyd_value_compare /
                sorted insertion, with witness() = RFC 7950 section 9 reading written independently in Python.

  Types2Rfc     oracle: the same cases judged against the RFC 7950 section 9 / RFC 4648 reading written in Python.

  DerivedRfc    oracle: the ietf-inet-types / ietf-yang-types derived types and identityref against a Python reference
                written from RFC 6991, RFC 5952 and RFC 3339: canonical string, idempotence, equality and duplicate
                detection modulo canonical form, order independence of sorted insertion.
  Ip4PrefixHost T2: TypesMore.ip4p_store (ipv4prefix_zero_host) for every prefix length.

Tags of the listed findings (known_findings.d/types2.json); anything else is reported untagged (None):
  union-member-eq       union values of different member types with the same canonical string are not equal
  dt-day-overflow       date-and-time: day 30 of February etc. normalised instead of refused (libyang's unit tests require it)
  dt-sort-eq            date-and-time: sort callback says equal for values the compare callback distinguishes (unit tests require it)
  dt-year-10000         date-and-time: canonical string with a 5-digit year is not accepted again
  ip6-embedded-v4-leading-zero   ipv6 text with an embedded dotted quad octet written with a leading zero: pattern admits, inet_pton refuses
  idref-empty-prefix    identityref value :name accepted
Retired tags (fixed in /repo, the regression cases stay in the generators and a reappearance is a violation):
  binary-pad-bits c0ee3aa (non-zero unused base64 bits: canonical string now re-encoded), str-nonchar d2cc93f
  (noncharacters refused by ly_getutf8/ly_checkutf8), yang-plane4-char f25b870, dt-str2time-overread 9ddb75e,
  json-int64-base0 5c9a53f, dt-lexical 507eb73 (date-and-time pattern checked), dt-sort-overflow 33f29b0,
  idref-any-base f805b4f (identityref derived from all bases), dt-zone-hour 7817ee6 (offset hour below -23), dt-zone-sign-00 b8ef36b,
  path-canon-format 7dc3ec2 (canonical paths stored in the canonical format).

Type names are those of the table TYPES in impl/t_types2.c (module types2, prefix t2)."""
import base64
import re

import gens
from props.comps import Comp
from vlib import hexs, unhex

I64MIN, I64MAX, U64MAX = -2 ** 63, 2 ** 63 - 1, 2 ** 64 - 1
WS = [b" ", b"\t", b"\n", b"\r", b"\x0b", b"\x0c"]

# jrep: how RFC 7951 encodes a value of the type: str (JSON string), num (JSON number, 6.1: int8..uint32),
# bool (6.3), empty (6.9), union (6.10: depends on the member)
TYPES = {
    "i8r": {"jrep": "num", "int": True, "valid": b"0"},
    "u64r": {"jrep": "str", "int": True, "valid": b"0"},
    "u32": {"jrep": "num", "int": True, "valid": b"0"},
    "i64": {"jrep": "str", "int": True, "valid": b"0"},
    "d1r": {"jrep": "str", "valid": b"0.0"},
    "d2r": {"jrep": "str", "valid": b"0.0"},
    "d18r": {"jrep": "str", "valid": b"0.5"},
    "s": {"jrep": "str", "valid": b"ab"},
    "sl": {"jrep": "str", "valid": b"ab"},
    "sp": {"jrep": "str", "valid": b"a"},
    "b": {"jrep": "bool", "valid": b"true"},
    "en": {"jrep": "str", "valid": b"red"},
    "bt": {"jrep": "str", "valid": b"a"},
    "bs": {"jrep": "str", "valid": b"x"},
    "bin": {"jrep": "str", "valid": b"YWI="},
    "binu": {"jrep": "str", "valid": b"YWI="},
    "un": {"jrep": "union", "int": True, "valid": b"auto"},
    "un2": {"jrep": "union", "int": True, "valid": b"a"},
    "un3": {"jrep": "str", "int": True, "valid": b"1"},
    "idr": {"jrep": "str", "prefixed": True, "valid": b"types2:iab"},
    "lref": {"jrep": "num", "int": True, "valid": b"1"},
    "iid": {"jrep": "str", "prefixed": True, "valid": b"/types2:tgt"},
    "nii": {"jrep": "str", "prefixed": True, "valid": b"/types2:tgt"},
    "em": {"jrep": "empty", "nodflt": True, "valid": b""},
    "tc": {"jrep": "num", "int": True, "valid": b"20"},
    "ip4": {"jrep": "str", "valid": b"1.2.3.4"},
    "ip6": {"jrep": "str", "valid": b"::1"},
    "ip4p": {"jrep": "str", "valid": b"10.0.0.0/8"},
    "ip6p": {"jrep": "str", "valid": b"::/0"},
    "ipa": {"jrep": "str", "valid": b"1.2.3.4"},
    "ip4nz": {"jrep": "str", "valid": b"1.2.3.4"},
    "ip6nz": {"jrep": "str", "valid": b"::1"},
    "dt": {"jrep": "str", "valid": b"2020-01-01T00:00:00Z"},
    "hx": {"jrep": "str", "valid": b"aa:bb"},
    "mac": {"jrep": "str", "valid": b"00:11:22:33:44:55"},
    "uu": {"jrep": "str", "valid": b"123e4567-e89b-12d3-a456-426614174000"},
}

JFAM = ["nt", "ntl", "nl", "np", "npl", "pk", "pl", "fk", "fl", "vk", "ct", "dup", "lyb"]
XFAM = ["xl", "xk", "xll"]
JSTR = ["jl", "jk", "jll"]
JLIT = ["Jl", "Jk", "Jll"]
DFAM = ["df", "dfl"]
JSON_INT = re.compile(rb"-?(0|[1-9][0-9]*)")
JSON_DEC = re.compile(rb"-?(0|[1-9][0-9]*)\.[0-9]+")


# ------------------------------------------------------------------------------------------------
# values
# ------------------------------------------------------------------------------------------------
def int_forms(rng, v, full=True):
    d = str(abs(v)).encode()
    sg = b"-" if v < 0 else b""
    out = [sg + d]
    if v >= 0:
        out.append(b"+" + d)
    if v == 0:
        out += [b"-0", b"+0", b"00"]
    out += [sg + b"0" + d, sg + b"00" + d, b" " + sg + d, sg + d + b" ", b" " + sg + d + b" ", b"\t" + sg + d + b"\n"]
    if full:
        out += [sg + d + b".0", sg + d + b"e0", b"0x" + d, sg + b"0x" + d, sg + d + b"x", sg + sg + d, sg + b" " + d, b"0" + sg + d,
                sg + d + b"\xc2\xa0", b"\xc2\xa0" + sg + d, sg + d + b"L", sg + b"0o" + d, sg + b"0b1", sg + d + b"\r"]
    return out


def int_values(rng, lo, hi, parts, n_rand):
    pts = {lo, hi, 0, 1, -1, 7, 8, 9, 10, 16, 17}
    for a, b in parts:
        pts |= {a, b}
    vals = set()
    for p in pts:
        vals |= {p - 1, p, p + 1}
    out = []
    for v in sorted(vals):
        out += int_forms(rng, v, full=(v in pts))
    for _ in range(n_rand):
        v = rng.choice([rng.randint(lo, hi), rng.choice(sorted(pts)) + rng.randint(-3, 3), rng.randint(-2 ** 65, 2 ** 65)])
        out.append(rng.choice(int_forms(rng, v)))
    out += [b"", b" ", b"-", b"+", b"--1", b"0x", b"0x10", b"010", b"0b1", b"1e1", b"1E1", b"1.5", b"one", b"0x1g", b"08", b"0xFF", b"0Xff",
            b"-0x10", b"-010", b"+0x1", b"0 ", b" 07", b"007", b"0x7f", b"0x80", b"0200", b"0177", b"1_0", b"1,0", b"\xef\xbc\x95", b"NaN",
            b"9" * 30, b"-" + b"9" * 30, b"0" * 40 + b"5"]
    return out


def dec_forms(rng, fd, n):
    ds = str(abs(n)).zfill(fd + 1)
    ip, fp = ds[:-fd].encode(), ds[-fd:].encode()
    sg = b"-" if n < 0 else b""
    fps = fp.rstrip(b"0")
    out = [sg + ip + b"." + fp, sg + ip + b"." + (fps or b"0"), sg + ip + b"." + fp + b"0", sg + ip + b"." + fp + b"00000"]
    if not fps:
        out += [sg + ip, sg + ip + b".", sg + ip + b".0"]
    if n >= 0:
        out.append(b"+" + ip + b"." + fp)
    out += [sg + b"0" + ip + b"." + fp, b" " + sg + ip + b"." + (fps or b"0"), sg + ip + b"." + (fps or b"0") + b" ", sg + ip + b"." + fp + b"1",
            sg + ip + b"," + fp, sg + ip + b"." + (fps or b"0") + b"e0"]
    if ip == b"0":
        out += [sg + b"." + fp]
    return out


def dec_values(rng, fd, parts, n_rand):
    pts = {I64MIN, I64MAX, 0, 1, -1, 10 ** fd, 15 * 10 ** (fd - 1)}
    for a, b in parts:
        pts |= {a, b}
    out = []
    for p in sorted(pts):
        for n in (p - 1, p, p + 1):
            out += dec_forms(rng, fd, n)
    for _ in range(n_rand):
        n = rng.choice([rng.randint(-10 ** (fd + 2), 10 ** (fd + 2)), rng.choice(sorted(pts)) + rng.randint(-3, 3)])
        out.append(rng.choice(dec_forms(rng, fd, n)))
    out += [b"", b".", b"-", b"+", b"1.", b".5", b"-.5", b"1e2", b"1.5.5", b"1 .5", b"0x1.8", b"NaN", b"inf", b"1.50", b"+1.50", b" 1.5 ", b"01.5"]
    return out


CPS = [0x61, 0xE9, 0x20AC, 0x1F600, 0x301, 0x7F, 0x80, 0xA0, 0x7FF, 0x800, 0xFFFD, 0x10000, 0x10FFFD, 0x2028, 0x41, 0x30]
ODD_STR = [b"", b" ", b"  ", b"\t", b"\n", b" \n\t ", b"a b", b" ab", b"ab ", b"a'b", b"a\"b", b"a'\"b", b"<a>", b"a&b", b"]]>", b"a\\b", b"a\\nb",
           b"a\nb", b"a\tb", b"a\rb", b"\r\n", b"&amp;", b"&#x41;", b"<![CDATA[ab]]>", b"\\u0041", b"{ab}", b"[ab]", b"a/b", b"a]b", b"a[b",
           b"\x01", b"a\x1fb", b"\x7f\x7f", b"\xef\xbf\xbe", b"\xef\xbf\xbf", b"\xef\xb7\x90", b"\xf0\x9f\xbf\xbe", b"\xed\xa0\x80", b"\xc0\x80",
           b"\xc3", b"a\xffb", b"\xf4\x90\x80\x80", b"\xe2\x82", b"ab\xc3"]


def str_values(rng, n_rand):
    out = list(ODD_STR)
    for k in range(0, 11):
        for cp in (0x61, 0xE9, 0x20AC, 0x1F600):
            out.append(gens.enc_cp(cp) * k)
        out.append(b"".join(gens.enc_cp(rng.choice(CPS)) for _ in range(k)))
    for _ in range(n_rand):
        out.append(gens.yang_string(rng, 10))
        out.append(gens.mutate(rng, gens.yang_string(rng, 9)))
    return out


def pat_values(rng, n_rand):
    out = [b"a", b"abc", b"abcd", b"abc1", b"ab", b"ab1", b"abd", b"zz99", b"z" * 10, b"z" * 11, b"z" * 9 + b"1", b"A1", b"a1b", b"1", b"", b"a ",
           b" a", b"a\n", b"\xc3\xa9", b"ab\xc3\xa9", b"aabc", b"abC", b"a1", b"a12345678", b"a123456789", b"a1234567890"]
    for _ in range(n_rand):
        s = bytes(rng.choice(b"abcz") for _ in range(rng.randrange(1, 6))) + bytes(rng.choice(b"0189") for _ in range(rng.randrange(0, 7)))
        out.append(s if rng.random() < 0.6 else gens.mutate(rng, s, b"abcABC019 \n"))
    return out


def mutated(rng, pool, n, alphabet):
    return [gens.mutate(rng, rng.choice(pool), alphabet) for _ in range(n)]


def enum_values(rng, n_rand):
    pool = [b"red", b"green", b"blue", b"dark blue", b"7"]
    out = pool + [b"", b" red", b"red ", b"RED", b"Red", b"10", b"-3", b"11", b"5", b"0", b"07", b"+7", b"7 ", b"dark  blue", b"dark\tblue", b"dark",
                  b"dark blue ", b"darkblue", b"red\n", b"redd", b"re", b"blue\x00"[:-1], b"r\xc3\xa9d", b"green green", b"t2:red", b"types2:red"]
    return out + mutated(rng, pool, n_rand, b"redgnbluak 7")


def bits_values(rng, names, n_rand):
    out = [b"", b" ", b"  ", b"\t", b"\n"]
    for _ in range(n_rand):
        k = rng.randrange(0, len(names) + 1)
        sel = rng.sample(names, k)
        r = rng.random()
        if r < 0.15 and sel:
            sel.append(rng.choice(sel))                     # duplicate
        elif r < 0.25:
            sel.insert(rng.randrange(len(sel) + 1), rng.choice([b"zz", b"A", names[0] + names[-1], names[0][:-1] or b"q"]))
        sep = rng.choice([b" ", b" ", b" ", b"  ", b"\t", b"\n", b" \r\n ", b"\x0b", b"\x0c"])
        s = sep.join(sel)
        r = rng.random()
        if r < 0.15:
            s = rng.choice(WS) + s
        elif r < 0.3:
            s = s + rng.choice(WS)
        elif r < 0.35:
            s = b" " + s + b"  "
        elif r < 0.4:
            s = s.replace(b" ", b"\xc2\xa0", 1)
        out.append(s)
    for nm in names:
        out += [nm, nm + b" " + nm, nm.upper(), nm + b",", nm + b" "]
    out += [b" ".join(names), b" ".join(reversed(names)), b" ".join(sorted(names)), b",".join(names), b"".join(names)]
    return out


def b64(d):
    return base64.b64encode(d)


def bin_values(rng, n_rand):
    out = [b"", b"=", b"==", b"====", b"A", b"AA", b"AAA", b"AAAA", b"AA==", b"AAA=", b"A===", b"AA=", b"AAA==", b"AA=A", b"=AAA", b"YQ==", b"YR==",
           b"YQ", b"YQ=", b"YWI=", b"YWJ=", b"YWK=", b"YWL=", b"YWI", b"YWJj", b"YWJjZA==", b"YWJjZB==", b"YWJjZGU=", b"YWJjZGVm", b" YQ==", b"YQ== ",
           b"YQ==\n", b"Y Q==", b"YQ=\n=", b"Y-J_", b"Y+J/", b"Y,J.", b"yq==", b"YQ==YQ==", b"\xc3\xa9Q==", b"YQ\r\n=="]
    for ln in (0, 1, 2, 3, 4, 5, 6, 47, 48, 49, 50, 51, 96, 97):
        d = bytes(rng.randrange(256) for _ in range(ln))
        e = b64(d)
        out.append(e)
        if len(e) > 64:
            pem = b"\n".join(e[i:i + 64] for i in range(0, len(e), 64))
            out += [pem, pem + b"\n", pem.replace(b"\n", b"\r\n"), e[:63] + b"\n" + e[63:], e[:64] + b"\n\n" + e[64:], e[:64] + b" " + e[64:],
                    b"\n".join(e[i:i + 76] for i in range(0, len(e), 76)), e[:64] + b"\n" + e[64:70] + b"\n" + e[70:]]
        if len(e) == 64:
            out += [e + b"\n", e + b"\n\n", e + b"\nAAAA"]
        if e.endswith(b"="):
            out += [e.rstrip(b"="), e[:-1], e + b"="]
            # non-zero padding bits
            i = len(e.rstrip(b"=")) - 1
            alpha = b"ABCDEFGHIJKLMNOPQRSTUVWXYZabcdefghijklmnopqrstuvwxyz0123456789+/"
            out.append(e[:i] + bytes([alpha[(alpha.index(e[i]) + 1) % 64]]) + e[i + 1:])
    out += b64_noncanonical(rng)
    pool = [b64(bytes(rng.randrange(256) for _ in range(rng.choice([1, 2, 3, 4, 5])))) for _ in range(10)]
    return out + pool + mutated(rng, pool, n_rand, b"ABab01+/=- \n_")


B64_ALPHA = b"ABCDEFGHIJKLMNOPQRSTUVWXYZabcdefghijklmnopqrstuvwxyz0123456789+/"


def b64_noncanonical(rng, lens1=(1, 4, 49), lens2=(2, 5, 47)):
    """every non-canonical spelling of the unused bits of the last character: the 15 patterns of the low four bits for a
    text ending in == (3n+1 octets), the 3 patterns of the low two bits for a text ending in = (3n+2 octets); plus the
    3n class (nothing unused), padding missing / in excess, white space inside"""
    out = []
    for ln in lens1:
        e = b64(bytes(rng.randrange(256) for _ in range(ln)))
        i = len(e) - 3
        for bits in range(1, 16):
            out.append(e[:i] + bytes([B64_ALPHA[B64_ALPHA.index(e[i]) | bits]]) + e[i + 1:])
        out += [e, e[:-1], e[:-2], e + b"=", e[:i + 1] + b" " + e[i + 1:], e[:2] + b"\n" + e[2:]]
    for ln in lens2:
        e = b64(bytes(rng.randrange(256) for _ in range(ln)))
        i = len(e) - 2
        for bits in range(1, 4):
            out.append(e[:i] + bytes([B64_ALPHA[B64_ALPHA.index(e[i]) | bits]]) + e[i + 1:])
        out += [e, e[:-1], e + b"=", e[:1] + b"\t" + e[1:]]
    for ln in (3, 6, 48):
        e = b64(bytes(rng.randrange(256) for _ in range(ln)))
        out += [e, e + b"=", e + b"==", e[:-1] + b"="]
    # the octet A in all its sixteen spellings
    out += [b"Q" + bytes([B64_ALPHA[16 + b]]) + b"==" for b in range(16)]
    return out


def idr_values(rng):
    """-> list of (vj, vx): module names for the JSON prefix format, prefixes for XML / YANG (RFC 7951 6.8, RFC 7950 9.10.3)"""
    out = []
    for nm in (b"iab", b"iab2", b"ia", b"ib", b"ba", b"bb", b"zz", b"IAB", b"iab ", b" iab", b"", b"i ab"):
        out.append((b"types2:" + nm, b"t2:" + nm))
        out.append((nm, nm))
    out += [(b" types2:iab", b" t2:iab"), (b"types2:iab ", b"t2:iab "), (b"types2 :iab", b"t2 :iab"), (b"types2: iab", b"t2: iab"),
            (b":iab", b":iab"), (b"types2:", b"t2:"), (b"types2:iab:x", b"t2:iab:x"), (b"xx:iab", b"xx:iab"), (b"Types2:iab", b"T2:iab"),
            (b"ietf-inet-types:iab", b"inet:iab"),
            # the spelling of the OTHER format
            (b"t2:iab", b"t2:iab"), (b"types2:iab", b"types2:iab"), (b"t2:ia", b"t2:ia"), (b"types2:zz", b"types2:zz")]
    return out


def iid_values(rng):
    out = []
    for pj, px in ((b"/types2:tgt", b"/t2:tgt"), (b"/types2:l_i8r", b"/t2:l_i8r"), (b"/types2:k_i8r[k='5']", b"/t2:k_i8r[t2:k='5']"),
                   (b"/types2:k_i8r[k='5']/k", b"/t2:k_i8r[t2:k='5']/t2:k"), (b"/types2:k_i8r[k=\"5\"]/k", b"/t2:k_i8r[t2:k=\"5\"]/t2:k"),
                   (b"/types2:ll_i8r[.='5']", b"/t2:ll_i8r[.='5']"), (b"/types2:k_i8r[k='+5']", b"/t2:k_i8r[t2:k='+5']"),
                   (b"/types2:k_i8r[k='4']", b"/t2:k_i8r[t2:k='4']"), (b"/types2:k_i8r", b"/t2:k_i8r"), (b"/types2:nope", b"/t2:nope"),
                   (b"/types2:k_sl[k='a b']", b"/t2:k_sl[t2:k='a b']"), (b"/types2:ll_i8r[1]", b"/t2:ll_i8r[1]"),
                   (b"/types2:k_i8r/k", b"/t2:k_i8r/t2:k"), (b" /types2:tgt", b" /t2:tgt"), (b"/types2:tgt ", b"/t2:tgt "),
                   (b"/types2:tgt/", b"/t2:tgt/"), (b"//types2:tgt", b"//t2:tgt"), (b"/xx:tgt", b"/xx:tgt")):
        out.append((pj, px))
    out += [(b"/tgt", b"/tgt"), (b"tgt", b"tgt"), (b"", b""), (b"/", b"/"), (b"/t2:tgt", b"/t2:tgt"), (b"/types2:tgt", b"/types2:tgt"),
            (b"/types2:k_i8r[t2:k='5']", b"/t2:k_i8r[k='5']")]
    return out


def nii_values(rng):
    """nacm:node-instance-identifier: (JSON spelling, XML spelling: every name prefixed)"""
    return [(b"/", b"/"), (b"/types2:tgt", b"/t2:tgt"), (b"/types2:k_i8r", b"/t2:k_i8r"), (b"/types2:k_i8r/k", b"/t2:k_i8r/t2:k"),
            (b"/types2:k_i8r[k='5']", b"/t2:k_i8r[t2:k='5']"), (b"/types2:k_i8r[k='+5']/k", b"/t2:k_i8r[t2:k='+5']/t2:k"),
            (b"/types2:k_sl[k=\"a'b\"]", b"/t2:k_sl[t2:k=\"a'b\"]"), (b"/types2:ll_i8r[.='5']", b"/t2:ll_i8r[.='5']"),
            (b"/types2:ll_i8r", b"/t2:ll_i8r"), (b"/types2:nope", b"/t2:nope"), (b"/types2:k_i8r[k='4']", b"/t2:k_i8r[t2:k='4']"),
            (b"/types2:k_i8r/types2:k", b"/t2:k_i8r/k"), (b"types2:tgt", b"t2:tgt"), (b"", b""), (b"//", b"//"), (b"/types2:tgt/", b"/t2:tgt/"),
            (b" /types2:tgt", b" /t2:tgt"), (b"/xx:tgt", b"/xx:tgt"), (b"/tgt", b"/tgt")]


IP4 = [b"1.2.3.4", b"0.0.0.0", b"255.255.255.255", b"256.1.1.1", b"1.2.3", b"1.2.3.4.5", b"01.2.3.4", b"1.2.3.04", b"001.002.003.004", b" 1.2.3.4",
       b"1.2.3.4 ", b"1.2.3.4%eth0", b"1.2.3.4%", b"1.2.3.4%eth 0", b"1.2.3.4%ETH0", b"1.2.3.-4", b"1.2.3.+4", b"0x1.2.3.4", b"1..3.4", b"1.2.3.4\n",
       b"1.2.3.4%e%f", b"127.1", b"192.168.000.001", b"1.2.3.a", b"", b"::1", b"1.2.3.4/8"]
IP6 = [b"::", b"::1", b"2001:db8::1", b"2001:DB8::1", b"2001:DB8:0:0:0:0:0:1", b"2001:0db8:0000:0000:0000:0000:0000:0001", b"2001:db8:0:0:1:0:0:1",
       b"2001:db8::1:0:0:1", b"fe80::1%eth0", b"FE80::1%ETH0", b"fe80::1%", b"::ffff:1.2.3.4", b"::FFFF:1.2.3.4", b"::1.2.3.4", b"0:0:0:0:0:ffff:102:304",
       b"1::2::3", b"12345::", b"1:2:3:4:5:6:7:8", b"1:2:3:4:5:6:7:8:9", b"1:2:3:4:5:6:7::", b"::2:3:4:5:6:7:8", b"1:2:3:4:5:6:7", b":", b":::", b" ::1",
       b"::1 ", b"::g", b"0::0", b"0000::0000", b"::ffff:1.2.3.256", b"::1%lo%x", b"1.2.3.4", b"", b"::1/128", b"2001:db8::0:1", b"2001:db8:0::1",
       b"A::B", b"a::b", b"::00a", b"::000a", b"::ffff:1.02.3.4", b"::1.2.3.04", b"::ffff:001.2.3.4"]
IP4P = [b"10.0.0.0/8", b"10.1.2.3/8", b"10.0.0.0/0", b"0.0.0.0/0", b"1.2.3.4/32", b"1.2.3.4/33", b"1.2.3.4/31", b"10.0.0.0/08", b"10.0.0.0/ 8",
        b"10.0.0.0 /8", b"10.0.0.0/", b"10.0.0.0", b"/8", b"10.0.0.0/8 ", b" 10.0.0.0/8", b"10.0.0.0/+8", b"10.0.0.0/-0", b"010.0.0.0/8", b"10.0.0.0/8/8",
        b"255.255.255.255/1", b"192.168.1.255/25", b"10.0.0/8", b"::/0", b""]
IP6P = [b"::/0", b"::/128", b"::/129", b"2001:db8::/32", b"2001:DB8::1/32", b"2001:db8::1/128", b"2001:db8::1/127", b"2001:db8:ffff::/33", b"::1/0",
        b"2001:db8::/032", b"2001:db8::/ 32", b"2001:db8::/", b"2001:db8::", b"/32", b" ::/0", b"::/0 ", b"::ffff:1.2.3.4/96", b"::ffff:1.2.3.4/100",
        b"1:2:3:4:5:6:7:8/64", b"FFFF::/1", b"10.0.0.0/8", b"", b"::/+0", b"fe80::1%eth0/64"]
DT = [b"2020-01-01T00:00:00Z", b"2020-01-01T00:00:00+00:00", b"2020-01-01T00:00:00-00:00", b"2020-01-01T00:00:00.5Z", b"2020-01-01T00:00:00.500Z",
      b"2020-01-01T00:00:00.50+01:00", b"2020-01-01T01:00:00+01:00", b"2020-01-01T00:00:00.000Z", b"2020-01-01T00:00:00.Z", b"2020-01-01t00:00:00z",
      b"2020-01-01T00:00:00z", b"2020-01-01 00:00:00Z", b"2020-01-01T00:00:00", b"2020-13-01T00:00:00Z", b"2020-02-30T00:00:00Z", b"2020-02-29T00:00:00Z",
      b"2021-02-29T00:00:00Z", b"2020-01-01T24:00:00Z", b"2020-01-01T23:59:60Z", b"2016-12-31T23:59:60Z", b"2020-01-01T23:60:00Z", b"0000-01-01T00:00:00Z",
      b"9999-12-31T23:59:59Z", b"10000-01-01T00:00:00Z", b"2020-1-1T00:00:00Z", b"2020-01-01T00:00:00+24:00", b"2020-01-01T00:00:00+23:59",
      b"2020-01-01T00:00:00+00:60", b"2020-01-01T00:00:00+0100", b"2020-01-01T00:00:00+01", b" 2020-01-01T00:00:00Z", b"2020-01-01T00:00:00Z ",
      b"2020-01-01T00:00:00.123456789012Z", b"1969-12-31T23:59:59Z", b"1900-01-01T00:00:00-12:00", b"2020-06-15T12:30:45.1+05:30", b"",
      b"2020-01-01T00:00:00.10Z", b"2020-01-01T00:00:00.1Z", b"2020-00-01T00:00:00Z", b"2020-01-00T00:00:00Z", b"2020-01-32T00:00:00Z",
      b"2020-04-31T00:00:00Z", b"1970-01-01T00:00:00Z", b"2038-01-19T03:14:08Z", b"2020-01-01T00:00:00-14:00", b"2020-12-31T23:59:59.999999+14:00"]
HX = [b"aa", b"AA", b"aA:Bb", b"aa:bb:cc", b"a", b"aa:", b":aa", b"aa::bb", b"aa:b", b"gg", b"", b" aa", b"aa ", b"00:00", b"0a:0B:0c", b"aa-bb", b"aabb"]
MAC = [b"00:11:22:33:44:55", b"00:11:22:aa:BB:cc", b"AA:BB:CC:DD:EE:FF", b"aa:bb:cc:dd:ee:ff", b"00:11:22:33:44", b"00:11:22:33:44:55:66", b"0:11:22:33:44:55",
       b"00-11-22-33-44-55", b"001122334455", b"00:11:22:33:44:5g", b" 00:11:22:33:44:55", b"00:11:22:33:44:55 ", b""]
UU = [b"123e4567-e89b-12d3-a456-426614174000", b"123E4567-E89B-12D3-A456-426614174000", b"123e4567-E89b-12d3-a456-426614174000",
      b"123e4567e89b12d3a456426614174000", b"123e4567-e89b-12d3-a456-42661417400", b"123e4567-e89b-12d3-a456-4266141740000",
      b"{123e4567-e89b-12d3-a456-426614174000}", b"123e4567-e89b-12d3-a456-42661417400g", b" 123e4567-e89b-12d3-a456-426614174000", b"",
      b"00000000-0000-0000-0000-000000000000", b"FFFFFFFF-FFFF-FFFF-FFFF-FFFFFFFFFFFF"]


def values_for(rng, T, tier, scale):
    """-> list of (vj, vx) for the type T; vx None = same spelling"""
    k = lambda q, t: int((t if tier == "thorough" else q) * scale)       # noqa: E731
    same = lambda L: [(v, None) for v in L]                                  # noqa: E731
    if T == "i8r":
        return same(int_values(rng, -128, 127, [(-100, -10), (0, 0), (5, 20), (100, 127)], k(40, 3000)))
    if T == "u64r":
        return same(int_values(rng, 0, U64MAX, [(0, 9), (I64MAX, I64MAX + 1), (U64MAX - 1, U64MAX)], k(40, 3000)))
    if T == "u32":
        return same(int_values(rng, 0, 2 ** 32 - 1, [], k(20, 2000)))
    if T == "i64":
        return same(int_values(rng, I64MIN, I64MAX, [], k(20, 2000)))
    if T == "tc":
        return same(int_values(rng, -128, 127, [(1, 100), (10, 50), (20, 30), (40, 40)], k(20, 2000)))
    if T == "lref":
        return same(int_values(rng, -128, 127, [(1, 10)], k(20, 2000)))
    if T == "d1r":
        return same(dec_values(rng, 1, [(I64MIN, -1005), (-10, 10), (9223372036854775800, I64MAX)], k(30, 3000)))
    if T == "d2r":
        return same(dec_values(rng, 2, [(-1050, -125), (0, 0), (314, 10000)], k(30, 3000)))
    if T == "d18r":
        return same(dec_values(rng, 18, [(-1500000000000000000, -1), (500000000000000000, 9000000000000000000)], k(30, 3000)))
    if T == "s":
        return same(str_values(rng, k(40, 4000)))
    if T == "sl":
        L = str_values(rng, k(40, 4000))
        return same(L + [v * 2 for v in ODD_STR] + [v + b"a" for v in ODD_STR])
    if T == "sp":
        return same(pat_values(rng, k(40, 4000)))
    if T == "b":
        pool = [b"true", b"false"]
        return same(pool + [b"", b"True", b"TRUE", b"FALSE", b"1", b"0", b" true", b"true ", b"true\n", b"tru", b"truee", b"yes", b"null", b"t",
                            b"\ttrue", b"false ", b"fals"] + mutated(rng, pool, k(20, 1000), b"truefals TF\n"))
    if T == "en":
        return same(enum_values(rng, k(40, 3000)))
    if T == "bt":
        return same(bits_values(rng, [b"a", b"b", b"cc", b"d", b"e"], k(80, 5000)))
    if T == "bs":
        return same(bits_values(rng, [b"x", b"y", b"z"], k(40, 3000)))
    if T in ("bin", "binu"):
        return same(bin_values(rng, k(60, 5000)))
    if T == "un":
        pool = [b"5", b"+5", b"05", b" 5", b"5 ", b"1", b"10", b"0", b"11", b"+11", b"011", b"12", b"auto", b"Auto", b"auto ", b"ab", b"abc", b"abcd", b"a",
                b"", b"  ", b"1e0", b"5.0", b"-1", b"99", b"100", b"+10", b" 10", b"\xc3\xa9\xc3\xa9", b"\xc3\xa9\xc3\xa9\xc3\xa9\xc3\xa9", b"0x5", b"0xa", b"012",
                b"+0", b"-0", b"00", b"true", b"007", b"7", b"+7 ", b"1\n", b"\t2"]
        return same(pool + mutated(rng, pool, k(40, 3000), b"0159+- auto\n"))
    if T == "un2":
        pool = [b"5", b"+5", b"05", b"a", b"ab", b"", b" ", b"127", b"128", b"-128", b"-129", b"-1", b"+", b"-", b"0", b"00", b"\xc3\xa9", b"\xf0\x9f\x98\x80",
                b" 5", b"5 ", b"+0", b"-0", b"1e1", b"0x1", b"01", b"9", b"10"]
        return same(pool + mutated(rng, pool, k(40, 3000), b"0159+- a\n"))
    if T == "un3":
        pool = [b"5", b"+5", b"05", b"5.0", b"5.00", b"+5.0", b"5.5", b"5.50", b"100", b"101", b"100.0", b"0", b"-0", b"-1", b"-1.0", b"1.005", b"abcd",
                b"abcde", b"", b" 5", b"5 ", b"1e1", b"0x10", b"010", b"0.5", b".5", b"5.", b"+", b"-", b"a", b"1234", b"12345", b"99.99", b"+99"]
        return same(pool + mutated(rng, pool, k(40, 3000), b"0159+-. a"))
    if T == "idr":
        return idr_values(rng)
    if T == "iid":
        return iid_values(rng)
    if T == "nii":
        return nii_values(rng)
    if T == "em":
        return same([b"", b" ", b"  ", b"x", b"\n", b"null", b"[null]", b"0", b"\t"])
    if T in ("ip4", "ip4nz"):
        return same(IP4 + mutated(rng, IP4[:4], k(30, 3000), b"0123456789.% e:"))
    if T in ("ip6", "ip6nz"):
        return same(IP6 + mutated(rng, IP6[:12], k(40, 4000), b"0123456789abcdefABCDEF:.% "))
    if T == "ip4p":
        return same(IP4P + mutated(rng, IP4P[:8], k(30, 3000), b"0123456789./ "))
    if T == "ip6p":
        return same(IP6P + mutated(rng, IP6P[:10], k(30, 3000), b"0123456789abcdefABCDEF:./ "))
    if T == "ipa":
        return same(IP4[:16] + IP6[:24] + mutated(rng, IP4[:3] + IP6[:8], k(30, 3000), b"0123456789abcdefABCDEF:.% "))
    if T == "dt":
        return same(DT + mutated(rng, DT[:8], k(60, 5000), b"0123456789-:.TZtz+ "))
    if T == "hx":
        return same(HX + mutated(rng, HX[:4], k(20, 2000), b"0123456789abcdefABCDEFg: "))
    if T == "mac":
        return same(MAC + mutated(rng, MAC[:4], k(20, 2000), b"0123456789abcdefABCDEFg:- "))
    if T == "uu":
        return same(UU + mutated(rng, UU[:3], k(20, 2000), b"0123456789abcdefABCDEFg- "))
    raise KeyError(T)


def json_literal_kind(T, v):
    """'L' when v is also offered as a bare JSON literal, 'N' for [null], '-' otherwise. Only spellings that ARE JSON literals
    of the kind RFC 7951 uses (plain integers / decimals without exponent, true, false) are offered bare."""
    if T == "em":
        return "N" if v == b"" else "-"
    if v in (b"true", b"false"):
        return "L"
    if JSON_INT.fullmatch(v) or JSON_DEC.fullmatch(v):
        return "L" if len(v) < 40 else "-"
    return "-"


def is_yang_text(v):
    """the value is a string of YANG characters (RFC 7950 section 14 yang-char, valid UTF-8)"""
    try:
        return all(gens.is_yang_char(ord(ch)) for ch in v.decode("utf-8"))
    except UnicodeDecodeError:
        return False


def nonzero_pad_bits(v):
    """v is well-formed base64 (RFC 4648 section 4, optionally with a line feed after every 64 characters) whose unused
    bits of the last character before the padding are not all zero"""
    t = v
    if len(t) > 64 and t[64:65] == b"\n":
        t = b"".join(t[i:i + 64] for i in range(0, len(t), 65))
    if not re.fullmatch(rb"[A-Za-z0-9+/]*={0,2}", t) or len(t) % 4:
        return False
    try:
        return base64.b64encode(base64.b64decode(t)) != t
    except Exception:
        return False


def is_xml_ws_only(v):
    return len(v) > 0 and all(c in b" \t\n\r" for c in v)


class SourceIndep:
    """oracle: the same lexical value offered through XML, JSON (string and literal), lyd_new_term, lyd_new_list,
    lyd_new_path (value, key predicate, leaf-list predicate), lyd_find_path, lyd_value_validate, lyd_change_term, a schema
    default, lyd_dup_single and LYB is accepted/rejected identically and gets the same canonical string, for 32 restricted
    types used as leaf, list key and leaf-list; only the format-specific lexical rules of RFC 7951 / RFC 7950 are excepted"""
    name = "srcindep"
    driver = "t_types2"
    kinds = None

    def gen(self, rng, tier, scale=1.0):
        L = []
        for T in TYPES:
            for vj, vx in values_for(rng, T, tier, scale):
                if b"\0" in vj:
                    continue
                L.append("si\t%s\t%s\t%s\t%s\t%s" % (T, hexs(vj), "=" if vx is None else hexs(vx), json_literal_kind(T, vj),
                                                     hexs(TYPES[T]["valid"])))
        return L

    # -- the expected value of one source, given the reference (lyd_value_validate on the leaf) --------------------
    def expect(self, T, src, vj, vx, tok):
        """-> ('eq', ref) the source must give ref | ('skip', why) not comparable (an RFC-defined format-specific rule)
        | ('na',) the source cannot carry the value"""
        info = TYPES[T]
        ref = tok.get("vv")
        jrep = info["jrep"]
        if src in JFAM:
            if src in ("pk", "pl", "fk", "fl") and b"'" in vj and b"\"" in vj:
                return ("na",)          # a path literal cannot hold both quote characters (XPath 1.0 [29] Literal)
            if src in ("dup", "lyb") and ref == "E":
                return ("na",)
            return ("eq", ref)
        # a lexical value is a string of YANG characters (RFC 7950 6.1.3, 14 yang-char): the text formats (XML, JSON, YANG)
        # cannot carry anything else, only the C API can be handed such bytes; compared among the API sources only
        if src in XFAM + JSTR + JLIT + DFAM and not (is_yang_text(vj) and is_yang_text(vx)):
            return ("skip", "not-yang-text")
        if src in XFAM:
            # XML: element content that is white space only is not a value (libyang reads it as the empty string,
            # XML 1.0 2.10 leaves white-space handling to the application)
            if is_xml_ws_only(vx):
                return ("skip", "xml-ws-only")
            # RFC 7950 9.10.3 / 9.13.2 vs RFC 7951 6.8 / 6.11: identityref and instance-identifier carry XML prefixes in XML
            # and module names in JSON: when the case gives one spelling for both formats and it contains a colon the two
            # formats read different things
            if info.get("prefixed") and vx == vj and b":" in vj:
                return ("skip", "prefix-format")
            return ("eq", ref)
        if src in JSTR:
            if jrep == "str":
                return ("eq", ref)
            if jrep == "union":
                # RFC 7951 6.10: a JSON string is only tried against the members that are encoded as strings
                return ("eq", tok.get("vs"))
            # RFC 7951 6.1 (int8..uint32: JSON number), 6.3 (boolean: true/false), 6.9 (empty: [null]): a string is not a value
            return ("eq", "E")
        if src in JLIT:
            if T == "em":
                return ("eq", ref)      # [null], RFC 7951 6.9
            if jrep == "union":
                # RFC 7951 6.10: a JSON number is only tried against the members that are encoded as numbers; true/false
                # against boolean members (none here)
                return ("eq", tok.get("vn") if vj not in (b"true", b"false") else "E")
            if jrep == "bool":
                return ("eq", ref if vj in (b"true", b"false") else "E")
            if jrep == "num":
                if b"." in vj:
                    # RFC 8259 6 / RFC 7951 6.1: 0.0 and 0 are the same JSON number; the lexical value 0.0 is no integer
                    return ("skip", "json-number-fraction")
                return ("eq", ref if vj not in (b"true", b"false") else "E")
            # 64-bit integers, decimal64 and all other types are JSON strings (RFC 7951 6.1, 6.2, 6.4..6.8, 6.11)
            return ("eq", "E")
        if src in DFAM:
            if info.get("nodflt"):
                return ("na",)          # RFC 7950 9.11: empty cannot have a default
            if b"\r" in vx:
                return ("na",)          # no way to write a CR into a YANG string without the lexer touching it
            # RFC 7950 9.2.1: in a default statement an integer may be written in hexadecimal or octal notation
            if info.get("int") and re.match(rb"[ \t\n\x0b\x0c]*[+-]?0[0-9a-zA-Z]", vx):
                return ("skip", "default-hex-octal")
            # RFC 7950 9.10.3: an identityref default without prefix names an identity of the module holding the default
            # statement (here the variant module dv), in data the module of the leaf; instance-identifier likewise
            if info.get("prefixed") and ((vx == vj and b":" in vj) or T == "idr" and b":" not in vx):
                return ("skip", "prefix-format")
            return ("eq", ref)
        return ("skip", "?")

    def judge(self, line, out):
        f = line.split("\t")
        T, vj = f[1], unhex(f[2])
        vx = vj if f[3] == "=" else unhex(f[3])
        if out.startswith("CRASH") or out == "TIMEOUT":
            err = getattr(self, "last_err", "")
            return None, "value %r of type %s: %s %s" % (vj, T, out, err[-1500:])
        tok = dict(t.split("=", 1) for t in out.split(" ") if "=" in t)
        if "vv" not in tok or tok["vv"] in ("?", "NA"):
            return None, "driver failure on %r (%s): %s" % (vj, T, out[:300])
        # when the spellings differ per format the reference of the XML family is still vv: the generator pairs spellings
        # that denote the same value
        bad = []
        for src in XFAM + JSTR + JLIT + JFAM + DFAM:
            if src not in tok:
                if src in JLIT and f[4] == "-":
                    continue
                bad.append("%s missing" % src)
                continue
            got = tok[src]
            e = self.expect(T, src, vj, vx, tok)
            if e[0] == "skip":
                continue
            if e[0] == "na":
                if got != "NA":
                    bad.append("%s=%s (expected not applicable)" % (src, show(got)))
                continue
            if got != e[1]:
                bad.append("%s=%s (expected %s)" % (src, show(got), show(e[1])))
        if bad:
            detail = "type %s value %r%s: lyd_value_validate=%s but %s" % (
                T, vj, "" if vx == vj else " (XML/YANG spelling %r)" % vx, show(tok["vv"]), "; ".join(bad[:8]))
            return self.tag(T, vj, tok, bad), detail
        return None

    def tag(self, T, vj, tok, bad):
        """no listed finding concerns source independence any more (json-int64-base0, binary-pad-bits,
        yang-plane4-char were fixed in /repo): every disagreement is unexpected"""
        return None

def show(r):
    if r is None:
        return "?"
    if r in ("E", "NA", "NF", "A", "?"):
        return {"E": "rejected", "NA": "n/a", "NF": "accepted-but-not-found", "A": "accepted", "?": "?"}[r]
    if r.startswith("NE:"):
        return "not-equal-copy " + show(r[3:])
    try:
        return repr(unhex(r))
    except ValueError:
        return r


# ------------------------------------------------------------------------------------------------
# T2: extracted model (coq/TypesMore.v through ocaml/run_types2.ml) vs the implementation
# ------------------------------------------------------------------------------------------------
EN = {b"red": 10, b"green": -3, b"blue": 11, b"dark blue": 5, b"7": 0}
BITS = {"bt": [(b"b", 0), (b"a", 2), (b"cc", 9), (b"d", 33), (b"e", 70)], "bs": [(b"x", 0), (b"y", 1), (b"z", 2)]}
BITS_SIZE = {"bt": 9, "bs": 1}
LEN = {"s": None, "sl": [(0, 0), (2, 5), (8, 8)], "bin": [(0, 0), (2, 4), (48, 49)]}
UN_ENUM = [b"auto", b"11", b"5"]
C_SPACE = b" \t\n\r\x0b\x0c"


def in_parts(parts, n):
    return parts is None or any(lo <= n <= hi for lo, hi in parts)


def ws_int(s, lo, hi, parts):
    """integer as libyang reads it (white space tolerated, RFC 7950 9.2.1 otherwise) -> value or None"""
    m = re.fullmatch(rb"[ \t\n\r\x0b\x0c]*([+-]?)([0-9]+)[ \t\n\r\x0b\x0c]*", s)
    if not m:
        return None
    v = int(m.group(2)) * (-1 if m.group(1) == b"-" else 1)
    return v if lo <= v <= hi and in_parts(parts, v) else None


def yang_str_len(s):
    """number of characters when s is a string of yang-char (RFC 7950 section 14: valid UTF-8 of scalar values, no C0
    control but TAB LF CR, no non-characters), else None"""
    try:
        t = s.decode("utf-8")
    except UnicodeDecodeError:
        return None
    if not all(gens.is_yang_char(ord(c)) for c in t):
        return None
    return len(t)


def b64_strict(s):
    """RFC 4648 section 4 text (with libyang's tolerated line feed after every 64 characters) -> octets or None"""
    t = s
    if len(t) > 64 and t[64:65] == b"\n":
        parts = []
        while len(t) > 64:
            if t[64:65] != b"\n":
                return None
            parts.append(t[:64])
            t = t[65:]
        t = b"".join(parts) + t
    if not re.fullmatch(rb"[A-Za-z0-9+/]*={0,2}", t) or len(t) % 4:
        return None
    return base64.b64decode(t)


def rfc_tv(T, s):
    """RFC 7950 section 9 reading of the value s of type T -> None (not in the value space) or (canonical, detail string)"""
    if T == "en":
        return (s, str(EN[s])) if s in EN else None
    if T in BITS:
        names = dict(BITS[T])
        toks = s.split()            # bytes.split() splits on the C isspace() set
        if any(t not in names for t in toks) or len(set(toks)) != len(toks):
            return None
        sel = sorted(toks, key=lambda t: names[t])
        bm = sum(1 << names[t] for t in toks)
        return b" ".join(sel), bm.to_bytes(BITS_SIZE[T], "little").hex()
    if T == "bin":
        d = b64_strict(s)
        if d is None or not in_parts(LEN["bin"], len(d)):
            return None
        return base64.b64encode(d), (d.hex() or "-")
    if T in ("s", "sl"):
        n = yang_str_len(s)
        if n is None or not in_parts(LEN[T], n):
            return None
        return s, ""
    if T == "un":
        v = ws_int(s, -128, 127, [(1, 10)])
        if v is not None:
            return str(v).encode(), "0"
        if s in UN_ENUM:
            return s, "1"
        n = yang_str_len(s)
        return (s, "2") if n is not None and 2 <= n <= 3 else None
    if T == "un2":
        n = yang_str_len(s)
        if n == 1:
            return s, "0"
        v = ws_int(s, -128, 127, None)
        return (str(v).encode(), "1") if v is not None else None
    raise KeyError(T)


def rfc_line(T, s):
    r = rfc_tv(T, s)
    if r is None:
        return "E"
    return hexs(r[0]) + ((" " + r[1]) if r[1] != "" else "")


def rfc_sort_key(T, s):
    """an ordering key per type: what lyplg_type_sort_* implement (RFC 7950 does not define the order of system-ordered
    lists; the property asks for a total order consistent with equality): enumeration DEscending value, bits bitmap
    bytes, binary (size, octets), string strcmp, union: later member first, then the member's order"""
    r = rfc_tv(T, s)
    if T == "en":
        return (-EN[s],)
    if T in BITS:
        return (bytes.fromhex(r[1]),)
    if T == "bin":
        d = b64_strict(s)
        return (len(d), d)
    if T in ("s", "sl"):
        return (s,)
    if T == "un":
        i = int(r[1])
        return (-i, int(r[0]) if i == 0 else (-UN_ENUM.index(s) if i == 1 else s))
    if T == "un2":
        i = int(r[1])
        return (-i, s if i == 0 else int(r[0]))
    raise KeyError(T)


T2_VALUE_TYPES = ["en", "bt", "bs", "bin", "s", "sl", "un", "un2"]


def t2_values(rng, T, tier, scale):
    return [v for v, _ in values_for(rng, T, tier, scale) if b"\0" not in v]


class T2Comp(Comp):
    driver = "t_types2"
    slice = "types2"
    types = []

    def gen(self, rng, tier, scale=1.0):
        L = []
        for T in self.types:
            for v in t2_values(rng, T, tier, scale):
                L.append("tv\t%s\t%s" % (T, hexs(v)))
        return L

    def witness(self, line, m, o):
        return rfc_witness(line, o)


class EnumStore(T2Comp):
    """lyd_new_term on the enumeration leaf vs TypesMore.enum_store / enum_canon (name and assigned value)"""
    name = "t2-enum"
    types = ["en"]


class BitsStore(T2Comp):
    """lyd_new_term on the bits leaves (9-byte and 1-byte bitmap) vs TypesMore.bits_store / bits_canon (canonical string and bitmap)"""
    name = "t2-bits"
    types = ["bt", "bs"]


class BinStore(T2Comp):
    """lyd_new_term on the binary leaf vs TypesMore.binary_store (canonical string and decoded octets)"""
    name = "t2-bin"
    types = ["bin"]


class StrLenStore(T2Comp):
    """lyd_new_term on string leaves (plain, length restricted) vs TypesMore.str_store (UTF-8 check and ly_utf8len)"""
    name = "t2-strlen"
    types = ["s", "sl"]


class UnionStore(T2Comp):
    """lyd_new_term on the union leaves vs TypesMore.union_store (canonical string and index of the storing member)"""
    name = "t2-union"
    types = ["un", "un2"]


def pair_pool(rng, T, k):
    """k lexical values, mostly valid, with many equal / nearly equal pairs"""
    base = {
        "en": [b"red", b"green", b"blue", b"dark blue", b"7", b"x"],
        "bt": [b"", b"a", b"b", b"a b", b"b a", b"e", b"d e", b"cc", b"a b cc d e", b"e d cc b a", b" a  b ", b"d", b"cc d", b"a a", b"zz"],
        "bs": [b"", b"x", b"y", b"z", b"x y", b"y x", b"x z", b"y z", b"x y z", b"z y x", b" x", b"q"],
        "bin": [b"", b"YWI=", b"YWJ=", b"YWK=", b"YWL=", b"YWJj", b"YWJk", b"AAA=", b"AAB=", b"AAAA", b"//8=", b"/w==", b"YQ==", b"AAAAAA==", b"YWE=",
                b64(b"\x00" * 48), b64(b"\xff" * 48), b64(b"a" * 49), b64(b"a" * 48 + b"b"), b64(b"\x80\x00"), b64(b"\x7f\xff"), b64(b"\x00\x01\x02")],
        "s": [b"", b"a", b"b", b"ab", b"aa", b"a\xc3\xa9", b"\xc3\xa9", b"\xf0\x9f\x98\x80", b"\xef\xbf\xbd", b"A", b"a ", b" a", b"\x7f", b"\xc2\x80"],
        "sl": [b"", b"ab", b"ac", b"abc", b"\xc3\xa9\xc3\xa9", b"\xf0\x9f\x98\x80\xf0\x9f\x98\x80", b"abcde", b"abcdefgh", b"ab\x7f", b"a", b"AB"],
        "un": [b"5", b"+5", b"05", b"11", b"+11", b"auto", b"ab", b"abc", b"10", b"1", b"2", b" 5", b"12", b"0", b"99", b"+9", b"9"],
        "un2": [b"5", b"+5", b"05", b"a", b"b", b"-1", b"+1", b"1", b"01", b"127", b"-128", b"10", b"+10", b"9", b"+9", b"\xc3\xa9", b"ab"],
    }[T]
    out = []
    for _ in range(k):
        v = rng.choice(base)
        if rng.random() < 0.1:
            v = gens.mutate(rng, v, b"ab 5+Y=")
        if b"\0" not in v:
            out.append(v)
    return out


class Cmp2(Comp):
    """lyd_value_compare / lyd_compare_single on enumeration, bits, binary, string and union leaves vs the model's compare"""
    name = "t2-cmp"
    driver = "t_types2"
    slice = "types2"

    def norm(self, line, out):
        # lyd_compare_single() compares the canonical STRINGS, the compare callback the stored values: the model has the
        # callback only; a difference between the two is a property matter (Types2Rfc judges it), not a model matter
        return out.split(" ")[0]

    def gen(self, rng, tier, scale=1.0):
        L = ["cmp\tun2\t2b35\t35", "cmp\tbin\t59574a3d\t5957493d", "cmp\tbin\t5957493d\t59574a3d", "cmp\tun\t2b35\t35", "cmp\tbt\t612062\t622061"]
        for T in T2_VALUE_TYPES:
            for _ in range(self.n(tier, 60, 4000, scale)):
                pool = pair_pool(rng, T, 4)
                for a in pool[:2]:
                    for b in pool:
                        L.append("cmp\t%s\t%s\t%s" % (T, hexs(a), hexs(b)))
        return L

    def witness(self, line, m, o):
        return rfc_witness(line, o)


class Sort2(Comp):
    """order of two to four instances of a system-ordered leaf-list of enumeration, bits, binary, string and union type,
    inserted one by one, vs stable insertion by the model's sort"""
    name = "t2-sort"
    driver = "t_types2"
    slice = "types2"

    def gen(self, rng, tier, scale=1.0):
        L = ["srt\ten\t%s\t%s\t%s" % tuple(hexs(x) for x in p) for p in
             ((b"blue", b"dark blue", b"red"), (b"dark blue", b"blue", b"red"), (b"7", b"green", b"dark blue"), (b"red", b"7", b"dark blue"))]
        for T in T2_VALUE_TYPES:
            for _ in range(self.n(tier, 60, 4000, scale)):
                pool = pair_pool(rng, T, 4)
                for a in pool[:2]:
                    for b in pool:
                        L.append("srt\t%s\t%s\t%s" % (T, hexs(a), hexs(b)))
                L.append("srt\t%s\t%s" % (T, "\t".join(hexs(x) for x in pool[:3])))
                L.append("srt\t%s\t%s" % (T, "\t".join(hexs(x) for x in pair_pool(rng, T, 4))))
        return L

    def witness(self, line, m, o):
        return rfc_witness(line, o)


def rfc_witness(line, o):
    """-> None when the implementation's answer o is what RFC 7950 section 9 (read in Python above, white space between
    bit names and around integers tolerated) gives for the case, else (tag, detail): the tags are those of the listed
    findings of known_findings.d/types2.json, None for anything else"""
    f = line.split("\t")
    T = f[1]
    if o.startswith("CRASH") or o == "TIMEOUT" or o in ("?", "NUL"):
        return None, "%s on %s: %s" % (f[0], line[:200], o)
    if f[0] == "tv":
        s = unhex(f[2])
        want = rfc_line(T, s)
        if o == want:
            return None
        return None, "value %r of %s: implementation %s, RFC 7950 %s" % (s, T, o, want)
    if f[0] == "cmp":
        a, b = unhex(f[2]), unhex(f[3])
        ra, rb = rfc_tv(T, a), rfc_tv(T, b)
        # the property: two values are equal exactly when their canonical strings are equal - and both equalities of the
        # library (compare callback = first token, lyd_compare_single = SINGLE) must say so
        if ra is None or rb is None:
            want = "E"
        else:
            want = "0" if ra[0] == rb[0] else "1"
        if o == want:
            return None
        tag = None
        if T in ("un", "un2") and want == "0" and ra[1] != rb[1] and o == "1 SINGLE=0":
            tag = "union-member-eq"
        return tag, "compare of %r and %r on %s: implementation %s, expected %s (canonical strings %r / %r)" % (
            a, b, T, o, want, ra and ra[0], rb and rb[0])
    if f[0] == "srt":
        vals = [unhex(x) for x in f[2:]]
        if any(rfc_tv(T, x) is None for x in vals):
            want = "E"
        else:
            # every value is inserted after the last element that is not greater (stable insertion)
            seq = []
            for x in vals:
                kx = rfc_sort_key(T, x)
                pos = 0
                for i, y in enumerate(seq):
                    if not kx < rfc_sort_key(T, y):
                        pos = i + 1
                seq.insert(pos, x)
            want = " ".join(hexs(rfc_tv(T, x)[0]) for x in seq)
        if o == want:
            return None
        return None, "sorted insertion of %r on %s: implementation %s, expected %s" % (vals, T, o, want)
    return None


class Types2Rfc:
    """oracle: verdict, canonical string, stored detail (enum value / bitmap / octets / union member), equality and
    sorted-insertion order of enumeration, bits, binary, string-length and union values on the implementation against
    the RFC 7950 section 9 / RFC 4648 reading written in Python (independent of the Coq model); for equality the
    property itself: equal exactly when the canonical strings are equal, by the compare callback AND lyd_compare_single()"""
    name = "types2-rfc"
    driver = "t_types2"
    kinds = None

    def gen(self, rng, tier, scale=1.0):
        L = []
        for c in (EnumStore(), BitsStore(), BinStore(), StrLenStore(), UnionStore(), Cmp2(), Sort2()):
            L += c.gen(rng, tier, 0.5 * scale)
        return L

    def judge(self, line, out):
        return rfc_witness(line, out)


class Ip4PrefixHost(Comp):
    """ipv4-prefix a.b.c.d/len stored through lyd_new_term: address of the canonical string vs TypesMore.ip4p_store
    (ipv4prefix_zero_host), every prefix length with boundary and random addresses"""
    name = "t2-ip4p"
    driver = "t_types2"
    slice = "types2"

    def gen(self, rng, tier, scale=1.0):
        L = []
        for n in range(0, 35):
            for a in V4_PTS + [rng.getrandbits(32) for _ in range(self.n(tier, 6, 400, scale))]:
                L.append("ip4z\t%d\t%d" % (a, n))
        return L

    def witness(self, line, m, o):
        f = line.split("\t")
        a, n = int(f[1]), int(f[2])
        want = "E" if n > 32 else "%d %d" % (a & (0xFFFFFFFF << (32 - n)) & 0xFFFFFFFF, n)
        if o != want:
            return None, "ipv4-prefix %s/%d: stored %s, RFC 6991 (host bits zero) %s" % (v4_text(a), n, o, want)
        return None


class IidCanon(Comp):
    """instance-identifier / node-instance-identifier: canonical string of lyd_new_term (and of the canonical string stored again)
    vs IidCanon.iid_print / iid_parse on the same path given as a structure: two keys, predicates on two steps, leaf-list and
    position predicates, values with apostrophes and double quotes in every combination, either quote on input"""
    name = "t2-iid"
    driver = "t_types2"
    slice = "types2"
    VALS = ["x", "it's", 'say "hi"', "o'clock 'n", 'a"b"', "", "a b", "1"]

    def gen(self, rng, tier, scale=1.0):
        L = []

        def emit(T, segs):
            """segs: [(module, name, [('K', key, value) | ('L', value) | ('P', n)])]"""
            text, toks, prev = "", [], None
            for m, n, ps in segs:
                text += "/" + (n if m == prev else m + ":" + n)
                prev = m
                toks += ["S", hexs(m), hexs(n)]
                for pr in ps:
                    if pr[0] == "P":
                        text += "[%d]" % pr[1]
                        toks += ["P", str(pr[1])]
                        continue
                    v = pr[-1]
                    q = _pq(v) if ("'" in v or '"' in v or rng.random() < 0.6) else '"%s"' % v      # either quote on input
                    text += ("[%s=%s]" % (pr[1], q)) if pr[0] == "K" else "[.=%s]" % q
                    toks += (["K", hexs(pr[1]), hexs(v)] if pr[0] == "K" else ["L", hexs(v)])
            L.append("iidp\t%s\t%s\t%s" % (T, hexs(text), "\t".join(toks)))
        for T in ("iid", "nii"):
            for a in self.VALS:
                for b in self.VALS:
                    emit(T, [("types2", "k2", [("K", "a", a), ("K", "b", b)]), ("types2", "v", [])])
                    emit(T, [("types2", "k2", [("K", "a", a), ("K", "b", b)])])
                    emit(T, [("types2", "o", [("K", "n", a)]), ("types2", "i", [("K", "m", b)]), ("types2", "v", [])])
                    emit(T, [("types2", "o", [("K", "n", a)]), ("types2", "i", [("K", "m", b)])])
                emit(T, [("types2", "ll_s", [("L", a)])])
            emit(T, [("types2", "tgt", [])])
            emit(T, [("types2", "k_i8r", [("K", "k", "5")]), ("types2", "k", [])])
            if T == "nii":      # (an instance-identifier must give all the keys of a list it ends in)
                emit(T, [("types2", "o", [("K", "n", "x")]), ("types2", "i", [])])
        # position predicates: instance-identifier on key-less lists / leaf-lists only - none in the module; refused by both
        return L

    def norm(self, line, out):
        return out

    def witness(self, line, m, o):
        f = line.split("\t")
        return None, "path %r of %s: implementation %s, model (instanceid_path2str as coded) %s" % (unhex(f[2]), f[1], o, m)


class IdRefStore(Comp):
    """identityref {base ba; base bb;}: lyd_new_term, lyd_value_compare and sorted insertion vs IdRef.idref_store / idref_canon /
    idref_compare / idref_sort on the identities of the test module (JSON value format: module names as prefixes)"""
    name = "t2-idref"
    driver = "t_types2"
    slice = "types2"

    def gen(self, rng, tier, scale=1.0):
        names = [b"iab", b"iab2", b"ia", b"ib", b"ba", b"bb", b"zz", b"IAB", b"iab ", b" iab", b"", b"i ab", b"iab3", b"ia:b"]
        vals = []
        for nm in names:
            vals += [nm, b"types2:" + nm, b":" + nm, b"t2:" + nm, b"types2::" + nm, b"ietf-inet-types:" + nm, b"xx:" + nm, b"types2:" + nm + b":x"]
        vals += [b":", b"::", b"types2:", b"types2", b" types2:iab", b"types2 :iab", b"Types2:iab"]
        vals += mutated(rng, [b"types2:iab", b"types2:iab2", b"iab"], self.n(tier, 60, 3000, scale), b"types2:iab ")
        vals = [v for v in vals if b"\0" not in v]
        L = ["tv\tidr\t%s" % hexs(v) for v in vals]
        good = [b"iab", b"types2:iab", b"iab2", b"types2:iab2", b":iab", b":iab2", b"ia", b"zz"]
        for a in good:
            for b in good:
                L.append("cmp\tidr\t%s\t%s" % (hexs(a), hexs(b)))
                L.append("srt\tidr\t%s\t%s" % (hexs(a), hexs(b)))
        L.append("srt\tidr\t%s" % "\t".join(hexs(x) for x in (b"iab2", b"iab", b"types2:iab2", b":iab")))
        return L

    def norm(self, line, out):
        return out.split(" SINGLE")[0] if line.startswith("cmp") else out

    def witness(self, line, m, o):
        f = line.split("\t")
        return None, "%s %r on identityref {base ba; base bb;}: implementation %s, model (identityref.c as coded) %s" % (
            f[0], [unhex(x) for x in f[2:]], o, m)


ALL = [EnumStore, BitsStore, BinStore, StrLenStore, UnionStore, Cmp2, Sort2, Ip4PrefixHost, IidCanon, IdRefStore]


# ------------------------------------------------------------------------------------------------
# ietf-inet-types / ietf-yang-types derived types: RFC 6991 (+ RFC 5952, RFC 3339) reference for the canonical
# string and for value equality, independent of the implementation
# ------------------------------------------------------------------------------------------------
import calendar       # noqa: E402
import itertools      # noqa: E402
import unicodedata    # noqa: E402

V4_OCT = r"(?:[0-9]|[1-9][0-9]|1[0-9][0-9]|2[0-4][0-9]|25[0-5])"
V4_RE = re.compile(r"(%s)\.(%s)\.(%s)\.(%s)" % ((V4_OCT,) * 4))
V4_EMB_RE = re.compile(r"(?:(?:25[0-5]|2[0-4][0-9]|[01]?[0-9]?[0-9])\.){3}(?:25[0-5]|2[0-4][0-9]|[01]?[0-9]?[0-9])")     # inside ipv6-address
HEXPAIRS = r"[0-9a-fA-F]{2}(?::[0-9a-fA-F]{2})*"


def _txt(b):
    try:
        t = b.decode("utf-8")
    except UnicodeDecodeError:
        return None
    return t if all(gens.is_yang_char(ord(c)) for c in t) else None


def _zone_ok(z):
    """RFC 6991 pattern (%[\\p{N}\\p{L}]+)"""
    return len(z) > 0 and all(unicodedata.category(c)[0] in "NL" for c in z)


def _split_zone(t, zone):
    if "%" in t:
        a, z = t.split("%", 1)
        if not zone or not _zone_ok(z):
            return None
        return a, "%" + z
    return t, ""


def v4_parse(t):
    m = V4_RE.fullmatch(t)
    return None if not m else (int(m.group(1)) << 24) | (int(m.group(2)) << 16) | (int(m.group(3)) << 8) | int(m.group(4))


def v4_text(a):
    return "%d.%d.%d.%d" % (a >> 24 & 255, a >> 16 & 255, a >> 8 & 255, a & 255)


def v6_parse(t):
    """RFC 4291 2.2 text form within the RFC 6991 patterns -> 128-bit number or None"""
    if t.count("::") > 1 or ":::" in t:
        return None
    tail4 = None
    if "." in t:
        i = t.rfind(":")
        if i < 0 or not V4_EMB_RE.fullmatch(t[i + 1:]):
            return None
        o = [int(x) for x in t[i + 1:].split(".")]
        tail4 = (o[0] << 24) | (o[1] << 16) | (o[2] << 8) | o[3]
        t = t[:i + 1] + "0:0"            # two groups stand for the dotted quad
    if "::" in t:
        l, r = t.split("::")
        lg = l.split(":") if l else []
        rg = r.split(":") if r else []
        if len(lg) + len(rg) > 7:
            return None
        groups = lg + ["0"] * (8 - len(lg) - len(rg)) + rg
    else:
        groups = t.split(":")
        if len(groups) != 8:
            return None
    v = 0
    for g in groups:
        if not re.fullmatch(r"[0-9a-fA-F]{1,4}", g):
            return None
        v = (v << 16) | int(g, 16)
    if tail4 is not None:
        v = (v & ~0xFFFFFFFF) | tail4
    return v


def _v6_fmt(v):
    """RFC 5952 section 4: lower case, no leading zeros, the longest run of two or more zero groups (the first one on
    a tie) written as ::. Section 5 (mixed notation when the address is known to embed an IPv4 address): libyang prints
    with inet_ntop(), which uses the dotted quad for the IPv4-mapped prefix ::ffff:0:0/96 and for the IPv4-compatible
    form (exactly the first 96 bits zero and a non-zero bit in the next 16: ::1.2.3.4, ::0.1.0.0) - taken over here as the
    documented platform behaviour, not reported."""
    g = [(v >> (16 * (7 - i))) & 0xFFFF for i in range(8)]
    runs = []
    i = 0
    while i < 8:
        if g[i] == 0:
            j = i
            while j < 8 and g[j] == 0:
                j += 1
            runs.append((i, j - i))
            i = j
        else:
            i += 1
    best, blen = -1, 0
    for st, ln in runs:
        if ln >= 2 and ln > blen:
            best, blen = st, ln
    mixed = best == 0 and (blen == 6 or (blen == 5 and g[5] == 0xFFFF))
    words = ["%x" % x for x in g]
    if mixed:
        words = words[:6] + [v4_text((g[6] << 16) | g[7])]
        n = 7
    else:
        n = 8
    if best < 0:
        return ":".join(words)
    left = words[:best]
    right = words[min(best + blen, n):] if best + blen <= n else []
    if mixed and best + blen > 6:
        right = [words[6]]
    return ":".join(left) + "::" + ":".join(right)


def ref_derived(T, s):
    """-> canonical string (bytes) of the value s of the derived type T per RFC 6991, or None when s is not a value"""
    t = _txt(s)
    if t is None:
        return None
    if T in ("ip4", "ip4nz"):
        r = _split_zone(t, T == "ip4")
        a = r and v4_parse(r[0])
        return None if a is None else (v4_text(a) + r[1]).encode()
    if T in ("ip6", "ip6nz"):
        r = _split_zone(t, T == "ip6")
        a = r and v6_parse(r[0])
        return None if a is None else (_v6_fmt(a) + r[1]).encode()
    if T == "ipa":
        return ref_derived("ip4", s) or ref_derived("ip6", s)
    if T == "ip4p":
        m = re.fullmatch(r"([^/]*)/([0-9]|[1-2][0-9]|3[0-2])", t)
        a = m and v4_parse(m.group(1))
        if a is None:
            return None
        n = int(m.group(2))
        return ("%s/%d" % (v4_text(a & (0xFFFFFFFF << (32 - n)) & 0xFFFFFFFF), n)).encode()
    if T == "ip6p":
        m = re.fullmatch(r"([^/]*)/([0-9]|[0-9]{2}|1[0-1][0-9]|12[0-8])", t)
        a = m and v6_parse(m.group(1))
        if a is None:
            return None
        n = int(m.group(2))
        mask = ((1 << 128) - 1) ^ ((1 << (128 - n)) - 1)
        return ("%s/%d" % (_v6_fmt(a & mask), n)).encode()
    if T == "ipp":
        return ref_derived("ip4p", s) or ref_derived("ip6p", s)
    if T in ("bin", "binu"):
        # RFC 7950 9.8.2 / RFC 4648 section 4; libyang tolerates a line feed after every 64 characters; the canonical string
        # is the RFC 4648 text of the octets (zero unused bits, padded, no line feeds); length counted in octets
        d = b64_strict(s)
        if d is None or (T == "bin" and not in_parts(LEN["bin"], len(d))):
            return None
        return base64.b64encode(d)
    if T in ("hx", "phys"):
        return t.lower().encode() if re.fullmatch("(%s)?" % HEXPAIRS, t) else None
    if T == "mac":
        return t.lower().encode() if re.fullmatch(r"[0-9a-fA-F]{2}(:[0-9a-fA-F]{2}){5}", t) else None
    if T == "uu":
        return t.lower().encode() if re.fullmatch(r"[0-9a-fA-F]{8}-[0-9a-fA-F]{4}-[0-9a-fA-F]{4}-[0-9a-fA-F]{4}-[0-9a-fA-F]{12}", t) else None
    if T == "dt":
        return ref_dt(t)
    if T == "idr":
        # identityref {base ba; base bb;}: only iab and iab2 derive from both; canonical = JSON form module:name
        m = re.fullmatch(r"(?:types2:)?(iab2?)", t)
        return ("types2:" + m.group(1)).encode() if m else None
    raise KeyError(T)


def ref_dt(t):
    """RFC 6991 date-and-time: RFC 3339 date-time (section 5.6 grammar, 5.7 restrictions). Canonical form: known time
    zone -> the device's offset (the drivers run with TZ=UTC: +00:00), unknown time zone (-00:00) kept; the fraction
    digits are kept as written. A leap second (:60) is outside this reference (returns the marker b'?')."""
    m = re.fullmatch(r"(\d{4})-(\d{2})-(\d{2})T(\d{2}):(\d{2}):(\d{2})(\.\d+)?(Z|[+-]\d{2}:\d{2})", t)
    if not m:
        return None
    y, mo, d, h, mi, sec = (int(m.group(i)) for i in range(1, 7))
    frac, z = m.group(7) or "", m.group(8)
    if not (1 <= mo <= 12 and 1 <= d <= calendar.monthrange(y if y else 4, mo)[1] and h <= 23 and mi <= 59 and sec <= 60):
        return None
    if z != "Z" and not (int(z[1:3]) <= 23 and int(z[4:6]) <= 59):
        return None
    if sec == 60:
        return b"?"
    if z == "-00:00":
        return ("%04d-%02d-%02dT%02d:%02d:%02d%s-00:00" % (y, mo, d, h, mi, sec, frac)).encode()
    off = 0 if z == "Z" else (1 if z[0] == "+" else -1) * (int(z[1:3]) * 3600 + int(z[4:6]) * 60)
    import datetime
    # the Gregorian calendar repeats every 400 years: years 0000..0400 are computed 400 years later (datetime has no year 0)
    lift = 400 if y < 401 else 0
    try:
        u = datetime.datetime(y + lift, mo, d, h, mi, sec) - datetime.timedelta(seconds=off)
    except (OverflowError, ValueError):
        return b"?"
    if u.year - lift < 0:
        return b"?"
    return ("%04d" % (u.year - lift) + u.strftime("-%m-%dT%H:%M:%S") + frac + "+00:00").encode()


DERIVED = ["bin", "binu", "ip4", "ip4nz", "ip6", "ip6nz", "ipa", "ip4p", "ip6p", "ipp", "dt", "hx", "phys", "mac", "uu", "idr"]
V4_PTS = [0, 1, 0x7F000001, 0x7FFFFFFF, 0x80000000, 0xC0A8FE37, 0xFFFFFFFE, 0xFFFFFFFF, 0x0A010203, 0x00FF00FF, 0x55555555, 0xAAAAAAAA]
V6_PTS = [0, 1, 2, (1 << 128) - 1, 1 << 127, 0x20010DB8 << 96 | 1, 0xFE80 << 112 | 0x1234, 0xFFFF << 32 | 0x01020304, 0x01020304,
          0x0001000000000002 << 64 | 3, 0x20010DB800000000 << 64 | 0x0001000000000001, int("55555555" * 4, 16), int("aaaaaaaa" * 4, 16),
          0x0064FF9B << 96 | 0xC0000221, 0xFFFF0000 << 32 | 5, 0x10000, 0xFFFF, 0x1000000000000 << 64]


def v6_spellings(rng, v):
    g = ["%x" % ((v >> (16 * (7 - i))) & 0xFFFF) for i in range(8)]
    out = [_v6_fmt(v), ":".join(g), ":".join(x.zfill(4) for x in g), ":".join(g).upper(), _v6_fmt(v).upper()]
    out.append(":".join(g[:6]) + ":" + v4_text(v & 0xFFFFFFFF))
    # compress another zero run (also a single group: allowed on input)
    zs = [i for i in range(8) if g[i] == "0"]
    if zs:
        i = rng.choice(zs)
        j = i
        while j < 8 and g[j] == "0" and rng.random() < 0.7:
            j += 1
        j = max(j, i + 1)
        out.append(":".join(g[:i]) + "::" + ":".join(g[j:]))
    return out


def derived_values(rng, T, tier, scale):
    """lexical values for the derived type T (bytes), valid spellings of boundary values plus the SourceIndep pools"""
    k = lambda q, t: int((t if tier == "thorough" else q) * scale)       # noqa: E731
    out = []
    if T in ("ip4", "ip4nz", "ipa"):
        for a in V4_PTS + [rng.getrandbits(32) for _ in range(k(10, 500))]:
            out += [v4_text(a), v4_text(a) + "%eth0", v4_text(a) + "%1", v4_text(a) + "%Ethé"]
    if T in ("ip6", "ip6nz", "ipa"):
        for v in V6_PTS + [rng.getrandbits(128) & rng.getrandbits(128) & rng.choice([(1 << 128) - 1, rng.getrandbits(128)]) for _ in range(k(20, 1500))]:
            sp = v6_spellings(rng, v)
            out += sp + [sp[0] + "%eth0", sp[3] + "%ETH0", sp[1] + "%7"]
    if T in ("ip4p", "ipp"):
        for n in range(0, 33):
            pts = V4_PTS if (tier == "thorough" or n in (0, 1, 7, 8, 9, 24, 31, 32)) else rng.sample(V4_PTS, 4)
            for a in pts + [rng.getrandbits(32)]:
                out.append("%s/%d" % (v4_text(a), n))
        out += ["1.2.3.4/33", "1.2.3.4/08", "1.2.3.4/", "1.2.3.4", "01.2.3.4/8", "1.2.3.4/ 8", "1.2.3.4/+8", "1.2.3/8", "1.2.3.4%eth0/8", "1.2.3.4/8%eth0"]
    if T in ("ip6p", "ipp"):
        for n in range(0, 129):
            pts = V6_PTS if tier == "thorough" else rng.sample(V6_PTS, 2) + [(1 << 128) - 1]
            for v in pts + [rng.getrandbits(128)]:
                sp = v6_spellings(rng, v)
                out.append("%s/%d" % (rng.choice(sp), n))
        out += ["::/129", "::/08", "::/008", "::1/128", "::/", "::", "FFFF::/016", "::ffff:1.2.3.4/100", "1::2/64", "fe80::1%eth0/64", "::/0128"]
    if T == "dt":
        base = ["2020-01-01T00:00:00", "2020-02-29T23:59:59", "1999-12-31T23:59:59", "2038-01-19T03:14:08", "1969-12-31T23:59:59", "0001-01-01T00:00:00",
                "9999-12-31T23:59:59", "2021-03-28T01:30:00", "2020-06-15T12:30:45", "1900-03-01T00:00:00", "2100-02-28T12:00:00", "2000-02-29T00:00:00"]
        zones = ["Z", "+00:00", "-00:00", "+01:00", "-01:00", "+05:30", "-12:00", "+14:00", "+23:59", "-23:59", "-00:09", "+00:09", "-00:59", "+00:30",
                 "+24:00", "+00:60", "z", "", "+0100", "+1:00"]
        fracs = ["", ".5", ".50", ".500", ".0", ".000", ".123456789", ".1234567890123", "."]
        for b in base:
            for z in zones:
                out.append(b + rng.choice(fracs) + z)
            for f in fracs:
                out.append(b + f + rng.choice(zones[:14]))
        out += ["2020-02-30T00:00:00Z", "2021-02-29T00:00:00Z", "2020-04-31T00:00:00Z", "2020-13-01T00:00:00Z", "2020-00-10T00:00:00Z", "2020-01-00T00:00:00Z",
                "2020-01-32T00:00:00Z", "2020-01-01T24:00:00Z", "2020-01-01T23:60:00Z", "2020-01-01T23:59:60Z", "2016-12-31T23:59:60Z", "2020-01-01T23:59:61Z",
                "1900-02-29T00:00:00Z", "2100-02-29T00:00:00Z", "2020-01-01t00:00:00Z", "2020-01-01 00:00:00Z", "2020-1-1T00:00:00Z", "20200101T000000Z",
                "2020-01-01T00:00:00Zx", "2020-01-01T00:00:00+01:00x", " 2020-01-01T00:00:00Z", "2020-01-01T00:00:00Z ", "0000-01-01T00:00:00Z",
                "2020-01-01T00:00:00.5.5Z", "2020-01-01T00:00:00,5Z", "+2020-01-01T00:00:00Z", "2020-01-01T00:00:00-24:00", "2020-01-01T-1:00:00Z"]
    if T in ("bin", "binu"):
        out2 = b64_noncanonical(rng) + ([b64(bytes(rng.randrange(256) for _ in range(rng.randrange(0, 60)))) for _ in range(k(10, 500))])
        return [v for v in out2 + [v for v, _ in values_for(rng, T, tier, 0.3 * scale)] if b"\0" not in v]
    if T in ("hx", "phys", "mac", "uu"):
        n = {"hx": [0, 1, 2, 5], "phys": [0, 1, 6, 8], "mac": [6], "uu": [16]}[T]
        for _ in range(k(12, 400)):
            b = bytes(rng.randrange(256) for _ in range(rng.choice(n)))
            if T == "uu":
                h = b.hex()
                t = "-".join([h[:8], h[8:12], h[12:16], h[16:20], h[20:]])
            else:
                t = ":".join("%02x" % x for x in b)
            out += [t, t.upper(), "".join(c.upper() if rng.random() < 0.5 else c for c in t)]
    if T == "idr":
        out += ["types2:iab", "iab", "types2:iab2", "iab2", "types2:ia", "ia", "t2:iab", "types2:IAB", " iab", "iab ", "types2:ba"]
    res = [x.encode() for x in out]
    # the odd spellings of the SourceIndep pools
    stype = {"ipp": "ip4p", "phys": "hx"}.get(T, T)
    res += [v for v, _ in values_for(rng, stype, tier, 0.3 * scale)]
    if T == "ipp":
        res += [v for v, _ in values_for(rng, "ip6p", tier, 0.3 * scale)]
    return [v for v in res if b"\0" not in v]


# expected canonical strings of instance-identifier / node-instance-identifier values (RFC 7951 6.11: module name on the first
# node and where the module changes; key values canonical, single quotes unless the value holds one)
PATH_CANON = {
    ("iid", b"/types2:tgt"): b"/types2:tgt", ("iid", b"/types2:k_i8r[k='+5']/k"): b"/types2:k_i8r[k='5']/k",
    ("iid", b"/types2:k_i8r[k=\"5\"]"): b"/types2:k_i8r[k='5']", ("iid", b"/types2:ll_i8r[.='+5']"): b"/types2:ll_i8r[.='5']",
    ("iid", b"/types2:k_sl[k=\"a'b\"]"): b"/types2:k_sl[k=\"a'b\"]", ("iid", b"/types2:k_d2r[k='3.50']"): b"/types2:k_d2r[k='3.5']",
    ("nii", b"/"): b"/", ("nii", b"/types2:tgt"): b"/types2:tgt", ("nii", b"/types2:k_i8r/k"): b"/types2:k_i8r/k",
    ("nii", b"/types2:k_i8r[k='+5']/k"): b"/types2:k_i8r[k='5']/k", ("nii", b"/types2:k_i8r"): b"/types2:k_i8r",
    ("nii", b"/types2:ll_i8r[.='5']"): b"/types2:ll_i8r[.='5']", ("nii", b"/types2:k_sl[k=\"a'b\"]"): b"/types2:k_sl[k=\"a'b\"]",
}


def _pq(v):
    """canonical quoting of a predicate value (instanceid_path2str): single quotes unless the value holds one"""
    return ('"%s"' if "'" in v else "'%s'") % v


def _path_quote_cases():
    """instance-identifier / node-instance-identifier paths with two predicates (two keys, predicates on two steps, key then
    leaf-list .=) whose values hold apostrophes and double quotes in every position combination -> {(T, input): canonical}"""
    vals = ["x", "it's", 'say "hi"', "o'clock 'n", 'a"b"', ""]
    out = {}
    for T in ("iid", "nii"):
        for a in vals:
            for b in vals:
                for tmpl in ("/types2:k2[a=%s][b=%s]/v", "/types2:k2[a=%s][b=%s]", "/types2:o[n=%s]/i[m=%s]/v", "/types2:o[n=%s]/i[m=%s]"):
                    canon = tmpl % (_pq(a), _pq(b))
                    out[(T, canon.encode())] = canon.encode()
                    # the other quote where the value allows it: canonicalised to the single quote
                    alt = tmpl % (('"%s"' % a) if '"' not in a else _pq(a), ('"%s"' % b) if '"' not in b else _pq(b))
                    out[(T, alt.encode())] = canon.encode()
            out[(T, ("/types2:ll_s[.=%s]" % _pq(a)).encode())] = ("/types2:ll_s[.=%s]" % _pq(a)).encode()
    return out


PATH_CANON.update(_path_quote_cases())


class DerivedRfc:
    """oracle: ietf-inet-types / ietf-yang-types derived types (ipv4/ipv6 address with and without zone, ip-address,
    ipv4/ipv6/ip-prefix for every prefix length, date-and-time, hex-string, phys-address, mac-address, uuid) and
    identityref against a Python reference written from RFC 6991, RFC 5952 section 4/5 and RFC 3339: verdict and canonical
    string, canonicalisation idempotent, two values equal (compare callback and lyd_compare_single) and refused as
    duplicate leaf-list instances / list keys exactly when their reference canonical strings are equal, and the
    sorted-insertion result of three values independent of the insertion order (total order)"""
    name = "derived-rfc"
    driver = "t_types2"
    kinds = None

    def gen(self, rng, tier, scale=1.0):
        L = []
        for T in DERIVED:
            vals = derived_values(rng, T, tier, scale)
            for v in vals:
                L.append("ci\t%s\t%s" % (T, hexs(v)))
            # (values the implementation is known to refuse - ip6-embedded-v4-leading-zero - are judged by ci only)
            good = [v for v in vals if ref_derived(T, v) not in (None, b"?") and
                    not (b":" in v and b"." in v and re.search(rb":(\d+\.)*0\d+(\.\d+)*(%|/|$)", v))]
            if not good:
                continue
            bycanon = {}
            for v in good:
                bycanon.setdefault(ref_derived(T, v), []).append(v)
            groups = [g for g in bycanon.values() if len(g) > 1]
            n = int((4000 if tier == "thorough" else 60) * scale)
            for _ in range(n):
                r = rng.random()
                if r < 0.5 and groups:
                    a, b = rng.sample(rng.choice(groups), 2)          # same value, two spellings
                else:
                    a, b = rng.choice(good), rng.choice(good)
                L.append("cmp\t%s\t%s\t%s" % (T, hexs(a), hexs(b)))
                L.append("dupl\t%s\t%s\t%s" % (T, hexs(a), hexs(b)))
            for _ in range(n // 2):
                L.append("perm\t%s\t%s" % (T, "\t".join(hexs(rng.choice(good)) for _ in range(3))))
        for trio in ((b"2100-02-28T12:00:00.0-00:00", b"2100-02-28T12:00:00.000+00:00", b"2100-02-28T12:00:00Z"),
                     (b"1969-12-31T23:59:59Z", b"1900-03-01T00:00:00+01:00", b"2038-01-19T03:14:08.000+23:59")):
            L.append("perm\tdt\t" + "\t".join(hexs(x) for x in trio))
        # what becomes of the canonical string: stored again, lyd_change_term_canon, dup, dup into another context - every type
        for T in TYPES:
            vals = [vj for vj, _ in values_for(rng, T, tier, 0.25 * scale) if b"\0" not in vj]
            if len(vals) > 40 and tier != "thorough":
                vals = vals[:15] + rng.sample(vals[15:], 25)
            for v in vals:
                L.append("cx\t%s\t%s" % (T, hexs(v)))
        for T, v in PATH_CANON:
            L.append("cx\t%s\t%s" % (T, hexs(v)))
        # prefix length 0 and full length with host bits, in every form (regression of a seeded change)
        for T, a, b in (("ip4p", b"192.168.254.55/0", b"0.0.0.0/0"), ("ipp", b"1.2.3.4/0", b"0.0.0.0/0"), ("ip6p", b"2001:db8::1/0", b"::/0"),
                        ("ipp", b"ffff::1/0", b"::/0"), ("ip4p", b"1.2.3.4/32", b"1.2.3.4/32"), ("ip6p", b"::1/128", b"0:0::1/128")):
            L += ["cmp\t%s\t%s\t%s" % (T, hexs(a), hexs(b)), "dupl\t%s\t%s\t%s" % (T, hexs(a), hexs(b))]
        return L

    def judge(self, line, out):
        f = line.split("\t")
        T = f[1]
        if out.startswith("CRASH") or out == "TIMEOUT" or out in ("?", "NUL"):
            return None, "%s: %s %s" % (line[:200], out, getattr(self, "last_err", "")[-1200:])
        vals = [unhex(x) for x in f[2:]]
        if f[0] == "cx":
            tok = out.split(" ")
            if tok[0] == "E":
                if (T, vals[0]) in PATH_CANON:
                    return None, "value %r of %s: rejected, expected canonical %r" % (vals[0], T, PATH_CANON[(T, vals[0])])
                return None
            c1 = tok[0]
            bad = []
            if (T, vals[0]) in PATH_CANON and unhex(c1) != PATH_CANON[(T, vals[0])]:
                bad.append("canonical %r, expected %r" % (unhex(c1), PATH_CANON[(T, vals[0])]))
            kv = dict(t.split("=", 1) for t in tok[1:])
            for key, what in (("rs", "stored again"), ("dp", "lyd_dup_single"), ("dx", "lyd_dup_single_to_ctx (second context)")):
                if kv.get(key) != c1:
                    bad.append("%s: %s" % (what, show(kv.get(key))))
            if kv.get("cc") != "OK":
                bad.append("lyd_change_term_canon(own canonical value): %s" % show(kv.get("cc", "?").replace("OK:", "")))
            if bad:
                return None, "value %r of %s, canonical %r: %s" % (vals[0], T, unhex(c1), "; ".join(bad))
            return None
        refs = [ref_derived(T, v) for v in vals]
        if f[0] == "ci":
            want = refs[0]
            tok = out.split(" ")
            if want == b"?":
                # outside the reference (leap second, year overflow): only idempotence
                if tok[0] != "E" and tok[1] != tok[0]:
                    return self.tag(T, vals, want, "ci", out), "value %r of %s: canonical %s, stored again %s" % (vals[0], T, show(tok[0]), show(tok[1]))
                return None
            got = None if tok[0] == "E" else unhex(tok[0])
            if got != want:
                return self.tag(T, vals, want, "ci", out), "value %r of %s: canonical %r, RFC 6991 %r" % (vals[0], T, got, want)
            if got is not None and tok[1] != tok[0]:
                return self.tag(T, vals, want, "ci", out), "value %r of %s: canonical %r, stored again %s" % (vals[0], T, got, show(tok[1]))
            return None
        if any(r in (None, b"?") for r in refs):
            return None          # the generator only pairs valid values; mutated ones are judged by ci
        if f[0] == "cmp":
            want = "0" if refs[0] == refs[1] else "1"
            if out != want:
                return self.tag(T, vals, None, "cmp", out), "compare of %r and %r on %s: %s, expected %s (canonical %r / %r)" % (
                    vals[0], vals[1], T, out, want, refs[0], refs[1])
            return None
        if f[0] == "dupl":
            want = "DUP" if refs[0] == refs[1] else "OK"
            if out != "ll=%s k=%s" % (want, want):
                return self.tag(T, vals, None, "dupl", out), "%r and %r as two leaf-list instances / list keys of %s: %s, expected %s (canonical %r / %r)" % (
                    vals[0], vals[1], T, out, want, refs[0], refs[1])
            return None
        if f[0] == "perm":
            if out.startswith("DIFF") or out == "E":
                return self.tag(T, vals, None, "perm", out), "insertion orders of %r on %s give different sequences: %s" % (vals, T, out)
            got = [unhex(x) for x in out.split(" ")] if out else []
            if sorted(got) != sorted(refs):
                return self.tag(T, vals, None, "perm", out), "sorted insertion of %r on %s: %r, expected the values %r" % (vals, T, got, sorted(refs))
            return None
        return None

    def tag(self, T, vals, want, f0="ci", out=""):
        """narrow tags of the listed findings (known_findings.d/types2.json)"""
        if T in ("ip6", "ip6nz", "ipa", "ip6p", "ipp") and f0 == "ci" and want is not None and out == "E" and \
                re.search(rb":(\d+\.)*0\d+(\.\d+)*(%|/|$)", vals[0]) and b"." in vals[0]:
            return "ip6-embedded-v4-leading-zero"       # inet_pton() refuses what the RFC 6991 pattern admits
        if T == "dt" and f0 == "ci":
            tok = out.split(" ")
            if want is None and tok[0] != "E":
                # a day the month does not have, normalised by timegm() (dt-day-overflow: required by libyang's own unit
                # tests); anything else outside the RFC 6991 pattern is refused since /repo commit 507eb73: unexpected
                t = _txt(vals[0])
                m = t and re.fullmatch(r"(\d{4})-(\d{2})-(\d{2})T\d{2}:\d{2}:\d{2}(\.\d+)?(Z|[+-]\d{2}:\d{2})", t)
                if m and 1 <= int(m.group(2)) <= 12 and calendar.monthrange(int(m.group(1)) or 4, int(m.group(2)))[1] < int(m.group(3)) <= 31:
                    return "dt-day-overflow"
                return None
            if len(tok) == 2 and tok[1] == "E" and unhex(tok[0]).startswith(b"10000-"):
                return "dt-year-10000"
        if T == "dt" and f0 == "perm" and out.startswith("DIFF"):
            # same instant (zone and zero fractions aside) among the values: the sort callback says equal (dt-sort-eq);
            # otherwise unexpected (the int overflow of the time difference was fixed by /repo commit 33f29b0)
            def instant(v):
                c = ref_derived("dt", v).decode()
                m = re.fullmatch(r"(.*T\d{2}:\d{2}:\d{2})(\.\d+)?([+-]\d{2}:\d{2})", c)
                return m.group(1), (m.group(2) or "").rstrip("0").rstrip(".")
            keys = [instant(v) for v in vals]
            return "dt-sort-eq" if len(set(keys)) < len(keys) else None
        if T == "idr" and f0 == "ci" and want is None and vals[0].startswith(b":") and ref_derived(T, vals[0][1:]) is not None:
            return "idref-empty-prefix"
        return None
