"""comps_flatten.py - API-level oracles of property C11 (SEARCH, not proof): FlattenEquiv and LoadOrder; driver
impl/t_flatten.c.

A STRUCTURED module set is generated (main module fa with submodule fa-sub: typedef chains with restrictions, defaults
and units, groupings with nested uses and refine, uses-augment, own augments, if-feature expressions over three features,
when on uses / augment; fb: augments of fa's nodes - a container, a choice (cases and a shorthand case), a subtree that
came from a uses - and a uses of fa's grouping; fc: only imports fa for a typedef; fd: deviations of fa's nodes) together
with its hand-FLATTENED twin: the same module names / namespaces / prefixes, every construct expanded syntactically by
the Flattener below, which is written from RFC 7950 (7.3 typedef, 7.12/7.13 grouping, uses, refine, 7.17 augment, 7.1.5/7.2
include, 7.20.2 if-feature, 7.20.3 deviation, 7.21.5 when) and shares no code with libyang.
FlattenEquiv, for each of the 8 feature assignments, loads both sets into two contexts and compares
  (a) the LYS_OUT_YANG_COMPILED prints of fa (when statements removed: the flattened twin has to re-root the XPath),
  (b) the set of compiled schema nodes (path, node type, config, mandatory, presence) of fa incl. the nodes augmented by
      fb, in both contexts, with the set computed in Python from the if-feature denotation,
  (c) acceptance (return code, validation error code, error-app-tag) and the printed result with all defaults of
      generated instance documents (valid by construction, and single mutations of them) in both contexts.
LoadOrder loads the structured set in every order of its modules (also: implemented later through lys_set_implemented,
and LY_CTX_EXPLICIT_COMPILE + ly_ctx_compile) and compares the compiled prints of all modules with the first order.

Every difference seen while writing the flattener was investigated; three were libyang's and are fixed in /repo (a
reappearance is a plain violation, nothing is attributed or avoided any more): a property refined by the uses nested in a
grouping was not changed by the refine of the outer uses (9a6fde6); a leaf-list with min-elements >= 1 kept the default of
its typedef (7484206); NULL dereference in lys_compile_type on a chain of three typedefs (bf5769e).
Legitimate differences the flattener follows instead of normalising: the implicit case of a shorthand node added to a choice
by a conditional augment is written as an explicit case carrying the condition; the children that the augments of nested
uses add to one node are written in libyang's order (outer uses first).
"""
import itertools
import os
import re

from props import comps_restrict as R
from vlib import hexs, unhex

BUILTIN = {"int8", "int16", "int32", "int64", "uint8", "uint16", "uint32", "uint64", "decimal64", "string", "boolean",
           "enumeration", "union", "binary", "empty", "bits"}
FEATS = ["f1", "f2", "f3"]


# ------------------------------------------------------------------------------------------------
# statements
# ------------------------------------------------------------------------------------------------
class S:
    """a YANG statement: keyword, argument, substatements; [mod] = name of the module it was written in"""

    def __init__(self, kw, arg=None, subs=None, mod=None):
        self.kw = kw
        self.arg = arg
        self.subs = list(subs or [])
        self.mod = mod

    def add(self, *subs):
        self.subs.extend(s for s in subs if s is not None)
        return self

    def find(self, kw):
        for s in self.subs:
            if s.kw == kw:
                return s
        return None

    def findall(self, kw):
        return [s for s in self.subs if s.kw == kw]

    def val(self, kw, dflt=None):
        s = self.find(kw)
        return s.arg if s else dflt

    def drop(self, kw):
        self.subs = [s for s in self.subs if s.kw != kw]

    def set(self, kw, arg):
        """replace all substatements kw by a single one (kept at the position of the first, else appended)"""
        for i, s in enumerate(self.subs):
            if s.kw == kw:
                self.subs[i] = S(kw, arg, mod=self.mod)
                self.subs = self.subs[:i + 1] + [x for x in self.subs[i + 1:] if x.kw != kw]
                return
        self.subs.append(S(kw, arg, mod=self.mod))

    def copy(self, mod=None):
        return S(self.kw, self.arg, [s.copy(mod) for s in self.subs], mod or self.mod)

    def stamp(self, mod):
        self.mod = mod
        for s in self.subs:
            s.stamp(mod)
        return self

    def text(self, ind=0):
        pad = "  " * ind
        a = "" if self.arg is None else " " + quote(self.arg)
        if not self.subs:
            return "%s%s%s;\n" % (pad, self.kw, a)
        return "%s%s%s {\n%s%s}\n" % (pad, self.kw, a, "".join(s.text(ind + 1) for s in self.subs), pad)


def quote(a):
    a = str(a)
    if re.fullmatch(r"[A-Za-z0-9_.:/+-]+", a) and not a.startswith("//") and "/*" not in a:
        return a
    return '"' + a.replace("\\", "\\\\").replace('"', '\\"') + '"'


DATA_KW = ("container", "leaf", "leaf-list", "list", "choice", "case", "uses", "anydata")


# ------------------------------------------------------------------------------------------------
# if-feature expressions (RFC 7950 7.20.2): AST = name | ("not", e) | ("and", e, e) | ("or", e, e)
# ------------------------------------------------------------------------------------------------
def iff_gen(rng, depth=2):
    r = rng.random()
    if depth == 0 or r < 0.4:
        return rng.choice(FEATS)
    if r < 0.55:
        return ("not", iff_gen(rng, depth - 1))
    return (rng.choice(["and", "or"]), iff_gen(rng, depth - 1), iff_gen(rng, depth - 1))


def iff_text(e, prefix="", top=True):
    if isinstance(e, str):
        return prefix + e
    if e[0] == "not":
        return "not " + iff_text(e[1], prefix, False)
    t = "%s %s %s" % (iff_text(e[1], prefix, False), e[0], iff_text(e[2], prefix, False))
    return t if top else "(" + t + ")"


def iff_eval(e, env):
    if isinstance(e, str):
        return env[e]
    if e[0] == "not":
        return not iff_eval(e[1], env)
    a, b = iff_eval(e[1], env), iff_eval(e[2], env)
    return (a and b) if e[0] == "and" else (a or b)


def iff_parse(text):
    """parser of the expressions written by iff_text (prefixes dropped) - used on the FLATTENED text"""
    toks = re.findall(r"\(|\)|[A-Za-z0-9_:.-]+", text)
    pos = [0]

    def peek():
        return toks[pos[0]] if pos[0] < len(toks) else None

    def take():
        pos[0] += 1
        return toks[pos[0] - 1]

    def factor():
        t = take()
        if t == "not":
            return ("not", factor())
        if t == "(":
            e = expr()
            take()
            return e
        return t.split(":")[-1]

    def term():
        e = factor()
        while peek() == "and":
            take()
            e = ("and", e, factor())
        return e

    def expr():
        e = term()
        while peek() == "or":
            take()
            e = ("or", e, term())
        return e
    return expr()


# ------------------------------------------------------------------------------------------------
# effective types (computed from the statements only)
# ------------------------------------------------------------------------------------------------
class TypeEff:
    def __init__(self, builtin):
        self.builtin = builtin
        self.fd = 0
        self.range = None        # list of (lo, hi) stored integers (decimal64: scaled), None = unrestricted
        self.length = None
        self.patterns = []
        self.enums = []          # names
        self.members = []        # union

    def clone(self):
        t = TypeEff(self.builtin)
        t.fd, t.range, t.length = self.fd, self.range, self.length
        t.patterns, t.enums, t.members = list(self.patterns), list(self.enums), list(self.members)
        return t

    def ty(self):
        return R.Ty(self.builtin, self.fd)

    def stmt(self):
        t = S("type", self.builtin)
        if self.builtin == "decimal64":
            t.add(S("fraction-digits", str(self.fd)))
        if self.range is not None:
            ty = self.ty()
            t.add(S("range", " | ".join(ty.fmt(lo, style=0) if lo == hi else ty.fmt(lo, style=0) + ".." + ty.fmt(hi, style=0)
                                       for lo, hi in self.range)))
        if self.length is not None:
            t.add(S("length", " | ".join(str(lo) if lo == hi else "%d..%d" % (lo, hi) for lo, hi in self.length)))
        for p in self.patterns:
            t.add(S("pattern", p))
        for e in self.enums:
            t.add(S("enum", e))
        for m in self.members:
            t.add(m.stmt())
        return t

    def accepts(self, v):
        """is the canonical-ish text v a value of the type (used by the instance generator)"""
        b = self.builtin
        if b == "union":
            return any(m.accepts(v) for m in self.members)
        if b == "boolean":
            return v in ("true", "false")
        if b == "enumeration":
            return v in self.enums
        if b == "string":
            if self.length is not None and not any(lo <= len(v) <= hi for lo, hi in self.length):
                return False
            return all(re.fullmatch(p, v) for p in self.patterns)
        x = R.value_of(self.ty(), v)
        if x is None:
            return False
        return self.range is None or any(lo <= x <= hi for lo, hi in self.range)


def parse_restriction(text, ty, base):
    """RFC 7950 9.2.4: parts separated by |, boundaries separated by .., min / max = bounds of the base"""
    from fractions import Fraction
    bmin = base[0][0] if base else ty.lo
    bmax = base[-1][1] if base else ty.hi
    scale = 10 ** ty.fd if ty.name == "decimal64" else 1
    out = []
    for p in text.split("|"):
        bs = [b.strip() for b in p.split("..")]
        vs = []
        for b in bs:
            if b == "min":
                vs.append(bmin)
            elif b == "max":
                vs.append(bmax)
            else:
                q = Fraction(b) * scale
                assert q.denominator == 1
                vs.append(int(q))
        out.append((vs[0], vs[-1]))
    return out


# ------------------------------------------------------------------------------------------------
# the flattener
# ------------------------------------------------------------------------------------------------
class Flattener:
    """mods: name -> S (module / submodule statement). Everything is looked up in the statements."""

    def __init__(self, mods):
        mods = {k: v.copy() for k, v in mods.items()}      # the statements are rewritten in place below
        self.mods = mods
        self.main = {}          # submodule name -> main module name
        self.prefix = {}        # module name -> {prefix: module name}
        self.own_prefix = {}
        self.typedefs = {}
        self.groupings = {}
        for name, m in mods.items():
            if m.kw == "submodule":
                self.main[name] = m.find("belongs-to").arg
        for name, m in mods.items():
            if m.kw != "module":
                continue
            self.own_prefix[name] = m.val("prefix")
            self.typedefs[name] = {}
            self.groupings[name] = {}
            for unit in self.units(name):
                for td in unit.findall("typedef"):
                    self.typedefs[name][td.arg] = td
                for g in unit.findall("grouping"):
                    self.groupings[name][g.arg] = g
        # RFC 7950 5.1 / 7.1.5: a prefix is resolved in the (sub)module the statement is written in - every submodule
        # has its OWN imports; its belongs-to prefix stands for the module it belongs to
        for name, m in mods.items():
            if m.kw == "submodule":
                pm = {m.find("belongs-to").val("prefix"): self.main[name]}
            else:
                pm = {m.val("prefix"): name}
            for imp in m.findall("import"):
                pm[imp.val("prefix")] = imp.arg
            self.prefix[name] = pm
            m.stamp(name)                # the UNIT (module or submodule) a statement is written in

    def units(self, name):
        """the module statement followed by its submodules in include order"""
        m = self.mods[name]
        return [m] + [self.mods[i.arg] for i in m.findall("include")]

    def qname(self, ref, unit):
        """-> (module name, local name) of a possibly prefixed reference written in the given unit"""
        if ":" in ref:
            p, n = ref.split(":", 1)
            return self.prefix[unit][p], n
        return self.main.get(unit, unit), ref

    def out_prefixes(self, name):
        """prefixes of the flattened module: its own imports keep their prefix, a module that only a submodule imports
        (or imports under a prefix the module uses otherwise) gets a fresh one"""
        units = self.units(name)
        out = {}
        used = {units[0].val("prefix")}
        for imp in units[0].findall("import"):
            out[imp.arg] = imp.val("prefix")
            used.add(imp.val("prefix"))
        for unit in units[1:]:
            for imp in unit.findall("import"):
                if imp.arg not in out:
                    p = imp.val("prefix")
                    while p in used:
                        p = "x" + p
                    out[imp.arg] = p
                    used.add(p)
        return out

    # ---- if-feature / when in internal form ----
    def norm_props(self, node):
        """if-feature arguments -> AST with names qualified by MODULE name; when -> (leaf, value, steps up)"""
        for s in node.subs:
            if s.kw == "if-feature" and isinstance(s.arg, str):
                s.arg = ("#", self.qual_iff(iff_parse_q(s.arg), s.mod))
            elif s.kw == "when" and isinstance(s.arg, str):
                m = re.fullmatch(r"(?:([a-z0-9]+):)?([A-Za-z0-9_-]+) = '([^']*)'", s.arg)
                wmod = self.qname((m.group(1) + ":" if m.group(1) else "") + m.group(2), s.mod)[0]
                s.arg = (m.group(2), m.group(3), 0, wmod)

    def qual_iff(self, e, mod):
        if isinstance(e, str):
            m, n = self.qname(e, mod)
            return m + ":" + n
        return (e[0],) + tuple(self.qual_iff(x, mod) for x in e[1:])

    # ---- structure ----
    def expand_nodes(self, stmts):
        out = []
        for st in stmts:
            if st.kw == "uses":
                out += self.expand_uses(st)
            elif st.kw in ("container", "list", "choice", "case"):
                n = S(st.kw, st.arg, mod=st.mod)
                kids = []
                for c in st.subs:
                    if c.kw in DATA_KW:
                        kids.append(c)
                    elif c.kw not in ("grouping", "typedef"):
                        n.subs.append(c.copy())
                self.norm_props(n)
                n.subs += self.expand_nodes(kids)
                out.append(n)
            elif st.kw in ("leaf", "leaf-list", "anydata"):
                n = st.copy()
                self.norm_props(n)
                out.append(n)
        return out

    @staticmethod
    def child(nodes, name):
        for n in nodes:
            if n.kw in DATA_KW and n.arg == name:
                return n
        return None

    def descend(self, nodes, path):
        """descendant schema node id (names possibly prefixed; choice and case count)"""
        cur = None
        shorthand = False
        for seg in path.strip("/").split("/"):
            nm = seg.split(":")[-1]
            if shorthand:
                # a data node written directly in a choice stands for a case of the same name around it (RFC 7950
                # 7.9.2): the path names both
                shorthand = False
                if nm == cur.arg:
                    continue
                return None
            pool = nodes if cur is None else [c for c in cur.subs if c.kw in DATA_KW]
            nxt = self.child(pool, nm)
            if nxt is None:
                return None
            shorthand = cur is not None and cur.kw == "choice" and nxt.kw != "case"
            cur = nxt
        return cur

    def push(self, node, iffs, when):
        for e in iffs:
            node.subs.insert(0, S("if-feature", e, mod=node.mod))
        if when is not None:
            # RFC 7950 7.21.5: the context node of a when under uses / augment is the data node they are in (the
            # target); under choice / case it is the closest ancestor data node - the same node, the path is unchanged;
            # under any other data definition statement it is the node itself - one more step up
            up = when[2] if node.kw in ("choice", "case") else when[2] + 1
            node.subs.insert(0, S("when", (when[0], when[1], up) + tuple(when[3:]), mod=node.mod))

    def own_conditions(self, st):
        self.norm_props(st)
        iffs = [s.arg for s in st.findall("if-feature")]
        w = st.find("when")
        return iffs, (w.arg if w else None)

    def expand_uses(self, u):
        gmod, gname = self.qname(u.arg, u.mod)
        g = self.groupings[gmod][gname]
        self.udepth = getattr(self, "udepth", 0) + 1
        nodes = self.expand_nodes([c.copy() for c in g.subs if c.kw in DATA_KW])
        self.udepth -= 1
        # the instantiated nodes live in the namespace of the module that has the uses; what was written in the
        # grouping (type names, feature names) keeps the meaning it has in the grouping's module: types are resolved
        # later through s.mod of the type statement, if-feature was qualified by norm_props
        for rf in u.findall("refine"):
            t = self.descend(nodes, rf.arg)
            assert t is not None, ("refine target", rf.arg)
            self.apply_refine(t, rf)
        for ag in u.findall("augment"):
            t = self.descend(nodes, ag.arg)
            assert t is not None, ("uses augment target", ag.arg)
            self.apply_augment(t, ag, level=self.udepth)
        iffs, when = self.own_conditions(u)
        for n in nodes:
            self.push(n, iffs, when)
        return nodes

    def apply_refine(self, t, rf):
        done = getattr(t, "refined", None)
        if done is None:
            done = t.refined = set()
        for s in rf.subs:
            done.add(s.kw)
        for s in rf.subs:
            if s.kw == "default":
                continue
            if s.kw in ("mandatory", "config", "presence", "min-elements", "max-elements"):
                t.set(s.kw, s.arg)
            elif s.kw == "if-feature":
                c = s.copy()
                tmp = S("x", None, [c], mod=s.mod)
                self.norm_props(tmp)
                t.subs.insert(0, c)
            elif s.kw == "must":
                t.subs.append(s.copy())
        dfl = rf.findall("default")
        if dfl:
            t.drop("default")
            for d in dfl:
                t.subs.append(d.copy())

    def apply_augment(self, target, ag, level=None):
        """level: nesting depth of the uses whose augment this is (None: an augment statement of the module). The order
        among the children that several uses-augments add to one node is not fixed by RFC 7950; libyang mostly connects
        the augments of an outer uses before those of the uses nested in its grouping (followed here), but with three
        levels the order also depends on which other augments are pending (unordered removal from its set), so runs of
        such siblings are additionally sorted by name before the prints are compared (norm_print)."""
        kids = self.expand_nodes([c for c in ag.subs if c.kw in DATA_KW])
        iffs, when = self.own_conditions(ag)
        if target.kw == "choice":
            # RFC 7950 7.9.2: a data node written directly in a choice is a case of the same name with that node in
            # it; the conditions of the augment apply to everything the augment adds, i.e. to the case
            kids = [k if k.kw == "case" else S("case", k.arg, [k], mod=k.mod) for k in kids]
        for n in kids:
            self.push(n, iffs, when)
            n.auglevel = level
            if level is not None:
                self.uses_aug_names = getattr(self, "uses_aug_names", set()) | {n.arg}
        pos = len(target.subs)
        if level is not None:
            for i, c in enumerate(target.subs):
                if getattr(c, "auglevel", None) is not None and c.auglevel > level:
                    pos = i
                    break
        target.subs[pos:pos] = kids

    # ---- deviations ----
    def apply_deviation(self, top, dev):
        path = dev.arg.strip("/").split("/")
        cur = self.descend(top, dev.arg)
        assert cur is not None, ("deviation target", dev.arg)
        parent = self.descend(top, "/".join(path[:-1])) if len(path) > 1 else None
        if parent is not None and parent is cur:
            parent = self.descend(top, "/".join(path[:-2]))
        for dv in dev.findall("deviate"):
            if dv.arg == "not-supported":
                if parent is None:
                    top.remove(cur)
                else:
                    parent.subs.remove(cur)
                return
            for s in dv.subs:
                if dv.arg == "add":
                    if s.kw in ("default", "must", "unique"):
                        cur.subs.append(s.copy())
                    else:
                        cur.set(s.kw, s.arg)
                elif dv.arg == "replace":
                    if s.kw == "type":
                        i = [k for k, x in enumerate(cur.subs) if x.kw == "type"][0]
                        cur.subs[i] = s.copy()
                    else:
                        cur.set(s.kw, s.arg)
                elif dv.arg == "delete":
                    for x in list(cur.subs):
                        if x.kw == s.kw and x.arg == s.arg:
                            cur.subs.remove(x)
                            break
                    else:
                        self.dev_mismatch = True       # RFC 7950 7.20.3.2: the deviation is in error

    # ---- types ----
    def type_eff(self, t):
        """-> (TypeEff, default, units) of a type statement; default / units from the typedef chain"""
        if t.arg in BUILTIN:
            eff, dflt, units = TypeEff(t.arg), None, None
            if t.arg == "decimal64":
                eff.fd = int(t.val("fraction-digits"))
        else:
            mod, nm = self.qname(t.arg, t.mod)
            td = self.typedefs[mod][nm]
            eff, dflt, units = self.type_eff(td.find("type"))
            eff = eff.clone()
            dflt = td.val("default", dflt)
            units = td.val("units", units)
        r = t.find("range")
        if r is not None:
            eff.range = parse_restriction(r.arg, eff.ty(), eff.range)
        ln = t.find("length")
        if ln is not None:
            eff.length = parse_restriction(ln.arg, R.Ty("string"), eff.length)
        eff.patterns += [p.arg for p in t.findall("pattern")]
        if t.findall("enum"):
            eff.enums = [e.arg for e in t.findall("enum")]
        if t.findall("type"):
            eff.members = [self.type_eff(m)[0] for m in t.findall("type")]
        return eff, dflt, units

    def resolve_types(self, nodes, keys=()):
        for n in nodes:
            if n.kw in ("leaf", "leaf-list"):
                i = [k for k, x in enumerate(n.subs) if x.kw == "type"][0]
                eff, dflt, units = self.type_eff(n.subs[i])
                n.subs[i] = eff.stmt()
                n.eff = eff
                n.type_dflt = dflt
                if units is not None and n.find("units") is None:
                    n.subs.append(S("units", units))
                    n.subs[-1].inherited = True
                # RFC 7950 7.6.1 / 7.7.2: the default of the type is used when the leaf has none and is not mandatory
                # (leaf-list: min-elements 0); 7.8.2: a default of a key leaf's type is ignored
                if dflt is not None and n.find("default") is None and n.arg not in keys and \
                        n.val("mandatory") != "true" and int(n.val("min-elements", "0")) == 0:
                    n.subs.append(S("default", dflt))
                    n.subs[-1].inherited = True
            else:
                ks = n.val("key", "").split() if n.kw == "list" else ()
                self.resolve_types([c for c in n.subs if c.kw in DATA_KW], ks)

    # ---- output form of the internal if-feature / when ----
    def externalise(self, nodes, outmod):
        for n in nodes:
            for s in n.subs:
                if s.kw == "if-feature" and not isinstance(s.arg, str):
                    s.arg = self.iff_out(s.arg[1], outmod)
                elif s.kw == "when" and not isinstance(s.arg, str):
                    wp = ""
                    if len(s.arg) > 3 and s.arg[3] != outmod:
                        wp = self.outpfx[s.arg[3]] + ":"
                    s.arg = "../" * s.arg[2] + "%s%s = '%s'" % (wp, s.arg[0], s.arg[1])
            self.externalise([c for c in n.subs if c.kw in DATA_KW], outmod)

    def iff_out(self, e, outmod, top=True):
        if isinstance(e, str):
            m, n = e.split(":")
            if m == outmod:
                return n
            return self.outpfx[m] + ":" + n
        if e[0] == "not":
            return "not " + self.iff_out(e[1], outmod, False)
        t = "%s %s %s" % (self.iff_out(e[1], outmod, False), e[0], self.iff_out(e[2], outmod, False))
        return t if top else "(" + t + ")"

    # ---- whole modules ----
    def flatten_module(self, name, deviations=()):
        """-> flattened module statement. Own data nodes with everything expanded; augments of OTHER modules stay
        augments (with expanded content); deviations (statements of other modules targeting this one) applied."""
        units = self.units(name)
        m = units[0]
        out = S("module", name)
        for kw in ("yang-version", "namespace", "prefix"):
            out.add(m.find(kw).copy())
        self.outpfx = self.out_prefixes(name)
        for imod, ipfx in self.outpfx.items():
            out.add(S("import", imod).add(S("prefix", ipfx)))
        for unit in units:
            for f in unit.findall("feature"):
                out.add(f.copy())
        top = []
        for unit in units:
            top += self.expand_nodes([c for c in unit.subs if c.kw in DATA_KW])
        foreign = []
        for unit in units:
            for ag in unit.findall("augment"):
                tmod = self.qname(ag.arg.strip("/").split("/")[0], ag.mod)[0]
                if tmod == name:
                    t = self.descend(top, ag.arg)
                    assert t is not None, ("augment target", ag.arg)
                    self.apply_augment(t, ag)
                else:
                    # the target path with the prefixes of the flattened module
                    segs = []
                    for seg in ag.arg.strip("/").split("/"):
                        smod, snm = self.qname(seg, ag.mod)
                        segs.append((self.outpfx[smod] + ":" if smod != name else m.val("prefix") + ":") + snm)
                    a2 = S("augment", "/" + "/".join(segs), mod=ag.mod)
                    for s in ag.subs:
                        if s.kw not in DATA_KW:
                            a2.subs.append(s.copy())
                    self.norm_props(a2)
                    a2.subs += self.expand_nodes([c for c in ag.subs if c.kw in DATA_KW])
                    foreign.append(a2)
        for dev in deviations:
            self.apply_deviation(top, dev)
        self.resolve_types(top)
        for a2 in foreign:
            self.resolve_types([c for c in a2.subs if c.kw in DATA_KW])
        self.externalise(top, name)
        self.externalise(foreign, name)
        for a2 in foreign:
            self.externalise([a2], name)
        out.subs += top + foreign
        self.top = top
        return out


def iff_parse_q(text):
    """as iff_parse but keeps the prefixes"""
    toks = re.findall(r"\(|\)|[A-Za-z0-9_:.-]+", text)
    pos = [0]

    def peek():
        return toks[pos[0]] if pos[0] < len(toks) else None

    def take():
        pos[0] += 1
        return toks[pos[0] - 1]

    def factor():
        t = take()
        if t == "not":
            return ("not", factor())
        if t == "(":
            e = expr()
            take()
            return e
        return t

    def term():
        e = factor()
        while peek() == "and":
            take()
            e = ("and", e, factor())
        return e

    def expr():
        e = term()
        while peek() == "or":
            take()
            e = ("or", e, term())
        return e
    return expr()


# ------------------------------------------------------------------------------------------------
# generator of the structured set
# ------------------------------------------------------------------------------------------------
def legal_parts(rng, ty, base, kmax=3):
    """ascending disjoint parts, each inside one part of base (or the type)"""
    for _ in range(30):
        parts = R.pick_parts(rng, ty, inside=base, kmax=kmax)
        res = R.resolve(parts, ty, base)
        ok = all(lo <= hi for lo, hi in res) and all(a[1] < b[0] for a, b in zip(res, res[1:]))
        if base:
            ok = ok and all(any(a <= lo and hi <= b for a, b in base) for lo, hi in res)
        if ok:
            return parts
    b = base[0] if base else (ty.lo, ty.hi)
    return [(b[0], None)]


def pick_value(rng, eff):
    b = eff.builtin
    if b == "union":
        return pick_value(rng, rng.choice(eff.members))
    if b == "boolean":
        return rng.choice(["true", "false"])
    if b == "enumeration":
        return rng.choice(eff.enums)
    if b == "string":
        lens = [n for n in range(0, 14) if eff.length is None or any(lo <= n <= hi for lo, hi in eff.length)]
        n = rng.choice(lens) if lens else eff.length[0][0]
        return "".join(rng.choice("abcm") for _ in range(n))
    ty = eff.ty()
    lo, hi = rng.choice(eff.range) if eff.range else (max(ty.lo, -100), min(ty.hi, 100))
    v = rng.choice([lo, hi, (lo + hi) // 2, min(lo + 1, hi)])
    return ty.fmt(v, style=1) if b == "decimal64" else str(v)


def bad_value(rng, eff):
    """a value outside the type, None when there is no simple one"""
    b = eff.builtin
    if b == "union":
        return None
    if b == "boolean":
        return "maybe"
    if b == "enumeration":
        return "nonexistent"
    if b == "string":
        if eff.patterns:
            return "Z!"
        if eff.length is not None:
            n = eff.length[-1][1] + 1
            return "a" * n if n < 300 else None
        return None
    ty = eff.ty()
    cands = []
    if eff.range:
        for lo, hi in eff.range:
            cands += [lo - 1, hi + 1]
        cands = [v for v in cands if not any(lo <= v <= hi for lo, hi in eff.range)]
    cands += [ty.hi + 1, ty.lo - 1]
    v = rng.choice(cands)
    if b == "decimal64":
        if not (ty.lo <= v <= ty.hi):
            return "9" * 25
        return ty.fmt(v, style=1)
    return str(v)


class Gen:
    def __init__(self, rng):
        self.rng = rng
        self.k = 0
        self.tds = []            # (name, module) usable typedef names, in fa's scope
        self.fl = None

    def nm(self, p):
        self.k += 1
        return "%s%d" % (p, self.k)

    # ---- typedefs ----
    def restr_stmt(self, ty, base, kw="range"):
        parts = legal_parts(self.rng, ty, base)
        parts = R.with_keywords(self.rng, ty, parts, base) if self.rng.random() < 0.3 else parts
        # the keyword may only replace a bound it equals, otherwise the restriction is no longer inside the base
        res = R.resolve(parts, ty, base)
        if base and not all(any(a <= lo and hi <= b for a, b in base) for lo, hi in res):
            parts = legal_parts(self.rng, ty, base)
        if not all(a[1] < b[0] for a, b in zip(R.resolve(parts, ty, base), R.resolve(parts, ty, base)[1:])) or \
                not all(lo <= hi for lo, hi in R.resolve(parts, ty, base)):
            parts = legal_parts(self.rng, ty, base)
        return S(kw, R.render(self.rng, ty, parts, [" "], style=0).strip())

    def typedef_family(self, kind, sub_at=None):
        """a chain of typedefs; returns the list of typedef statements (first = directly on the built-in type)"""
        rng = self.rng
        out = []
        depth = rng.choice([1, 2, 2, 3]) if kind in ("int", "dec", "str") else rng.choice([1, 2])
        prev = None
        for d in range(depth):
            name = self.nm("t" + kind[0])
            if prev is None:
                if kind == "int":
                    t = S("type", rng.choice(["int8", "uint8", "int32", "uint64", "int16", "int64"]))
                elif kind == "dec":
                    t = S("type", "decimal64").add(S("fraction-digits", str(rng.choice([1, 2]))))
                elif kind == "str":
                    t = S("type", "string")
                elif kind == "enum":
                    t = S("type", "enumeration")
                    for e in rng.sample(["ea", "eb", "ec", "ed", "ee"], rng.choice([2, 3, 4])):
                        t.add(S("enum", e))
                else:
                    t = S("type", "boolean")
            else:
                t = S("type", prev)
            td = S("typedef", name).add(t)
            out.append(td)
            self.register(td)
            eff, dflt, units = self.fl.type_eff(t.stamp("fa"))
            if kind in ("int", "dec") and (d == 0 and rng.random() < 0.7 or d > 0 and rng.random() < 0.85):
                t.add(self.restr_stmt(eff.ty(), eff.range))
            if kind == "str":
                # first level: mostly a length of several parts; later levels: only a pattern (the inherited length is
                # copied), only a length, both, or nothing
                shape = rng.choice(["len", "len", "both", "pat"]) if d == 0 else rng.choice(["pat", "pat", "len", "both", "none"])
                if shape in ("len", "both"):
                    ty = R.Ty("string")
                    base = eff.length
                    small = [(0, 12)] if base is None else [(lo, min(hi, 12)) for lo, hi in base if lo <= 12]
                    parts = legal_parts(rng, ty, small or base)
                    for _ in range(6):
                        if len(parts) >= 2 or d > 0 or rng.random() < 0.3:
                            break
                        parts = legal_parts(rng, ty, small or base)
                    t.add(S("length", R.render(rng, ty, parts, [" "], style=0).strip()))
                if shape in ("pat", "both"):
                    t.add(S("pattern", rng.choice(["[a-z]*", "[a-m]*", "[a-z0-9]*"])))
            t.stamp("fa")
            eff, dflt, units = self.fl.type_eff(t)
            if (dflt is not None and not eff.accepts(dflt)) or (dflt is None and rng.random() < 0.35) or rng.random() < 0.1:
                td.add(S("default", pick_value(rng, eff)))
            if rng.random() < 0.25:
                td.add(S("units", rng.choice(["m", "s", "kg", "pkt"])))
            td.stamp("fa")
            prev = name
        return out

    def register(self, td):
        td.stamp("fa")
        self.fl.typedefs["fa"][td.arg] = td
        self.tds.append(td.arg)

    # ---- data nodes ----
    def type_stmt(self, mod, key=False):
        """a type statement usable in module mod (fa / fb), mostly a typedef of fa"""
        rng = self.rng
        pre = "" if mod == "fa" else "a:"
        for _ in range(20):
            if rng.random() < 0.8:
                t = S("type", pre + rng.choice(self.tds))
            else:
                b = rng.choice(["int8", "uint8", "int32", "string", "boolean", "uint64"])
                t = S("type", b)
            t.stamp(mod)
            eff, dflt, units = self.fl.type_eff(t)
            if key and (dflt is not None or eff.builtin in ("boolean", "union", "decimal64")):
                continue
            if eff.builtin in R.INT_BOUNDS or eff.builtin == "decimal64":
                if rng.random() < 0.3 and not key:
                    t.add(self.restr_stmt(eff.ty(), eff.range).stamp(mod))
            if eff.builtin == "string" and t.arg not in BUILTIN and not key:
                r = rng.random()
                if r < 0.3:
                    t.add(S("pattern", rng.choice(["[a-z]*", "[a-m]*", "[a-z0-9]*"])).stamp(mod))       # the length is inherited
                elif r < 0.45 and eff.length:
                    small = [(lo, min(hi, 12)) for lo, hi in eff.length if lo <= 12]
                    if small:
                        parts = legal_parts(rng, R.Ty("string"), small)
                        t.add(S("length", R.render(rng, R.Ty("string"), parts, [" "], style=0).strip()).stamp(mod))
            return t
        return S("type", "uint8").stamp(mod)

    def leaf(self, mod, key=False, allow_mand=True, iff=True):
        rng = self.rng
        lf = S("leaf", self.nm("k" if key else "l"))
        t = self.type_stmt(mod, key)
        lf.add(t)
        eff, dflt, units = self.fl.type_eff(t)
        if not key:
            r = rng.random()
            if r < 0.15 and allow_mand:
                lf.add(S("mandatory", "true"))
            elif r < 0.5 or (dflt is not None and not eff.accepts(dflt)):
                lf.add(S("default", pick_value(rng, eff)))
            if rng.random() < 0.2:
                lf.add(S("units", rng.choice(["b", "ms", "pct"])))
            if iff and rng.random() < 0.25:
                lf.add(S("if-feature", iff_text(iff_gen(rng), "" if mod == "fa" else "a:")))
        return lf.stamp(mod)

    def leaflist(self, mod, allow_mand=True):
        rng = self.rng
        ll = S("leaf-list", self.nm("ll"))
        t = self.type_stmt(mod)
        ll.add(t)
        eff, dflt, units = self.fl.type_eff(t)
        r = rng.random()
        need_dflt = dflt is not None and not eff.accepts(dflt)
        if (r < 0.45 or need_dflt) and eff.builtin != "boolean":
            vals = []
            for _ in range(rng.choice([1, 2, 3, 4, 5])):
                v = pick_value(rng, eff)
                if v not in vals and canon_key(eff, v) not in [canon_key(eff, x) for x in vals]:
                    vals.append(v)
            for v in vals:
                ll.add(S("default", v))
        elif r < 0.75 and allow_mand and not need_dflt:
            ll.add(S("min-elements", str(rng.choice([1, 2]))))
        elif need_dflt:
            ll.add(S("default", pick_value(rng, eff)))
        if rng.random() < 0.3:
            # (at least as many as there are default values: otherwise no document without the leaf-list is valid)
            ll.add(S("max-elements", str(max(rng.choice([2, 3, 4]), len(ll.findall("default"))))))
        if rng.random() < 0.2:
            ll.add(S("if-feature", iff_text(iff_gen(rng), "" if mod == "fa" else "a:")))
        return ll.stamp(mod)

    def container(self, mod, depth, allow_mand=True, uses=()):
        rng = self.rng
        c = S("container", self.nm("c"))
        if rng.random() < 0.3:
            c.add(S("presence", "p"))
        if rng.random() < 0.1:
            c.add(S("config", "false"))
        if rng.random() < 0.25:
            c.add(S("if-feature", iff_text(iff_gen(rng), "" if mod == "fa" else "a:")))
        c.subs += self.children(mod, depth - 1, rng.choice([1, 2, 3]), allow_mand, uses)
        return c.stamp(mod)

    def lst(self, mod, depth, allow_mand=True, uses=()):
        rng = self.rng
        li = S("list", self.nm("li"))
        keys = [self.leaf(mod, key=True) for _ in range(rng.choice([1, 1, 2]))]
        li.add(S("key", " ".join(k.arg for k in keys)))
        if rng.random() < 0.2 and allow_mand:
            li.add(S("min-elements", "1"))
        if rng.random() < 0.3:
            li.add(S("max-elements", str(rng.choice([2, 3]))))
        if rng.random() < 0.2:
            li.add(S("if-feature", iff_text(iff_gen(rng), "" if mod == "fa" else "a:")))
        li.subs += keys
        li.subs += self.children(mod, depth - 1, rng.choice([1, 2]), allow_mand, uses)
        return li.stamp(mod)

    def choice(self, mod, allow_mand=True):
        rng = self.rng
        ch = S("choice", self.nm("ch"))
        cases = []
        for i in range(rng.choice([2, 3])):
            if rng.random() < 0.3:
                cases.append(self.leaf(mod, allow_mand=False, iff=False))         # shorthand case
            else:
                cs = S("case", self.nm("cs"))
                for _ in range(rng.choice([1, 2])):
                    cs.add(self.leaf(mod, allow_mand=False) if rng.random() < 0.8 else self.leaflist(mod, allow_mand=False))
                cases.append(cs)
        r = rng.random()
        if r < 0.3:
            d = rng.choice(cases)
            ch.add(S("default", d.arg))
            d.drop("if-feature")
        elif r < 0.5 and allow_mand:
            ch.add(S("mandatory", "true"))
        for cs in cases:
            if cs.kw == "case" and cs.arg != ch.val("default") and rng.random() < 0.25:
                cs.subs.insert(0, S("if-feature", iff_text(iff_gen(rng), "" if mod == "fa" else "a:")))
        ch.subs += cases
        return ch.stamp(mod)

    def children(self, mod, depth, n, allow_mand=True, uses=()):
        rng = self.rng
        out = []
        uses = list(uses)
        for _ in range(n):
            r = rng.random()
            if uses and r < 0.3:
                out.append(uses.pop(0))
            elif r < 0.5 or depth <= 0:
                out.append(self.leaf(mod, allow_mand=allow_mand))
            elif r < 0.65:
                out.append(self.leaflist(mod, allow_mand))
            elif r < 0.8:
                out.append(self.container(mod, depth, allow_mand))
            elif r < 0.9:
                out.append(self.lst(mod, depth, allow_mand))
            else:
                out.append(self.choice(mod, allow_mand))
        out += uses
        return out


def canon_key(eff, v):
    """values that are equal after canonisation (leaf-list defaults must be unique)"""
    if eff.builtin == "decimal64" or eff.builtin in R.INT_BOUNDS:
        return R.value_of(eff.ty(), v)
    if eff.builtin == "union":
        for m in eff.members:
            if m.accepts(v):
                return (m.builtin, canon_key(m, v))
    return v


def reprefix(st, old, new):
    """rewrite the prefix old: to new: in every argument that holds prefixed names"""
    if st.kw in ("augment", "deviation", "if-feature", "type", "uses", "when") and isinstance(st.arg, str):
        st.arg = re.sub(r"(?<![A-Za-z0-9_-])%s:" % re.escape(old), new + ":", st.arg)
    for c in st.subs:
        reprefix(c, old, new)


def walk(nodes, prefix="", keys=(), state=False, in_choice=False):
    """(relative path, node, is key, under config false, inside a choice) of every data node"""
    for n in nodes:
        if n.kw not in DATA_KW:
            continue
        p = prefix + n.arg
        if in_choice == "direct" and n.kw != "case":
            p += "/" + n.arg             # the implicit case around a shorthand node
        st = state or n.val("config") == "false"
        yield p, n, n.arg in keys, st, in_choice
        ks = n.val("key", "").split() if n.kw == "list" else ()
        yield from walk(n.subs, p + "/", ks, st, "direct" if n.kw == "choice" else (in_choice and True))


def has_mandatory(n):
    if n.val("mandatory") == "true" or int(n.val("min-elements", "0")) > 0:
        return True
    if n.kw in ("case", "container") and not n.find("presence"):
        return any(has_mandatory(c) for c in n.subs if c.kw in DATA_KW)
    return False


class SetGen(Gen):
    """the whole structured set"""

    def uses(self, gname, mod, scope_top=False):
        rng = self.rng
        pre = "" if mod == "fa" else "a:"
        u = S("uses", pre + gname)
        g = self.fl.groupings["fa"][gname]
        preview = self.fl.expand_nodes([c.copy() for c in g.subs if c.kw in DATA_KW])
        cands = list(walk(preview))
        rng.shuffle(cands)
        if rng.random() < 0.7:
            cands.sort(key=lambda x: 0 if (x[1].kw in ("leaf-list", "list") and int(x[1].val("min-elements", "0")) > 0) else
                       1 if x[1].kw in ("leaf-list", "list") else 2)
        done = set()
        for path, t, is_key, state, in_choice in cands[:rng.choice([1, 2, 3, 4, 5])]:
            rf = self.refine(path, t, is_key, state, mod, no_mand=bool(in_choice) or mod != "fa")
            if rf is not None and path not in done:
                done.add(path)
                u.add(rf)
        # refine again what a uses nested in the grouping already refined (same property, other value), next to
        # refines of its siblings, in a random statement order
        again = [c for c in cands if getattr(c[1], "refined", None) and c[0] not in done]
        for path, t, is_key, state, in_choice in again[:2]:
            if rng.random() < 0.7:
                for _ in range(8):
                    rf = self.refine(path, t, is_key, state, mod, no_mand=bool(in_choice) or mod != "fa")
                    if rf is not None and {x.kw for x in rf.subs} & t.refined:
                        done.add(path)
                        u.add(rf)
                        break
        rng.shuffle(u.subs)
        conts = [(p, t) for p, t, k, st, ic in cands if t.kw in ("container", "list") and p not in done]
        if conts and rng.random() < 0.4:
            p, t = rng.choice(conts)
            ag = S("augment", p)
            if rng.random() < 0.3:
                ag.add(S("if-feature", iff_text(iff_gen(rng), pre)))
            ag.add(self.leaf(mod, allow_mand=(mod == "fa")))
            if rng.random() < 0.4:
                ag.add(self.leaflist(mod, allow_mand=False))
            u.add(ag)
        if rng.random() < 0.3:
            u.add(S("if-feature", iff_text(iff_gen(rng), pre)))
        if scope_top and rng.random() < 0.3:
            u.add(S("when", "%smode = '%s'" % (pre, rng.choice(["x", "y"]))))
        return u.stamp(mod)

    def refine(self, path, t, is_key, state, mod, no_mand=False):
        """no_mand: no refine that makes the node mandatory (foreign augment, inside a choice)"""
        rng = self.rng
        pre = "" if mod == "fa" else "a:"
        mod = "fb" if no_mand else "fa"
        rf = S("refine", path)
        opts = []
        if t.kw == "leaf" and not is_key:
            eff, dflt, units = self.fl.type_eff(t.find("type"))
            if t.val("mandatory") != "true":
                opts.append(lambda: rf.add(S("default", pick_value(rng, eff))))
            if t.find("default") is None and mod == "fa" and t.find("mandatory") is None:
                opts.append(lambda: rf.add(S("mandatory", "true")))
            if not state:
                opts.append(lambda: rf.add(S("config", "false")))
            opts.append(lambda: rf.add(S("if-feature", iff_text(iff_gen(rng), pre))))
        elif t.kw == "leaf-list":
            eff, dflt, units = self.fl.type_eff(t.find("type"))
            mn, mx = int(t.val("min-elements", "0")), t.val("max-elements")

            def minmax():
                if mn > 0 and rng.random() < 0.7:
                    # change a min-elements that is already there (up or down)
                    nm_ = rng.choice([mn + 1, mn - 1])
                    rf.add(S("min-elements", str(nm_)))
                    if mx is not None and int(mx) < nm_:
                        rf.add(S("max-elements", str(nm_ + 1)))
                elif not t.findall("default") and mod == "fa" and rng.random() < 0.5 and (dflt is None or eff.accepts(dflt)):
                    rf.add(S("min-elements", str(rng.choice([1, 2]))))
                    rf.add(S("max-elements", str(rng.choice([2, 3, 5]))))
                else:
                    rf.add(S("max-elements", str(max(mn, 1, len(t.findall("default"))) + rng.choice([0, 1, 3]))))
            opts.append(minmax)
            if mn == 0 and eff.builtin != "boolean":
                def dflts():
                    vals = []
                    for _ in range(rng.choice([1, 2])):
                        v = pick_value(rng, eff)
                        if canon_key(eff, v) not in [canon_key(eff, x) for x in vals]:
                            vals.append(v)
                    if mx is None or len(vals) <= int(mx):
                        for v in vals:
                            rf.add(S("default", v))
                    else:
                        rf.add(S("default", vals[0]))
                opts.append(dflts)
            opts.append(lambda: rf.add(S("if-feature", iff_text(iff_gen(rng), pre))))
        elif t.kw == "container":
            if t.find("presence") is None:
                opts.append(lambda: rf.add(S("presence", "refined")))
            if not state:
                opts.append(lambda: rf.add(S("config", "false")))
            opts.append(lambda: rf.add(S("if-feature", iff_text(iff_gen(rng), pre))))
        elif t.kw == "list":
            mn = int(t.val("min-elements", "0"))
            opts.append(lambda: rf.add(S("max-elements", str(max(mn, 1) + rng.choice([0, 1, 2])))))
            if mod == "fa":
                opts.append(lambda: (rf.add(S("min-elements", "1")), rf.add(S("max-elements", "4"))))
        elif t.kw == "choice":
            if t.find("default") is None and t.find("mandatory") is None and mod == "fa":
                opts.append(lambda: rf.add(S("mandatory", "true")))
            if t.val("mandatory") != "true" and t.find("default") is None:
                cs = [c for c in t.subs if c.kw in DATA_KW and not c.find("if-feature") and not has_mandatory(c)
                      and not (c.kw != "case" and c.find("when"))]
                if cs:
                    opts.append(lambda: rf.add(S("default", rng.choice(cs).arg)))
        elif t.kw == "case":
            pass
        if not opts:
            return None
        rng.choice(opts)()
        return rf if rf.subs else None

    def build(self):
        rng = self.rng
        fa = S("module", "fa").add(S("yang-version", "1.1"), S("namespace", "urn:fa"), S("prefix", "a"),
                                   S("include", "fa-sub"))
        sub = S("submodule", "fa-sub").add(S("yang-version", "1.1"), S("belongs-to", "fa").add(S("prefix", "a")))
        for f in FEATS:
            (fa if f != "f3" else sub).add(S("feature", f))
        self.fl = Flattener({"fa": fa, "fa-sub": sub})
        self.fl.prefix["fb"] = {"b": "fb", "a": "fa"}
        self.fl.prefix["fd"] = {"d": "fd", "a": "fa"}
        # typedefs: some families live in the submodule
        fams = [("int", fa), ("int", rng.choice([fa, sub])), ("dec", fa), ("str", rng.choice([fa, sub])), ("enum", fa),
                ("bool", sub)]
        for kind, where in fams:
            for td in self.typedef_family(kind):
                where.add(td)
        ints = [n for n in self.tds if n.startswith("ti")]
        enums = [n for n in self.tds if n.startswith("te")]
        un = S("typedef", self.nm("tu")).add(S("type", "union").add(S("type", rng.choice(ints)), S("type", rng.choice(enums))))
        fa.add(un)
        self.register(un)
        # groupings
        g1 = S("grouping", "g1")
        g1.subs += self.children("fa", 1, rng.choice([2, 3]))
        g1.add(self.container("fa", 1), self.choice("fa"))
        g3 = S("grouping", "g3").add(self.leaf("fa", allow_mand=False), S("container", self.nm("c")).add(self.leaf("fa", allow_mand=False)))
        for g in (g1, g3):
            g.stamp("fa")
            self.fl.groupings["fa"][g.arg] = g
        g2 = S("grouping", "g2")
        g2.subs += self.children("fa", 1, rng.choice([1, 2]))
        g2.add(self.uses("g1", "fa"))
        g2.stamp("fa")
        self.fl.groupings["fa"]["g2"] = g2
        fa.add(g1, g3)
        sub.add(g2)
        self.top_grouping = "g2"
        if rng.random() < 0.4:
            g2x = S("grouping", "g2x")
            g2x.subs += self.children("fa", 0, rng.choice([0, 1]))
            g2x.add(self.uses("g2", "fa"))
            g2x.stamp("fa")
            self.fl.groupings["fa"]["g2x"] = g2x
            fa.add(g2x)
            self.top_grouping = "g2x"
        # data
        top = S("container", "top")
        top.add(S("leaf", "mode").add(S("type", "enumeration").add(S("enum", "x"), S("enum", "y")), S("default", "x")))
        top.subs += self.children("fa", 2, rng.choice([1, 2, 3]))
        top.add(self.uses(self.top_grouping, "fa", scope_top=True))
        li = self.lst("fa", 1)
        li.add(self.uses("g3", "fa"))
        top.add(li)
        top.add(self.choice("fa"))
        fa.add(top.stamp("fa"))
        if rng.random() < 0.7:
            st = S("container", "st").add(S("config", "false"))
            st.subs += self.children("fa", 1, rng.choice([1, 2]))
            if rng.random() < 0.5:
                st.add(self.uses("g3", "fa"))
            (fa if rng.random() < 0.5 else sub).add(st.stamp("fa"))
        sub.add(self.container("fa", 1).stamp("fa"))
        # own augments (targets from a preview of the expanded tree)
        pre = Flattener({"fa": fa, "fa-sub": sub})
        pre.flatten_module("fa")
        targets = [(p, n, st) for p, n, k, st, ic in walk(pre.top) if n.kw in ("container", "list", "choice") and
                   p.split("/")[0] == "top"]
        rng.shuffle(targets)
        for p, n, st in targets[:rng.choice([1, 2, 3])]:
            ag = S("augment", "/" + "/".join("a:" + s for s in p.split("/")))
            if rng.random() < 0.4:
                ag.add(S("if-feature", iff_text(iff_gen(rng))))
            if p == "top" and rng.random() < 0.5:
                ag.add(S("when", "mode = '%s'" % rng.choice(["x", "y"])))
            if n.kw == "choice":
                cs = S("case", self.nm("cs")).add(self.leaf("fa", allow_mand=False))
                ag.add(cs)
                if rng.random() < 0.5:
                    ag.add(self.leaf("fa", allow_mand=False, iff=False))
            else:
                ag.subs += self.children("fa", 1, rng.choice([1, 2]), allow_mand=not ag.find("when"))
            (fa if rng.random() < 0.6 else sub).add(ag.stamp("fa"))
        self.fa, self.sub = fa, sub
        # ---- fb: augments of fa ----
        pre = Flattener({"fa": fa, "fa-sub": sub})
        pre.flatten_module("fa")
        nodes = list(walk(pre.top))
        fb = S("module", "fb").add(S("yang-version", "1.1"), S("namespace", "urn:fb"), S("prefix", "b"),
                                   S("import", "fa").add(S("prefix", "a")))
        a1 = S("augment", "/a:top")
        if rng.random() < 0.5:
            a1.add(S("if-feature", iff_text(iff_gen(rng), "a:")))
        if rng.random() < 0.5:
            a1.add(S("when", "a:mode = '%s'" % rng.choice(["x", "y"])))
        a1.add(self.uses("g3", "fb"))
        a1.subs += self.children("fb", 1, rng.choice([1, 2]), allow_mand=False)
        fb.add(a1)
        chs = [p for p, n, k, st, ic in nodes if n.kw == "choice" and p.count("/") == 1 and p.startswith("top/")]
        if chs:
            a2 = S("augment", "/" + "/".join("a:" + s for s in rng.choice(chs).split("/")))
            if rng.random() < 0.3:
                a2.add(S("if-feature", iff_text(iff_gen(rng), "a:")))
            a2.add(S("case", self.nm("cs")).add(self.leaf("fb", allow_mand=False), self.leaf("fb", allow_mand=False)))
            a2.add(self.leaf("fb", allow_mand=False, iff=False))
            fb.add(a2)
        cts = [p for p, n, k, st, ic in nodes if n.kw == "container" and p.startswith("top/") and not ic]
        self.fb_targets = ["top"]
        if cts:
            p = rng.choice(cts)
            self.fb_targets.append(p)
            a3 = S("augment", "/" + "/".join("a:" + s for s in p.split("/")))
            if rng.random() < 0.3:
                a3.add(S("if-feature", iff_text(iff_gen(rng), "a:")))
            a3.subs += self.children("fb", 1, rng.choice([1, 2]), allow_mand=False)
            fb.add(a3)
        self.fb = fb.stamp("fb")
        # ---- fc: imports fa for a typedef only ----
        self.fc = S("module", "fc").add(S("yang-version", "1.1"), S("namespace", "urn:fc"), S("prefix", "c"),
                                       S("import", "fa").add(S("prefix", "a")),
                                       S("leaf", "fcl").add(S("type", "a:" + rng.choice(self.tds)))).stamp("fc")
        # ---- fd: deviations of fa ----
        fd = S("module", "fd").add(S("yang-version", "1.1"), S("namespace", "urn:fd"), S("prefix", "d"),
                                   S("import", "fa").add(S("prefix", "a")))
        cand = [x for x in nodes if x[0] != "top" and x[0] != "top/mode"]
        rng.shuffle(cand)
        # the rarer shapes first now and then: a leaf-list with several default values (deviate delete of one of them)
        if rng.random() < 0.85:
            cand.sort(key=lambda x: 0 if (x[1].kw == "leaf-list" and len([d for d in x[1].findall("default")
                                                                              if not getattr(d, "inherited", False)]) >= 2) else 1)
        used = []
        for p, n, is_key, state, ic in cand:
            if len(used) >= rng.choice([2, 3, 4, 5]):
                break
            if any(p == u or p.startswith(u + "/") or u.startswith(p + "/") for u in used):
                continue
            dv = self.deviation(p, n, is_key, state, ic)
            if dv is not None:
                used.append(p)
                fd.add(dv)
        self.fd = fd.stamp("fd")
        mods = {"fa": fa, "fa-sub": sub, "fb": self.fb, "fc": self.fc, "fd": self.fd}
        # statements living in a submodule resolve their prefixes in the submodule's OWN imports: part of the augments of
        # fb / the deviations of fd move into a submodule that imports fa under a prefix the module does not define, or
        # uses for another import
        for mname, kw in (("fb", "augment"), ("fd", "deviation")):
            if rng.random() < 0.55:
                sm = self.to_submodule(mods[mname], mname + "-sub", kw)
                if sm is not None:
                    mods[mname + "-sub"] = sm
        return mods

    def to_submodule(self, mod, subname, kw):
        rng = self.rng
        cand = [s for s in mod.subs if s.kw == kw]
        if not cand:
            return None
        pick = cand if rng.random() < 0.5 else rng.sample(cand, max(1, len(cand) // 2))
        newp = rng.choice(["t", "t", "a2", "c"])
        for s in pick:
            mod.subs.remove(s)
            reprefix(s, "a", newp)
        sm = S("submodule", subname).add(S("yang-version", "1.1"), S("belongs-to", mod.arg).add(S("prefix", mod.val("prefix"))),
                                         S("import", "fa").add(S("prefix", newp)))
        sm.subs += pick
        scheme = rng.choice(["absent", "clash", "clash"])
        last = max(i for i, x in enumerate(mod.subs) if x.kw in ("prefix", "import"))
        if scheme == "clash":
            # the module uses the same prefix string for another module
            mod.subs.insert(last + 1, S("import", "fc").add(S("prefix", newp)))
            last += 1
        mod.subs.insert(last + 1, S("include", subname))
        if not [x for x in mod.subs if x.kw == kw] and rng.random() < 0.4:
            mod.subs = [x for x in mod.subs if not (x.kw == "import" and x.arg == "fa")]      # fa is imported by the submodule only
        sm.stamp(mod.arg)
        mod.stamp(mod.arg)
        return sm

    def deviation(self, p, n, is_key, state, in_choice):
        rng = self.rng
        dev = S("deviation", "/" + "/".join("a:" + s for s in p.split("/")))
        expl = lambda kw: [s for s in n.findall(kw) if not getattr(s, "inherited", False)]      # noqa: E731
        opts = []
        augmented = any(p == t or t.startswith(p + "/") for t in self.fb_targets)
        if n.kw in ("leaf", "leaf-list") and not is_key and not in_choice:
            opts.append(lambda: dev.add(S("deviate", "not-supported")))
        if n.kw == "container" and not in_choice and not augmented:
            opts.append(lambda: dev.add(S("deviate", "not-supported")))
        if n.kw == "leaf" and not is_key:
            eff = n.eff
            mand = n.val("mandatory") == "true"
            if not expl("default") and not mand:
                opts.append(lambda: dev.add(S("deviate", "add").add(S("default", pick_value(rng, eff)))))
            if expl("default"):
                opts.append(lambda: dev.add(S("deviate", "replace").add(S("default", pick_value(rng, eff)))))
                if n.type_dflt is None or eff.accepts(n.type_dflt):
                    opts.append(lambda: dev.add(S("deviate", "delete").add(S("default", expl("default")[0].arg))))
            if not expl("units"):
                opts.append(lambda: dev.add(S("deviate", "add").add(S("units", "dev"))))
            else:
                opts.append(lambda: dev.add(S("deviate", "replace").add(S("units", "dev2"))))
                opts.append(lambda: dev.add(S("deviate", "delete").add(S("units", expl("units")[0].arg))))
            if not n.findall("default") and n.find("mandatory") is None and not in_choice:
                opts.append(lambda: dev.add(S("deviate", "add").add(S("mandatory", "true"))))
            if n.find("mandatory") is not None and (n.type_dflt is None or eff.accepts(n.type_dflt)):
                # (without mandatory the default of the type applies: it has to fit the leaf's own restriction)
                opts.append(lambda: dev.add(S("deviate", "replace").add(S("mandatory", "false"))))
            if not expl("default"):
                def newtype():
                    b = rng.choice(["int16", "uint32", "string"])
                    t = S("type", b)
                    if b != "string":
                        t.add(self.restr_stmt(R.Ty(b), None))
                    else:
                        t.add(S("length", "1..5"))
                    dev.add(S("deviate", "replace").add(t))
                opts.append(newtype)
            if not state and n.find("config") is None:
                opts.append(lambda: dev.add(S("deviate", "add").add(S("config", "false"))))
        if n.kw == "leaf-list":
            eff = n.eff
            mn, mx = int(n.val("min-elements", "0")), n.val("max-elements")
            ds = expl("default")
            if len(ds) >= 2:
                opts.append(lambda: dev.add(S("deviate", "delete").add(S("default", rng.choice(ds).arg))))
                opts.append(lambda: dev.add(S("deviate", "delete").add(S("default", ds[0].arg))))
                if rng.random() < 0.7:
                    opts[:] = opts[-2:]
            if mn == 0 and eff.builtin != "boolean" and (mx is None or len(ds) < int(mx)):
                def add_d():
                    v = pick_value(rng, eff)
                    if canon_key(eff, v) not in [canon_key(eff, d.arg) for d in n.findall("default")]:
                        dev.add(S("deviate", "add").add(S("default", v)))
                opts.append(add_d)
            if mx is not None:
                opts.append(lambda: dev.add(S("deviate", "replace").add(S("max-elements", str(max(int(mx), mn, len(ds)) + 1)))))
            else:
                opts.append(lambda: dev.add(S("deviate", "add").add(S("max-elements", str(max(mn, len(ds), 1) + 2)))))
            if n.find("min-elements") is not None:
                opts.append(lambda: dev.add(S("deviate", "replace").add(S("min-elements", "0"))))
        if n.kw == "list":
            mn, mx = int(n.val("min-elements", "0")), n.val("max-elements")
            if mx is not None:
                opts.append(lambda: dev.add(S("deviate", "replace").add(S("max-elements", str(max(int(mx), mn) + 2)))))
            else:
                opts.append(lambda: dev.add(S("deviate", "add").add(S("max-elements", str(max(mn, 1) + 1)))))
        if n.kw == "container" and not state and n.find("config") is None:
            opts.append(lambda: dev.add(S("deviate", "add").add(S("config", "false"))))
        if n.kw == "choice" and n.find("default") is None and n.find("mandatory") is None:
            opts.append(lambda: dev.add(S("deviate", "add").add(S("mandatory", "true"))))
        if not opts:
            return None
        rng.choice(opts)()
        if len(dev.subs) == 1 and dev.subs[0].arg != "not-supported" and rng.random() < 0.25 and len(opts) > 1:
            first = dev.subs[0]
            rng.choice(opts)()
            if len(dev.subs) == 2:
                a, b = dev.subs
                # two deviates of one deviation must not touch the same property
                if b.arg == "not-supported" or {s.kw for s in a.subs} & {s.kw for s in b.subs} or \
                        {"default", "mandatory"} <= ({s.kw for s in a.subs} | {s.kw for s in b.subs}) or \
                        "type" in ({s.kw for s in a.subs} | {s.kw for s in b.subs}) or a.arg == b.arg:
                    dev.subs = [first]
        return dev if dev.subs else None


NODE_KW = ("container", "leaf", "leaf-list", "list", "choice", "case", "anydata", "anyxml")


def sort_aug_runs(text, names):
    """sort every maximal run of sibling nodes whose names are in [names] (children added by uses-augments)"""
    lines = text.split("\n")

    def block(i):
        """parse the statement starting at line i -> (list of lines or nested structure, next index)"""
        ln = lines[i]
        if not ln.rstrip().endswith("{"):
            return [ln], i + 1
        head, i = ln, i + 1
        kids = []
        while i < len(lines) and lines[i].strip() != "}":
            sub, i = block(i)
            kids.append(sub)
        close = lines[i] if i < len(lines) else ""
        # reorder runs
        out, run = [], []

        def nm(sub):
            w = sub[0].strip().split(" ")
            return w[1].strip('"') if len(w) > 2 and w[0] in NODE_KW and sub[0].rstrip().endswith("{") else None
        for sub in kids:
            if nm(sub) in names:
                run.append(sub)
            else:
                out += sorted(run, key=nm) + [sub]
                run = []
        out += sorted(run, key=nm)
        flat = [head]
        for sub in out:
            flat += sub
        flat.append(close)
        return flat, i + 1
    res, i = [], 0
    while i < len(lines):
        b, i = block(i)
        res += b
    return "\n".join(res)


def norm_print(text):
    """the only normalisation of the compiled prints: when statements are removed (the flattened twin has to write the
    condition of a uses / augment on every child, with the path re-rooted by one level; its MEANING is compared on the
    instance documents instead)"""
    out = []
    skip = 0
    for ln in text.split("\n"):
        if skip:
            skip += ln.count("{") - ln.count("}")
            continue
        if re.match(r'\s*when "', ln):
            if ln.rstrip().endswith("{"):
                skip = 1
            continue
        out.append(ln)
    return "\n".join(out)


# ------------------------------------------------------------------------------------------------
# the effective schema of the flattened set as a Python model (expected nodes, instance documents)
# ------------------------------------------------------------------------------------------------
NS = {"fa": "urn:fa", "fb": "urn:fb"}


class N:
    def __init__(self, kind, name, mod):
        self.kind, self.name, self.mod = kind, name, mod
        self.children = []
        self.iff = []
        self.when = None           # required value of /top/mode
        self.config = None
        self.presence = False
        self.mandatory = False
        self.min, self.max = 0, None
        self.defaults = []
        self.eff = None
        self.keys = []


def build_eff(stmts, mod, parent_kind=None):
    out = []
    for s in stmts:
        if s.kw not in DATA_KW:
            continue
        n = N(s.kw, s.arg, mod)
        n.iff = [iff_parse(x.arg) for x in s.findall("if-feature")]
        w = s.find("when")
        if w is not None:
            n.when = re.search(r"'([^']*)'", w.arg).group(1)
        n.config = False if s.val("config") == "false" else None
        n.presence = s.find("presence") is not None
        n.mandatory = s.val("mandatory") == "true"
        n.min = int(s.val("min-elements", "0"))
        n.max = int(s.val("max-elements")) if s.find("max-elements") is not None else None
        n.defaults = [d.arg for d in s.findall("default")]
        n.eff = getattr(s, "eff", None)
        n.keys = s.val("key", "").split() if s.kw == "list" else []
        n.children = build_eff(s.subs, mod, s.kw)
        if parent_kind == "choice" and s.kw != "case":
            cs = N("case", s.arg, mod)          # the implicit case of a shorthand node has no condition of its own
            cs.children = [n]
            n = cs
        out.append(n)
    return out


def eff_find(nodes, path):
    cur = None
    for seg in path.strip("/").split("/"):
        nm = seg.split(":")[-1]
        pool = nodes if cur is None else cur.children
        cur = next((c for c in pool if c.name == nm), None)
        if cur is None:
            return None
    return cur


def build_model(flat_fa, flat_fb):
    top = build_eff(flat_fa.subs, "fa")
    for ag in flat_fb.findall("augment"):
        t = eff_find(top, ag.arg)
        if t is None:
            continue                  # the target was removed by a deviation
        kids = build_eff(ag.subs, "fb", t.kind)
        for k in kids:
            k.iff += [iff_parse(x.arg) for x in ag.findall("if-feature")]
            w = ag.find("when")
            if w is not None:
                k.when = re.search(r"'([^']*)'", w.arg).group(1)
        t.children += kids
    return top


def exists(n, env):
    return all(iff_eval(e, env) for e in n.iff)


def expected_nodes(top, env):
    out = []

    def rec(nodes, prefix, state):
        for n in nodes:
            if not exists(n, env):
                continue
            st = state or n.config is False
            fl = "s" if st else "c"
            if (n.kind in ("leaf", "choice") and n.mandatory) or (n.kind in ("list", "leaf-list") and n.min > 0):
                fl += "m"
            if n.kind == "container" and n.presence:
                fl += "p"
            p = "%s/%s:%s" % (prefix, n.mod, n.name)
            out.append("%s=%s%s" % (p, n.kind, fl))
            rec(n.children, p, st)
    rec(top, "", False)
    return sorted(out)


class Inst:
    def __init__(self, schema, value=None, children=None):
        self.schema, self.value, self.children = schema, value, children if children is not None else []


class DocGen:
    def __init__(self, rng, top, env):
        self.rng, self.top, self.env = rng, top, env
        self.sure = True           # every constraint was satisfied by construction

    def value(self, n):
        return pick_value(self.rng, n.eff)

    def children(self, nodes, mode, depth=0):
        rng = self.rng
        out = []
        for n in nodes:
            if not exists(n, self.env) or (n.when is not None and n.when != mode):
                continue
            if n.kind == "leaf":
                if n.name == "mode" and depth == 1:
                    out.append(Inst(n, mode))
                elif n.mandatory or rng.random() < 0.55:
                    out.append(Inst(n, self.value(n)))
            elif n.kind == "leaf-list":
                cnt = n.min if rng.random() < 0.5 else n.min + rng.choice([0, 1, 2])
                if n.max is not None:
                    cnt = min(cnt, n.max)
                vals = []
                for _ in range(40):
                    if len(vals) >= cnt:
                        break
                    v = self.value(n)
                    if canon_key(n.eff, v) not in [canon_key(n.eff, x) for x in vals]:
                        vals.append(v)
                if len(vals) < n.min:
                    self.sure = False
                out += [Inst(n, v) for v in vals]
            elif n.kind == "container":
                kids = self.children(n.children, mode, depth + 1)
                if kids or (n.presence and rng.random() < 0.5):
                    out.append(Inst(n, children=kids))
                elif n.presence is False and not kids:
                    pass
            elif n.kind == "list":
                cnt = n.min if rng.random() < 0.5 else n.min + rng.choice([0, 1, 2])
                if n.max is not None:
                    cnt = min(cnt, n.max)
                seen = []
                for _ in range(40):
                    if len(seen) >= cnt:
                        break
                    keys = [c for c in n.children if c.name in n.keys]
                    keys.sort(key=lambda c: n.keys.index(c.name))
                    kv = [self.value(k) for k in keys]
                    ck = tuple(canon_key(k.eff, v) for k, v in zip(keys, kv))
                    if ck in [s_[0] for s_ in seen]:
                        continue
                    rest = self.children([c for c in n.children if c.name not in n.keys], mode, depth + 1)
                    seen.append((ck, Inst(n, children=[Inst(k, v) for k, v in zip(keys, kv)] + rest)))
                if len(seen) < n.min:
                    self.sure = False
                out += [i for _, i in seen]
            elif n.kind == "choice":
                cases = [c for c in n.children if exists(c, self.env) and (c.when is None or c.when == mode)]
                if cases and (n.mandatory or rng.random() < 0.6):
                    cs = rng.choice(cases)
                    kids = self.children(cs.children, mode, depth + 1)
                    if not kids and n.mandatory:
                        # force one node of some case
                        for cs in cases:
                            leaves = [c for c in cs.children if c.kind == "leaf" and exists(c, self.env) and
                                      (c.when is None or c.when == mode)]
                            if leaves:
                                kids = [Inst(leaves[0], self.value(leaves[0]))]
                                break
                        if not kids:
                            self.sure = False
                    out += kids
                elif n.mandatory:
                    self.sure = False
        return out

    def doc(self):
        mode = self.rng.choice(["x", "y"])
        self.mode = mode
        return self.children(self.top, mode)


def xml_of(insts, parent_mod=None):
    out = []
    for i in insts:
        s = i.schema
        a = "" if s.mod == parent_mod else ' xmlns="%s"' % NS[s.mod]
        if s.kind in ("leaf", "leaf-list"):
            v = i.value.replace("&", "&amp;").replace("<", "&lt;")
            out.append("<%s%s>%s</%s>" % (s.name, a, v, s.name))
        else:
            out.append("<%s%s>%s</%s>" % (s.name, a, xml_of(i.children, s.mod), s.name))
    return "".join(out)


def walk_inst(insts, parent=None):
    for i in insts:
        yield i, parent, insts
        yield from walk_inst(i.children, i)


def clone_inst(insts):
    return [Inst(i.schema, i.value, clone_inst(i.children)) for i in insts]


def mutations(rng, gen, doc):
    """single mutations that make a valid document invalid: (label, document)"""
    out = []
    env = gen.env

    def variant(fn):
        d = clone_inst(doc)
        items = list(walk_inst(d))
        rng.shuffle(items)
        for i, parent, sibs in items:
            lab = fn(i, parent, sibs, d)
            if lab:
                out.append((lab, d))
                return

    def bad(i, parent, sibs, d):
        if i.schema.kind in ("leaf", "leaf-list") and i.schema.name != "mode":
            v = bad_value(rng, i.schema.eff)
            if v is not None and not i.schema.eff.accepts(v):
                i.value = v
                return "bad-value"

    def drop_mand(i, parent, sibs, d):
        if i.schema.kind == "leaf" and i.schema.mandatory and not any(k == i.schema.name for k in getattr(parent.schema if parent else None, "keys", [])):
            sibs.remove(i)
            # (a non-presence container that becomes empty still requires the node)
            return "missing-mandatory"

    def too_many(i, parent, sibs, d):
        s = i.schema
        if s.kind == "leaf-list" and s.max is not None and s.max <= 4:
            have = [x for x in sibs if x.schema is s]
            vals = [x.value for x in have]
            for _ in range(60):
                if len(vals) > s.max:
                    break
                v = pick_value(rng, s.eff)
                if canon_key(s.eff, v) not in [canon_key(s.eff, x) for x in vals]:
                    vals.append(v)
            if len(vals) > s.max:
                pos = sibs.index(have[0])
                for x in have:
                    sibs.remove(x)
                sibs[pos:pos] = [Inst(s, v) for v in vals]
                return "too-many"

    def too_few(i, parent, sibs, d):
        s = i.schema
        if s.kind in ("leaf-list", "list") and s.min > 0:
            have = [x for x in sibs if x.schema is s]
            if len(have) == s.min:
                sibs.remove(have[-1])
                return "too-few"

    def disabled(i, parent, sibs, d):
        s = i.schema
        if s.kind in ("container", "list") or parent is None:
            pool = s.children if s.kind in ("container", "list") else []
            for c in pool:
                if c.kind == "leaf" and not exists(c, env):
                    i.children.append(Inst(c, pick_value(rng, c.eff)))
                    return "disabled-node"

    def when_false(i, parent, sibs, d):
        s = i.schema
        if s.kind == "container" and s.name == "top":
            for c in s.children:
                if c.kind in ("leaf", "leaf-list") and exists(c, env) and c.when is not None and c.when != gen.mode:
                    i.children.append(Inst(c, pick_value(rng, c.eff)))
                    return "when-false"

    def two_cases(i, parent, sibs, d):
        s = i.schema
        if s.kind in ("container", "list"):
            for ch in s.children:
                if ch.kind != "choice" or not exists(ch, env):
                    continue
                cases = [c for c in ch.children if exists(c, env) and (c.when is None or c.when == gen.mode)]
                leaves = []
                for c in cases:
                    ls = [x for x in c.children if x.kind == "leaf" and exists(x, env) and (x.when is None or x.when == gen.mode)]
                    if ls:
                        leaves.append(ls[0])
                if len(leaves) >= 2:
                    present = {x.schema for x in i.children}
                    i.children = [x for x in i.children if not any(x.schema in c.children for c in ch.children)]
                    i.children += [Inst(leaves[0], pick_value(rng, leaves[0].eff)), Inst(leaves[1], pick_value(rng, leaves[1].eff))]
                    return "two-cases"

    for fn in (bad, drop_mand, too_many, too_few, disabled, when_false, two_cases):
        variant(fn)
    return out


# ------------------------------------------------------------------------------------------------
# the oracles
# ------------------------------------------------------------------------------------------------
def make_sets(rng):
    """-> structured statements, flattened statements, Python model of the flattened set"""
    g = SetGen(rng)
    mods = g.build()
    devs = mods["fd"].findall("deviation") + (mods["fd-sub"].findall("deviation") if "fd-sub" in mods else [])
    fd_plain = S("module", "fd").add(*[s.copy() for s in mods["fd"].subs if s.kw in ("yang-version", "namespace", "prefix", "import")])
    fl = Flattener(mods)
    fl.dev_mismatch = False
    f0 = {"fa": fl.flatten_module("fa", devs), "fb": fl.flatten_module("fb"), "fd": fd_plain, "fc": fl.flatten_module("fc")}
    assert not fl.dev_mismatch, "generator: a deviate delete without a matching property"
    return mods, f0, (build_model(f0["fa"], f0["fb"]), getattr(fl, "uses_aug_names", set()))


def feats_arg(env):
    return ",".join(f for f in FEATS if env[f]) or "-"


def crashed(out):
    return out.startswith("CRASH(") or out == "TIMEOUT"


class FlattenEquiv:
    """C11 (search): a structured module set (typedef chains, groupings / nested uses / refine / uses-augment, own and
    foreign augments, submodule, deviations, if-feature, when) and its hand-flattened twin compile to the same schema
    under every feature assignment (compiled print of the main module, set of schema nodes vs the if-feature denotation
    computed in Python) and accept / reject the same instance documents with the same error class."""
    name = "flatten-equiv"
    driver = "t_flatten"
    kinds = None
    quick_sanitize = False
    timeout = 900

    def __init__(self):
        self.cases = {}
        self.skipped = 0

    def n(self, tier, quick, thorough, scale=1.0):
        return max(1, int((thorough if tier == "thorough" else quick) * scale))

    def build_case(self, rng, envs=None):
        mods, f0, (model, augnames) = make_sets(rng)
        cmds, meta = [], []

        def add(cmd, *m):
            cmds.append(cmd)
            meta.append(m)
        for k, v in mods.items():
            add("def s/%s %s" % (k, hexs(v.text())), "def", augnames)
        for k, v in f0.items():
            add("def f/%s %s" % (k, hexs(v.text())), "def")
        allenvs = [dict(zip(FEATS, bits)) for bits in itertools.product([False, True], repeat=3)]
        for ei, env in enumerate(envs or allenvs):
            fa = feats_arg(env)
            dg = DocGen(rng, model, env)
            docs = []
            for _ in range(2):
                d = dg.doc()
                docs.append(("valid" if dg.sure else "unsure", xml_of(d)))
                if dg.sure and len(docs) < 8:
                    for lab, md in mutations(rng, dg, d)[:rng.choice([2, 3, 7])]:
                        docs.append((lab, xml_of(md)))
                dg.sure = True
            exp = expected_nodes(model, env)
            for ci, (cset, ctag) in enumerate([("s", None), ("f", None)]):
                c = "c%d" % ci
                add("ctx %s 0 %s" % (c, cset), "ctx")
                add("load %s fa %s" % (c, fa), "load", ei, cset)
                add("load %s fb -" % c, "load", ei, cset)
                add("load %s fd -" % c, "load", ei, cset)
                add("schema %s fa" % c, "schema", ei, cset, ctag)
                if ctag is None:
                    add("snodes %s fa" % c, "snodes", ei, cset, exp)
                    for lab, x in docs:
                        add("data %s x %s" % (c, hexs(x)), "data", ei, cset, lab, x)
        line = "flat\t" + "\t".join(cmds)
        self.cases[line] = meta
        return line

    def gen(self, rng, tier, scale=1.0):
        return [self.build_case(rng) for _ in range(self.n(tier, 80, 900, scale))]

    def judge(self, line, out):
        if crashed(out):
            return (None, "crash: " + out)
        meta = self.cases.get(line)
        if meta is None:
            return None
        r = out.split(" | ")
        if len(r) != len(meta):
            return (None, "protocol: %d results for %d commands" % (len(r), len(meta)))
        by = {}
        for m, x in zip(meta, r):
            if m[0] in ("load", "schema", "snodes", "data"):
                by.setdefault((m[1], m[2]), []).append((m, x))
        envs = sorted({k[0] for k in by})
        judged = False
        for ei in envs:
            S_, F_ = by[(ei, "s")], by[(ei, "f")]
            ls = [x for m, x in S_ if m[0] == "load"]
            lf = [x for m, x in F_ if m[0] == "load"]
            oks, okf = all(x == "0" for x in ls), all(x == "0" for x in lf)
            if not oks and not okf:
                continue                      # both reject the generated set: not a case for this oracle
            if oks != okf:
                return (None, "features %d: the structured set %s, the flattened twin %s: %s / %s" %
                        (ei, "loads" if oks else "is rejected", "loads" if okf else "is rejected", ls, lf))
            judged = True
            augnames = meta[0][1] if len(meta[0]) > 1 else set()
            ps = sort_aug_runs(norm_print(unhex(next(x for m, x in S_ if m[0] == "schema").split(" ")[1]).decode()), augnames)
            pf = sort_aug_runs(norm_print(unhex(next(x for m, x in F_ if m[0] == "schema").split(" ")[1]).decode()), augnames)
            if ps != pf:
                import difflib
                d = "".join(list(difflib.unified_diff(ps.splitlines(1), pf.splitlines(1), "structured", "flattened", n=2))[:40])
                return (None, "features %d: compiled prints of fa differ:\n%s" % (ei, d))
            ms, ns = next((m, x) for m, x in S_ if m[0] == "snodes")
            mf, nf = next((m, x) for m, x in F_ if m[0] == "snodes")
            exp = ms[3]
            gs = sorted(x for x in ns.rstrip(".").split(";") if x)
            gf = sorted(x for x in nf.rstrip(".").split(";") if x)
            if gs != gf or gs != exp:
                return (None, "features %d: schema nodes: only structured %s, only flattened %s, only expected %s, missing "
                            "from structured %s" % (ei, [x for x in gs if x not in gf][:6], [x for x in gf if x not in gs][:6],
                                                    [x for x in exp if x not in gs][:6], [x for x in gs if x not in exp][:6]))
            ds = [(m, x) for m, x in S_ if m[0] == "data"]
            df = [(m, x) for m, x in F_ if m[0] == "data"]
            for (m, xs), (_, xf) in zip(ds, df):
                lab, doc = m[3], m[4]
                vs, vf = xs.split("~")[0].split(" ")[0], xf.split("~")[0].split(" ")[0]
                if vs == "0" and vf == "0" and xs != xf:
                    # the same content? (the order of siblings follows the schema order, see sort_aug_runs)
                    import json as _json
                    try:
                        same = _json.loads(unhex(xs.split(" ")[1]).decode()) == _json.loads(unhex(xf.split(" ")[1]).decode())
                    except (ValueError, IndexError):
                        same = False
                    if same:
                        xf = xs
                if vs != vf or (vs == "0" and xs != xf):
                    return (None, "features %d: document (%s) %s: structured %s, flattened %s" % (ei, lab, doc[:300], xs[:120], xf[:120]))
                if lab == "valid" and vs != "0":
                    return (None, "features %d: a document valid by construction is rejected by both: %s -> %s" % (ei, doc[:400], xs[:160]))
                if lab not in ("valid", "unsure") and vs == "0":
                    return (None, "features %d: a document with the mutation %s is accepted by both: %s" % (ei, lab, doc[:400]))
        if not judged:
            self.skipped += 1
        return None


class LoadOrder(FlattenEquiv):
    """C11 (search): the compiled schema does not depend on the order in which the modules of the structured set were
    loaded (every order of fa, fb, fd; fc before or after), on whether the main module was implemented at once or later
    (imported by fc first, then lys_set_implemented), on parsing from text instead of loading by name, nor on
    LY_CTX_EXPLICIT_COMPILE + ly_ctx_compile: compiled prints of all four modules and the schema node set of fa."""
    name = "load-order"

    def build_case(self, rng):
        mods, f0, (model, augnames) = make_sets(rng)
        env = {f: rng.random() < 0.6 for f in FEATS}
        fa = feats_arg(env)
        cmds, meta = [], []

        def add(cmd, *m):
            cmds.append(cmd)
            meta.append(m)
        for k, v in mods.items():
            add("def s/%s %s" % (k, hexs(v.text())), "def")

        def observe(c, vi):
            for mname in ("fa", "fb", "fc", "fd"):
                add("schema %s %s" % (c, mname), "schema", vi, mname)
            add("snodes %s fa" % c, "snodes", vi)
        variants = []
        for perm in itertools.permutations(["fa", "fb", "fd"]):
            pos = rng.randrange(4)
            order = list(perm)
            order.insert(pos, "fc")
            variants.append(("load " + " ".join(order), [("load", m) for m in order], 0))
        variants.append(("fc first, then lys_set_implemented(fa)", [("load", "fc"), ("setimpl", "fa"), ("load", "fb"), ("load", "fd")], 0))
        variants.append(("fb first (fa implemented as augment target), then features by lys_set_implemented",
                         [("load", "fb"), ("setimpl", "fa"), ("load", "fd"), ("load", "fc")], 0))
        variants.append(("explicit compile", [("load", "fa"), ("load", "fb"), ("load", "fc"), ("load", "fd"), ("compile", None)], 0x80))
        order = ["fa", "fb", "fc", "fd"]
        rng.shuffle(order)
        variants.append(("explicit compile, " + " ".join(order), [("load", m) for m in order] + [("compile", None)], 0x80))
        variants.append(("parsed from text", [("modtxt", "fa"), ("modtxt", "fb"), ("modtxt", "fd"), ("modtxt", "fc")], 0))
        for vi, (what, steps, opts) in enumerate(variants):
            c = "c%d" % (vi % 8)
            add("ctx %s %d s" % (c, opts), "ctx", vi, what)
            for op, m in steps:
                if op == "compile":
                    add("compile %s" % c, "step", vi)
                else:
                    add("%s %s %s %s" % (op, c, m, fa if m == "fa" else "-"), "step", vi)
            observe(c, vi)
        line = "flat\t" + "\t".join(cmds)
        self.cases[line] = meta
        return line

    def gen(self, rng, tier, scale=1.0):
        return [self.build_case(rng) for _ in range(self.n(tier, 30, 600, scale))]

    def judge(self, line, out):
        if crashed(out):
            return (None, "crash: " + out)
        meta = self.cases.get(line)
        if meta is None:
            return None
        r = out.split(" | ")
        if len(r) != len(meta):
            return (None, "protocol: %d results for %d commands" % (len(r), len(meta)))
        var = {}
        for m, x in zip(meta, r):
            if m[0] == "def":
                continue
            v = var.setdefault(m[1], {"what": "", "steps": [], "obs": []})
            if m[0] == "ctx":
                v["what"] = m[2]
            elif m[0] == "step":
                v["steps"].append(x)
            else:
                v["obs"].append((m, x))
        base = var[0]
        if not all(s.split("/")[0] == "0" for s in base["steps"]):
            self.skipped += 1
            return None
        for vi in sorted(var):
            v = var[vi]
            if not all(s.split("/")[0] == "0" for s in v["steps"]):
                return (None, "%s: a step fails (%s) although the first order loads" % (v["what"], v["steps"]))
            for (m, x), (_, x0) in zip(v["obs"], base["obs"]):
                if x != x0:
                    what = "compiled print of " + m[2] if m[0] == "schema" else "schema nodes of fa"
                    a = unhex(x0.split(" ")[1]).decode() if m[0] == "schema" and " " in x0 else x0
                    b = unhex(x.split(" ")[1]).decode() if m[0] == "schema" and " " in x else x
                    import difflib
                    d = "".join(list(difflib.unified_diff(a.splitlines(1), b.splitlines(1), base["what"], v["what"], n=2))[:40])
                    return (None, "%s: %s differs from the first order:\n%s" % (v["what"], what, d[:1500]))
        return None


# ------------------------------------------------------------------------------------------------
# history independence
# ------------------------------------------------------------------------------------------------
class Family:
    """a module family with dependency chains THROUGH modules without data nodes:
      ha  features f1 f2 (f3), identity base-id, typedef ta, container ac           (imports nothing)
      hc  container cc                                                               (imports ht only, if present)
      hb  NO data nodes: imports ha, hc (hf, hi): augments of /hc:cc with if-feature / when / leafref / identityref /
          default that refer to ha (hf, hi)
      hg  grouping-only (imports ha), used by the data module he (which imports hg only)
      hi  identity-only (imports ha): identities derived from a:base-id, one with if-feature a:f2
      hf  feature-only: feature g1 (used by hb)
      hd  deviation-only (imports hc, ha): replaces the type of /hc:cc/hc:cl by a typedef of ha, adds a default
      ht  typedef-only, imported by hc"""

    def __init__(self, rng):
        self.rng = rng
        opt = {k: rng.random() < p for k, p in (("hg", 0.6), ("hi", 0.5), ("hf", 0.5), ("hd", 0.4), ("ht", 0.4))}
        self.opt = opt
        self.feat_mods = {"ha": ["f1", "f2"] + (["f3"] if rng.random() < 0.4 else [])}
        if opt["hf"]:
            self.feat_mods["hf"] = ["g1"]
        self.i2_iff = rng.choice(self.qfeat()) if rng.random() < 0.5 else "ha:f2"        # if-feature of identity hi:i2
        self.probes = []        # (schema path, if-feature AST over qualified feature names) for the Python expectation
        self.texts = {}
        self.docs = []          # (label, xml, condition AST or None = only compared between histories)
        self.before = []        # (m1, m2): m1 has to be implemented before m2 is loaded
        self.build()

    def qfeat(self):
        return [m + ":" + f for m, fs in self.feat_mods.items() for f in fs]

    def iff(self, depth=1):
        rng = self.rng
        fs = self.qfeat()
        r = rng.random()
        if depth == 0 or r < 0.5:
            return rng.choice(fs)
        if r < 0.65:
            return ("not", self.iff(depth - 1))
        return (rng.choice(["and", "or"]), self.iff(depth - 1), self.iff(depth - 1))

    @staticmethod
    def iff_txt(e, pmap, top=True):
        if isinstance(e, str):
            m, f = e.split(":")
            return (pmap[m] + ":" if pmap[m] else "") + f
        if e[0] == "not":
            return "not " + Family.iff_txt(e[1], pmap, False)
        t = "%s %s %s" % (Family.iff_txt(e[1], pmap, False), e[0], Family.iff_txt(e[2], pmap, False))
        return t if top else "(" + t + ")"

    def build(self):
        rng, opt = self.rng, self.opt
        T = self.texts
        ha = "module ha {yang-version 1.1; namespace urn:ha; prefix a;\n"
        for f in self.feat_mods["ha"]:
            ha += "  feature %s;\n" % f
        ha += "  identity base-id; identity id0 {base base-id;}\n  typedef ta {type int8 {range \"1..20\";}}\n"
        ha += "  typedef tae {type enumeration {enum d1; enum d2 {if-feature f1;}}}\n"
        af = self.iff(0) if rng.random() < 0.5 else None
        ha += "  container ac {leaf al {type string;} leaf-list am {type ta;}"
        if af and af.startswith("ha:"):
            ha += " leaf af {if-feature %s; type string;}" % af.split(":")[1]
            self.probes.append(("/ha:ac/ha:af", af))
        ha += "}\n}\n"
        T["ha"] = ha
        self.ht_dep = None
        if opt["ht"]:
            ht = "module ht {yang-version 1.1; namespace urn:ht; prefix t;\n"
            if rng.random() < 0.6:
                # the typedef-only module itself depends on ha: an enum under if-feature (hc -> ht -> ha)
                self.ht_dep = rng.choice(["ha:f1", "ha:f2"])
                ht += "  import ha {prefix a;}\n  typedef te {type enumeration {enum e1; enum e2 {if-feature a:%s;}}}\n" % self.ht_dep.split(":")[1]
            ht += "  typedef tt {type string {length \"1..8\";}}\n}\n"
            T["ht"] = ht
        hc = "module hc {yang-version 1.1; namespace urn:hc; prefix c;\n"
        if opt["ht"]:
            hc += "  import ht {prefix t;}\n"
        hc += "  container cc {leaf cl {type %s;} list cli {key k; leaf k {type string;}}\n" % ("t:tt" if opt["ht"] else "string")
        if self.ht_dep:
            hc += "    leaf ce {type t:te;}\n"
            self.docs.append(("enum-of-typedef-module", '<cc xmlns="urn:hc"><ce>e2</ce></cc>', self.ht_dep))
            self.docs.append(("enum-e1", '<cc xmlns="urn:hc"><ce>e1</ce></cc>', None))
        hc += "    choice cch {case c1 {leaf c1l {type string;}}}\n  }\n}\n"
        T["hc"] = hc
        # hb: no data nodes of its own (now and then absent: then nothing but the chains below connects the modules)
        keep = (list(self.probes), list(self.docs), list(self.before))
        pm = {"ha": "a", "hf": "f"}
        hb = "module hb {yang-version 1.1; namespace urn:hb; prefix b;\n  import ha {prefix a;}\n  import hc {prefix c;}\n"
        if opt["hf"]:
            hb += "  import hf {prefix f;}\n"
        if opt["hi"]:
            hb += "  import hi {prefix i;}\n"
        ex = self.iff(rng.choice([0, 1, 1, 2]))
        aug_iff = self.iff(0) if rng.random() < 0.3 else None
        hb += "  augment /c:cc {\n"
        if aug_iff:
            hb += "    if-feature \"%s\";\n" % self.iff_txt(aug_iff, pm)

        def cond(e):
            return e if aug_iff is None else (("and", aug_iff, e) if e is not None else aug_iff)
        hb += "    leaf x {if-feature \"%s\"; type string;}\n    leaf y {type string;}\n" % self.iff_txt(ex, pm)
        self.probes.append(("/hc:cc/hb:x", cond(ex)))
        self.probes.append(("/hc:cc/hb:y", cond(None)))
        self.docs.append(("x", '<cc xmlns="urn:hc"><x xmlns="urn:hb">v</x></cc>', cond(ex)))
        if rng.random() < 0.7:
            el = self.iff(1) if rng.random() < 0.6 else None
            hb += "    leaf lr {%stype leafref {path \"/a:ac/a:al\";}}\n" % ("if-feature \"%s\"; " % self.iff_txt(el, pm) if el else "")
            self.probes.append(("/hc:cc/hb:lr", cond(el)))
            self.docs.append(("leafref", '<ac xmlns="urn:ha"><al>on</al></ac><cc xmlns="urn:hc"><lr xmlns="urn:hb">on</lr></cc>', cond(el)))
            self.docs.append(("leafref-dangling", '<ac xmlns="urn:ha"><al>on</al></ac><cc xmlns="urn:hc"><lr xmlns="urn:hb">off</lr></cc>', "never"))
        if rng.random() < 0.7:
            dfl = ""
            if rng.random() < 0.5:
                # libyang (without LY_CTX_REF_IMPLEMENTED) takes identities of implemented modules only, by design: the
                # module with the default has to be loaded after the module of the identity
                if opt["hi"] and rng.random() < 0.5:
                    dfl = " default i:i3;"
                    self.before += [("hi", "hb"), ("ha", "hb")]
                else:
                    dfl = " default a:id0;"
                    self.before.append(("ha", "hb"))
            hb += "    leaf idr {type identityref {base a:base-id;}%s}\n" % dfl
            self.probes.append(("/hc:cc/hb:idr", cond(None)))
            self.docs.append(("idref-id0", '<cc xmlns="urn:hc"><idr xmlns="urn:hb" xmlns:a="urn:ha">a:id0</idr></cc>', cond(None)))
            if opt["hi"]:
                self.docs.append(("idref-i2", '<cc xmlns="urn:hc"><idr xmlns="urn:hb" xmlns:i="urn:hi">i:i2</idr></cc>',
                                  ("and", cond(None), self.i2_iff) if cond(None) is not None else self.i2_iff))
                self.docs.append(("idref-i3", '<cc xmlns="urn:hc"><idr xmlns="urn:hb" xmlns:i="urn:hi">i:i3</idr></cc>', cond(None)))
        if rng.random() < 0.6:
            hb += "    leaf w {when \"/a:ac/a:al = 'on'\"; type string;}\n"
            self.docs.append(("when-true", '<ac xmlns="urn:ha"><al>on</al></ac><cc xmlns="urn:hc"><w xmlns="urn:hb">1</w></cc>', cond(None)))
            self.docs.append(("when-false", '<ac xmlns="urn:ha"><al>no</al></ac><cc xmlns="urn:hc"><w xmlns="urn:hb">1</w></cc>', "never"))
        hb += "  }\n"
        if rng.random() < 0.5:
            ez = self.iff(1)
            hb += "  augment /c:cc/c:cli {leaf z {if-feature \"%s\"; type a:ta;}}\n" % self.iff_txt(ez, pm)
            self.probes.append(("/hc:cc/hc:cli/hb:z", ez))
        if rng.random() < 0.4:
            ecs = self.iff(1)
            hb += "  augment /c:cc/c:cch {case c2 {if-feature \"%s\"; leaf c2l {type string;}}}\n" % self.iff_txt(ecs, pm)
            self.probes.append(("/hc:cc/hb:c2l", ecs))        # (a data path: choice and case are not named)
        hb += "}\n"
        if rng.random() < 0.75:
            if rng.random() < 0.3:
                # the imports and the augments live in a submodule, the module itself has nothing but the include
                body = hb.split("prefix b;\n", 1)[1]
                T["hb-sub"] = "submodule hb-sub {yang-version 1.1; belongs-to hb {prefix b;}\n" + body
                # (the module itself may use the submodule's prefix of ha for ANOTHER module: a name written in the
                # submodule is resolved with the submodule's own imports)
                clash = "  import hc {prefix a;}\n" if rng.random() < 0.5 else ""
                hb = "module hb {yang-version 1.1; namespace urn:hb; prefix b;\n%s  include hb-sub;\n}\n" % clash
            T["hb"] = hb
        else:
            self.probes, self.docs, self.before = keep
        if opt["hf"]:
            T["hf"] = "module hf {yang-version 1.1; namespace urn:hf; prefix f;\n  feature g1;\n}\n"
        if opt["hi"]:
            q = self.i2_iff
            T["hi"] = ("module hi {yang-version 1.1; namespace urn:hi; prefix i;\n  import ha {prefix a;}\n%s"
                       "  identity i2 {base a:base-id; if-feature %s;}\n  identity i3 {base a:base-id;}\n}\n" %
                       ("  import hf {prefix f;}\n" if q.startswith("hf:") else "", self.iff_txt(q, {"ha": "a", "hf": "f"})))
        if opt["hg"]:
            eg = self.iff(1)
            egq = eg
            pm2 = {"ha": "a", "hf": "f"}
            hg = "module hg {yang-version 1.1; namespace urn:hg; prefix g;\n  import ha {prefix a;}\n"
            uses_f = any(x.startswith("hf:") for x in re.findall(r"h[af]:\w+", repr(eg)))
            if uses_f:
                hg += "  import hf {prefix f;}\n"
            hg += "  grouping g {leaf gl {if-feature \"%s\"; type a:ta;} leaf gm {type leafref {path \"/a:ac/a:al\";}}\n" % self.iff_txt(eg, pm2)
            hg += "    leaf gi {type identityref {base a:base-id;}}}\n}\n"
            T["hg"] = hg
            T["he"] = ("module he {yang-version 1.1; namespace urn:he; prefix e;\n  import hg {prefix g;}\n"
                       "  container ec {uses g:g;}\n}\n")
            self.probes.append(("/he:ec/he:gl", egq))
            self.probes.append(("/he:ec/he:gm", None))
            self.docs.append(("grouping-leaf", '<ec xmlns="urn:he"><gl>5</gl></ec>', egq))
        if opt["hd"]:
            hd = "module hd {yang-version 1.1; namespace urn:hd; prefix d;\n  import hc {prefix c;}\n  import ha {prefix a;}\n"
            if rng.random() < 0.5:
                hd += "  deviation /c:cc/c:cl {deviate replace {type a:ta;} deviate add {default 7;}}\n}\n"
                self.docs.append(("deviated-type-ok", '<cc xmlns="urn:hc"><cl>5</cl></cc>', None))
                self.docs.append(("deviated-type-bad", '<cc xmlns="urn:hc"><cl>abc</cl></cc>', "never"))
            else:
                # the new type has an enum under a feature of ha: hc depends on ha only through the deviation-only module
                hd += "  deviation /c:cc/c:cl {deviate replace {type a:tae;}}\n}\n"
                self.docs.append(("deviated-enum-d1", '<cc xmlns="urn:hc"><cl>d1</cl></cc>', None))
                self.docs.append(("deviated-enum-d2", '<cc xmlns="urn:hc"><cl>d2</cl></cc>', "ha:f1"))
            T["hd"] = hd
        else:
            self.docs.append(("cl", '<cc xmlns="urn:hc"><cl>abc</cl></cc>', None))
        # a module that does not compile (leafref to a node that does not exist): loading it must leave no trace
        T["hx"] = ("module hx {yang-version 1.1; namespace urn:hx; prefix x;\n  import ha {prefix a;}\n  import hc {prefix c;}\n"
                   "  augment /c:cc {leaf bad {type leafref {path \"/a:ac/a:nosuch\";}}}\n  feature fx;\n}\n")
        self.loadable = [m for m in ("ha", "hc", "hf", "hi", "hg", "he", "hb", "hd") if m in T]     # ht only through import


def ev(e, env):
    if e is None:
        return True
    if e == "never":
        return False
    return iff_eval(e, env)


class HistoryIndep(FlattenEquiv):
    """C11 (search): the compiled schema is a function of the final set of implemented modules and the final feature
    states only. Module families with dependency chains through modules WITHOUT data nodes (augment-only, grouping-only,
    identity-only, feature-only, deviation-only, typedef-only) and if-feature / when / leafref / identityref / default
    references crossing modules are brought to one final state along different histories: every load order; features
    given at load time or changed afterwards with lys_set_implemented (on, off, on-then-off); LY_CTX_EXPLICIT_COMPILE
    with one or several ly_ctx_compile(); failed operations in between (unknown module, unknown feature, a module that
    does not compile). Compared with the reference history (and with the if-feature denotation computed in Python):
    module list with implemented flags and enabled features, LYS_OUT_YANG_COMPILED print of every module, the schema
    node sets, lys_find_path probes and the verdicts on instance documents."""
    name = "history-indep"

    def history(self, rng, fam, final, kind):
        """-> (description, context options, [commands without the context word])"""
        mods = list(fam.loadable)
        allf = {m: ",".join(fs) for m, fs in fam.feat_mods.items()}

        def farg(m, env):
            if m not in fam.feat_mods:
                return "-"
            return ",".join(f for f in fam.feat_mods[m] if env[m + ":" + f]) or "-"
        if kind == "reference":
            return ("reference: every module loaded once with its final features", 0, [("load", m, farg(m, final)) for m in mods])
        rng.shuffle(mods)
        if kind == "dataless-first":
            mods.sort(key=lambda m: 0 if m in ("hb", "hg", "hi", "hd") else 1)
        if kind == "features-last":
            mods.sort(key=lambda m: 1 if m in fam.feat_mods else 0)
        for _ in range(4):
            for m1, m2 in fam.before:
                if mods.index(m1) > mods.index(m2):
                    mods.remove(m1)
                    mods.insert(mods.index(m2), m1)
        opts = 0x80 if kind.startswith("explicit") or (kind == "random" and rng.random() < 0.3) else 0
        steps, later = [], []
        for m in mods:
            if m in fam.feat_mods:
                mode = rng.choice(["at-load", "later", "on-off", "off-on", "later"]) if kind not in ("order",) else "at-load"
                if kind == "set-after-all":
                    mode = rng.choice(["later", "on-off", "off-on"])
                other = {q: rng.random() < 0.5 for q in fam.qfeat()}
                if mode == "at-load":
                    steps.append(("load", m, farg(m, final)))
                elif mode == "later":
                    steps.append(("load", m, farg(m, other)))
                    later.append([("setimpl", m, farg(m, final))])
                elif mode == "on-off":
                    steps.append(("load", m, farg(m, final)))
                    later.append([("setimpl", m, allf[m]), ("setimpl", m, farg(m, final))])
                else:
                    steps.append(("load", m, farg(m, other)))
                    later.append([("setimpl", m, "-"), ("setimpl", m, farg(m, final))])
            else:
                steps.append((rng.choice(["load", "load", "modtxt"]), m, "-"))
        # the later feature changes: after all loads (the interesting place) or somewhere after the load of their module
        for grp in later:
            m = grp[0][1]
            first = next(i for i, s_ in enumerate(steps) if s_[1] == m and s_[0] in ("load", "modtxt")) + 1
            pos = len(steps) if (kind == "set-after-all" or rng.random() < 0.6) else rng.randrange(first, len(steps) + 1)
            for k, st in enumerate(grp):
                steps.insert(pos + k, st)
                if len(grp) > 1 and k == 0 and rng.random() < 0.5:
                    pos = len(steps) - 1 - k      # the second change at the very end
        if opts:
            for pos in sorted((rng.randrange(1, len(steps) + 1) for _ in range(rng.choice([0, 1, 2]))), reverse=True):
                steps.insert(pos, ("compile", None, None))
            steps.append(("compile", None, None))
            if rng.random() < 0.3:
                steps.append(("compile", None, None))
        if kind in ("failed-ops", "random"):
            for _ in range(rng.choice([1, 2, 3])):
                bad = rng.choice([("load!", "nosuch", "-"), ("setimpl!", "ha", "nofeature"), ("modtxt!", "hx", "fx"),
                                  ("setimpl!", "nosuch", "-"), ("load!", "ha", "f1,nofeature")])
                if opts and bad[1] == "hx":
                    continue          # (its failure would only show in the next ly_ctx_compile)
                if opts:
                    # with LY_CTX_EXPLICIT_COMPILE a failing call also reverts what earlier successful calls left pending
                    # (listed under C09: ctx-explicit-revert-pending); here a failing call only comes when nothing is pending
                    allowed = [0] + [i + 1 for i, s_ in enumerate(steps) if s_[0] == "compile"]
                    steps.insert(rng.choice(allowed), bad)
                else:
                    steps.insert(rng.randrange(len(steps) + 1), bad)
        return ("%s%s: %s" % (kind, " (explicit compile)" if opts else "",
                              " ; ".join("%s %s %s" % (a, b or "", c or "") for a, b, c in steps)), opts, steps)

    def build_case(self, rng):
        fam = Family(rng)
        final = {q: rng.random() < 0.5 for q in fam.qfeat()}
        cmds, meta = [], []

        def add(cmd, *m):
            cmds.append(cmd)
            meta.append(m)
        for k, v in fam.texts.items():
            add("def s/%s %s" % (k, hexs(v)), "def")
        kinds = ["reference", "order", "order", "set-after-all", "set-after-all", "dataless-first", "features-last",
                 "explicit", "explicit", "failed-ops", "random", "random", "random"]
        exp_nodes = {p: ev(e, final) for p, e in fam.probes}
        for hi_, kind in enumerate(kinds):
            what, opts, steps = self.history(rng, fam, final, kind)
            c = "c%d" % (hi_ % 8)
            add("ctx %s %d s" % (c, opts), "ctx", hi_, what)
            for op, m, f in steps:
                fail = op.endswith("!")
                op = op.rstrip("!")
                if op == "compile":
                    add("compile %s" % c, "step", hi_, False)
                else:
                    add("%s %s %s %s" % (op, c, m, f), "step", hi_, fail)
            add("mods %s" % c, "obs", hi_, "module list")
            for m in fam.loadable + (["ht"] if "ht" in fam.texts else []):
                add("schema %s %s" % (c, m), "obs", hi_, "compiled print of " + m)
            for m in ("ha", "hc", "he"):
                if m in fam.texts:
                    add("snodes %s %s" % (c, m), "obs", hi_, "schema nodes of " + m)
            for p, e in fam.probes:
                add("spath %s %s" % (c, hexs(p)), "probe", hi_, p, exp_nodes[p])
            for lab, x, e in fam.docs:
                add("data %s x %s" % (c, hexs(x)), "doc", hi_, lab, (None if e is None else ev(e, final)))
        line = "flat\t" + "\t".join(cmds)
        self.cases[line] = meta
        return line

    def gen(self, rng, tier, scale=1.0):
        return [self.build_case(rng) for _ in range(self.n(tier, 60, 1500, scale))]

    def judge(self, line, out):
        if crashed(out):
            return (None, "crash: " + out)
        meta = self.cases.get(line)
        if meta is None:
            return None
        r = out.split(" | ")
        if len(r) != len(meta):
            return (None, "protocol: %d results for %d commands" % (len(r), len(meta)))
        var = {}
        for m, x in zip(meta, r):
            if m[0] == "def":
                continue
            v = var.setdefault(m[1], {"what": "", "obs": [], "steps": []})
            if m[0] == "ctx":
                v["what"] = m[2]
            elif m[0] == "step":
                v["steps"].append((m[2], x))
            else:
                v["obs"].append((m, x))
        ref = var[0]
        for vi in sorted(var):
            v = var[vi]
            for fail, x in v["steps"]:
                ok = x.split("/")[0] == "0"
                if ok == fail:
                    if vi == 0:
                        self.skipped += 1
                        return None
                    return (None, "history [%s]: a step %s (%s)" % (v["what"], "fails" if not fail else "succeeds although it must fail",
                                                                    [x_ for _, x_ in v["steps"]]))
            problems = []            # (is an instance of the listed dep-set finding, text)
            for (m, x), (_, x0) in zip(v["obs"], ref["obs"]):
                if m[0] == "probe" and (x == "1") != m[3]:
                    problems.append((False, "lys_find_path(%s) = %s, the if-feature denotation says %s" % (m[2], x, m[3])))
                if m[0] == "doc":
                    acc = x.split("~")[0].split(" ")[0] == "0"
                    if m[3] is not None and acc != m[3]:
                        problems.append((False, "document %s %s, expected %s (%s)" %
                                         (m[2], "accepted" if acc else "rejected", "valid" if m[3] else "invalid", x[:100])))
                if m[0] == "obs" and m[2] == "module list":
                    x, x0 = ";".join(sorted(x.split(";"))), ";".join(sorted(x0.split(";")))      # the order is that of loading
                if x != x0:
                    a, known = x0 + "\n" + x, False
                    if m[0] == "obs" and m[2].startswith("compiled print") and " " in x and " " in x0:
                        import difflib
                        d = list(difflib.unified_diff(unhex(x0.split(" ")[1]).decode().splitlines(1),
                                                      unhex(x.split(" ")[1]).decode().splitlines(1), "reference", "history", n=2))
                        a = "".join(d[:30])
                    problems.append((known, "%s differs from the reference history:\n%s" % (m[2], a[:1200])))
            if problems:
                return (None, "history [%s]: %s" % (v["what"], problems[0][1]))
        return None
