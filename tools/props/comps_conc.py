"""comps_conc.py - slice `conc` (property C16: one context shared by concurrent readers).

T2 component  ConcModel   the forced-schedule witnesses and small lock programs run through the extracted scheduler
                          model (coq/Sched.v) and through the C driver (impl/t_conc.c): lock discipline verdict,
                          dangling-arena verdict and leaked-reference count must agree (see run_conc.ml).
Oracle        ConcSerial  N threads (2..8) run generated workloads on ONE context and ONE shared tree; every thread must
                          obtain exactly the results it obtains alone in a fresh context; dictionary back to the post-setup
                          size, no not-freed warnings, no table access without its lock (link-time lock-set trace); on the
                          ThreadSanitizer build additionally no report.

Case line (see impl/t_conc.c):  conc <nthr> <reps> <flags> <shared> <ndocs> <doc>* <ops thread 0> ...
"""
import base64
import json
import re

from props.comps import Comp
from vlib import hexs

BITS = ["b0", "b1", "b2", "b3", "long-bit-name"]
IDS = ["id-a", "id-b", "id-c"]
DTS = ["2024-01-02T03:04:05Z", "2024-01-02T03:04:05.25+01:00", "1999-12-31T23:59:59-00:00", "2030-06-15T12:00:00.000+05:30"]
IP4 = ["10.0.0.1", "192.168.1.254", "127.0.0.1%lo", "0.0.0.0"]
IP6 = ["2001:db8::1", "::ffff:1.2.3.4", "FE80::A:B", "0:0:0:0:0:0:0:1"]
PFX = ["2001:DB8::1/32", "::/0", "fe80::1234/64", "2001:db8:aaaa:bbbb::/48"]
WORDS = ["a", "abc", "zz", "k", "hello", "x"]


def rbits(rng):
    k = rng.randrange(0, len(BITS) + 1)
    b = rng.sample(BITS, k)
    return " ".join(b)


def rbin(rng, n=None):
    n = rng.randrange(0, 24) if n is None else n
    return base64.b64encode(bytes(rng.randrange(256) for _ in range(n))).decode()


def rand_doc(rng, rich=False):
    """abstract document: dict for /cc:top (+ cd:aug) and /cd:other"""
    p = 0.9 if rich else 0.5
    top = {}
    i32 = rng.randrange(0, 1001)
    if rng.random() < p:
        top["fl"] = rbits(rng)
    if rng.random() < p:
        top["bin"] = rbin(rng)
    if rng.random() < p:
        top["idr"] = rng.choice(IDS)
    if rng.random() < p:
        top["un"] = rng.choice(["12", "-7", "b0 b1", "b2", rbin(rng, 4), "abc", ""])
    if rng.random() < p:
        top["dec"] = rng.choice(["1.5", "-99.999", "0.000", "100", "3.14", "-0.5"])
    if rng.random() < p:
        top["dt"] = rng.choice(DTS)
    if rng.random() < p:
        top["ip4"] = rng.choice(IP4)
    if rng.random() < p:
        top["ip6"] = rng.choice(IP6)
    if rng.random() < p:
        top["pfx"] = rng.choice(PFX)
    if rng.random() < 0.8:
        top["i32"] = i32
    else:
        i32 = 7
    if rng.random() < p:
        top["str"] = rng.choice(WORDS)
    if rng.random() < 0.4:
        top["lim"] = rng.randrange(-5, min(i32, 100) + 1)
    if rng.random() < p:
        top["ll"] = rng.sample(range(0, 40), rng.randrange(0, 5))
    if rng.random() < p:
        sl = []
        for _ in range(rng.randrange(0, 4)):
            b = " ".join(x for x in BITS if rng.random() < 0.5)      # canonical order: equal sets collide
            if b not in sl:
                sl.append(b)
        top["sl"] = sl
    items = []
    names = rng.sample(WORDS, rng.randrange(0, 4 if rich else 3))
    for nm in names:
        it = {"name": nm}
        if rng.random() < 0.7:
            it["val"] = rbits(rng)
        if rng.random() < 0.7:
            it["bin"] = rbin(rng)
        if rng.random() < 0.5:
            it["when"] = rng.choice(DTS)
        if rng.random() < 0.3:
            it["ref"] = i32
        items.append(it)
    if items:
        top["item"] = items
    if rng.random() < 0.4:
        top["aug"] = rng.choice(["one", "two"])
    other = None
    if rng.random() < (0.7 if rich else 0.5):
        other = {}
        if rng.random() < 0.7:
            other["x"] = rbits(rng)
        if rng.random() < 0.7:
            other["y"] = rbin(rng)
        if rng.random() < 0.7:
            other["z"] = rng.choice(IDS)
        if rng.random() < 0.5:
            other["n"] = rng.sample(range(-20, 20), rng.randrange(1, 4))
        if rng.random() < 0.3:
            other["inner"] = True
    return {"top": top, "other": other, "box": rand_box(rng, rich)}


KWORDS = ["a", "b", "kk", "zed", "abc"]
COLORS = ["red", "green", "blue"]


def rand_box(rng, rich=False, force=False):
    """/ce:box: lists with string / uint8 / bits / enumeration keys, leaf-lists, and instance-identifiers with key and
    leaf-list predicates pointing at them (each compiled path holds values of the key types and a reference on every
    such type of the SHARED schema), leafrefs, a union with an instance-identifier member. Instance-identifiers are kept
    abstractly as lists of (node, predicates) and rendered per format."""
    if not force and rng.random() > (0.85 if rich else 0.6):
        return None
    box = {}
    ls = []
    for k1 in rng.sample(KWORDS, rng.randrange(1, 4)):
        e = {"k1": k1, "k2": rng.randrange(0, 201)}
        if rng.random() < 0.8:
            e["v"] = rng.choice(["1.5", "-9.99", "0.00", "10", "3.14"])
        if rng.random() < 0.5:
            e["e"] = rng.choice(COLORS[:2])
        ls.append(e)
    box["l"] = ls
    ms = []
    seen = set()
    for _ in range(rng.randrange(0, 3)):
        b = " ".join(x for x in BITS if rng.random() < 0.5)
        if b not in seen:
            seen.add(b)
            ms.append({"id": b, "w": rng.choice(IDS)})
    box["m"] = ms
    box["en"] = [{"c": c} for c in rng.sample(COLORS, rng.randrange(0, 3))]
    box["ll"] = rng.sample(range(-50, 51), rng.randrange(0, 5))
    box["idl"] = rng.sample(IDS, rng.randrange(0, 3))
    # instance-identifiers: (target description) -> rendered later
    targets = []
    for e in ls:
        targets.append(("l", e, rng.choice(["v", "k1", None])))
    for m in ms:
        targets.append(("m", m, rng.choice(["w", None])))
    for e in box["en"]:
        targets.append(("en", e, None))
    for x in box["ll"]:
        targets.append(("ll", x, None))
    for x in box["idl"]:
        targets.append(("idl", x, None))
    missing = [("l", {"k1": "nokey", "k2": 7}, "v"), ("ll", 49 if 49 not in box["ll"] else -49, None),
               ("m", {"id": "b3"}, "w") if "b3" not in seen else ("en", {"c": "blue"}, None)]
    iids = rng.sample(targets, min(len(targets), rng.randrange(1, 5)))
    if rng.random() < 0.5:
        iids.append(rng.choice(missing))           # require-instance false: need not exist
    iids = [t for i, t in enumerate(iids) if t not in iids[:i]]
    box["iid"] = iids
    exist = [t for t in targets if t[0] == "l" and t[2] == "v" and "v" in t[1]] or [("l", ls[0], "k1")]
    if rng.random() < 0.7:
        box["iid1"] = rng.choice(exist)
    r = rng.random()
    if r < 0.4:
        box["uiid"] = rng.choice(targets + missing)
    elif r < 0.6:
        box["uiid"] = rng.choice(["17", "none", "200"])
    if rng.random() < 0.6:
        box["lr"] = rng.choice(ls)["k1"]
    if rng.random() < 0.5:
        box["lr2"] = rng.choice(box["ll"] + [33])
    return box


def iid_text(t, json_fmt):
    """instance-identifier of a target: XML form with prefixes ce:/cc: (declared on the element), JSON form with module names"""
    kind, e, child = t
    q = (lambda n: n) if json_fmt else (lambda n: "ce:" + n)
    first = "/ce:box/" + q(kind)
    if kind == "l":
        p = first + "[%s='%s'][%s='%d']" % (q("k1"), e["k1"], q("k2"), e["k2"])
    elif kind == "m":
        p = first + "[%s='%s']" % (q("id"), e["id"])
    elif kind == "en":
        p = first + "[%s='%s']" % (q("c"), e["c"])
    elif kind == "ll":
        p = first + "[.='%d']" % e
    else:
        p = first + "[.='cc:%s']" % e
    if child:
        p += "/" + q(child)
    return p


def box_xml(box):
    out = ['<box xmlns="urn:ce">']
    for e in box["l"]:
        out.append("<l>" + "".join("<%s>%s</%s>" % (k, xesc(e[k]), k) for k in ("k1", "k2", "v", "e") if k in e) + "</l>")
    for m in box["m"]:
        out.append("<m><id>%s</id><w xmlns:cc=\"urn:cc\">cc:%s</w></m>" % (m["id"], m["w"]))
    for e in box["en"]:
        out.append("<en><c>%s</c></en>" % e["c"])
    for x in box["ll"]:
        out.append("<ll>%d</ll>" % x)
    for x in box["idl"]:
        out.append('<idl xmlns:cc="urn:cc">cc:%s</idl>' % x)
    ns = ' xmlns:ce="urn:ce" xmlns:cc="urn:cc"'
    for t in box["iid"]:
        out.append("<iid%s>%s</iid>" % (ns, xesc(iid_text(t, False))))
    if "iid1" in box:
        out.append("<iid1%s>%s</iid1>" % (ns, xesc(iid_text(box["iid1"], False))))
    if "uiid" in box:
        u = box["uiid"]
        out.append("<uiid%s>%s</uiid>" % (ns, xesc(u if isinstance(u, str) else iid_text(u, False))))
    if "lr" in box:
        out.append("<lr>%s</lr>" % box["lr"])
    if "lr2" in box:
        out.append("<lr2>%d</lr2>" % box["lr2"])
    out.append("</box>")
    return "".join(out)


def box_json(box):
    t = {"l": box["l"]}
    if box["m"]:
        t["m"] = [{"id": m["id"], "w": "cc:" + m["w"]} for m in box["m"]]
    if box["en"]:
        t["en"] = box["en"]
    if box["ll"]:
        t["ll"] = box["ll"]
    if box["idl"]:
        t["idl"] = ["cc:" + x for x in box["idl"]]
    t["iid"] = [iid_text(x, True) for x in box["iid"]]
    if "iid1" in box:
        t["iid1"] = iid_text(box["iid1"], True)
    if "uiid" in box:
        u = box["uiid"]
        t["uiid"] = (int(u) if u.isdigit() else u) if isinstance(u, str) else iid_text(u, True)
    if "lr" in box:
        t["lr"] = box["lr"]
    if "lr2" in box:
        t["lr2"] = box["lr2"]
    return t


def xesc(s):
    return str(s).replace("&", "&amp;").replace("<", "&lt;").replace(">", "&gt;")


TOP_ORDER = ["fl", "bin", "idr", "un", "dec", "dt", "ip4", "ip6", "pfx", "i32", "str", "lim", "ll", "sl", "item", "aug"]


def to_xml(d):
    out = []
    top = d["top"]
    if top is not None:
        out.append('<top xmlns="urn:cc">')
        for k in TOP_ORDER:
            if k not in top:
                continue
            v = top[k]
            if k in ("ll", "sl"):
                for x in v:
                    out.append("<%s>%s</%s>" % (k, xesc(x), k))
            elif k == "item":
                for it in v:
                    out.append("<item>" + "".join("<%s>%s</%s>" % (f, xesc(it[f]), f)
                                                  for f in ("name", "val", "bin", "when", "ref") if f in it) + "</item>")
            elif k == "aug":
                out.append('<aug xmlns="urn:cd">%s</aug>' % xesc(v))
            else:
                out.append("<%s>%s</%s>" % (k, xesc(v), k))
        out.append("</top>")
    o = d["other"]
    if o is not None:
        out.append('<other xmlns="urn:cd">')
        for k in ("x", "y"):
            if k in o:
                out.append("<%s>%s</%s>" % (k, xesc(o[k]), k))
        if "z" in o:
            out.append('<z xmlns:c="urn:cc">c:%s</z>' % o["z"])
        for x in o.get("n", []):
            out.append("<n>%d</n>" % x)
        if o.get("inner"):
            out.append("<inner><q/></inner>")
        out.append("</other>")
    if d.get("box"):
        out.append(box_xml(d["box"]))
    return "".join(out).encode()


def to_json(d):
    j = {}
    top = d["top"]
    if top is not None:
        t = {}
        for k in TOP_ORDER:
            if k not in top:
                continue
            v = top[k]
            if k == "idr":
                t[k] = "cc:" + v
            elif k == "aug":
                t["cd:aug"] = v
            elif k == "item":
                t[k] = [dict((f, it[f]) for f in ("name", "val", "bin", "when", "ref") if f in it) for it in v]
            else:
                t[k] = v
        j["cc:top"] = t
    o = d["other"]
    if o is not None:
        t = {}
        for k in ("x", "y"):
            if k in o:
                t[k] = o[k]
        if "z" in o:
            t["z"] = "cc:" + o["z"]
        if "n" in o:
            t["n"] = o["n"]
        if o.get("inner"):
            t["inner"] = {"q": [None]}
        j["cd:other"] = t
    if d.get("box"):
        j["ce:box"] = box_json(d["box"])
    return json.dumps(j).encode()


def break_doc(rng, d):
    """an invalid variant of a document: returns (format letter, bytes)"""
    import copy
    d = copy.deepcopy(d)
    top = d["top"]
    k = rng.randrange(15)
    if k >= 12:
        box = d["box"] = rand_box(rng, True, True)
        if k == 12:
            box["iid1"] = ("l", {"k1": "gone", "k2": 1}, "v")        # required instance does not exist
        elif k == 13:
            box["iid"] = [("l", {"k1": "UPPER", "k2": 1}, None)]     # predicate value violates the key's pattern
        else:
            box["lr"] = "nothere"                                    # leafref without target
        return ("j", to_json(d)) if rng.random() < 0.4 else ("x", to_xml(d))
    if k == 0:
        top["fl"] = "b0 b9"
    elif k == 1:
        top["i32"] = 2000
    elif k == 2:
        top["str"] = "ABC"
    elif k == 3:
        top["i32"] = 3
        top["lim"] = 50
    elif k == 4:
        top["bin"] = "!!!!"
    elif k == 5:
        top["dt"] = "2024-13-40T99:00:00Z"
    elif k == 6:
        top["dec"] = "100.001"
    elif k == 7:
        top["item"] = [{"name": "dup"}, {"name": "dup"}]
    elif k == 8:
        top["item"] = [{"name": "r", "ref": 999}]
        top["i32"] = 1
    elif k == 9:
        top["idr"] = "no-such-id"
    elif k == 10:
        x = to_xml(d)
        return "x", x[:max(1, len(x) - rng.randrange(1, 12))]
    else:
        x = to_xml(d)
        return "x", x.replace(b"</top>", b"<unknown>1</unknown></top>", 1) if b"</top>" in x else b"<nosuch xmlns=\"urn:cc\"/>"
    return ("j", to_json(d)) if rng.random() < 0.4 else ("x", to_xml(d))


SCHEMA_PATHS = ["/cc:top/fl", "/cc:top/item/val", "/cc:top/cd:aug", "/cd:other/inner/q", "/cc:top/item/ref", "/cc:top/nosuch",
                "/cd:other/z", "/cc:top/sl", "/xx:y"]
SHARED_PATHS = ["/cc:top/fl", "/cc:top/bin", "/cc:top/item[name='a']/val", "/cc:top/item[name='abc']", "/cd:other/x",
                "/cc:top/dt", "/cc:top/nosuch", "/cc:top/ll[.='3']", "/cc:top/pfx", "/cc:top/un", "/cc:top/cd:aug"]
SHARED_XPATHS = ["/cc:top/*", "//*[. = 'b0 b1']", "/cc:top/item[val='b0']/name", "/cc:top/item/bin", "/cc:top[fl='b1 b2']",
                 "/cc:top/sl[contains(., 'b3')]", "/cd:other/*[string-length(.) > 3]", "/cc:top/item[when]/when",
                 "//*[starts-with(., '2001')]", "/cc:top/ll[. > 5] | /cc:top/i32", "/cc:top/item[", "/cc:top/ip6",
                 "/cc:top/un | /cc:top/dec", "/cc:top/pfx[. = '2001:db8::/32']"]
SHARED_EVALS = ["/cc:top/fl = 'b0'", "count(/cc:top/item) > 1", "/cc:top/dt > '2000'", "contains(/cc:top/bin, 'A')",
                "string-length(/cc:top/ip6) > 3", "bit-is-set(/cc:top/fl, 'b1')", "derived-from-or-self(/cc:top/idr, 'cc:id-a')",
                "not(/cc:top/nosuch)", "bad("]
DICT_STRS = ["alpha", "beta", "gamma", "top", "fl", "b0 b1", "shared-string-of-some-length", "x", "id-a", ""]


P_ONLY, P_STRICT, P_OPAQ, P_NO_STATE, P_ORDERED = 0x010000, 0x020000, 0x040000, 0x080000, 0x200000
V_NO_STATE, V_PRESENT, V_MULTI = 1, 2, 4
PARSE_OPTS = [P_STRICT, P_STRICT | P_OPAQ, P_ONLY | P_STRICT, P_ONLY | P_OPAQ | P_STRICT, P_OPAQ, P_ONLY | P_OPAQ,
              P_NO_STATE | P_STRICT, P_ORDERED | P_STRICT, 0, P_ONLY]
PRINT_OPTS = [0, 2, 0x20, 0x10, 4, 0x22, 0x14]       # shrink, with-defaults all / trim, keep empty containers


def opt_parse_op(rng, docs_ok, docs_bad, no_multi=False):
    """Q operation: any document, drawn parser / validation / printer options. no_multi: the thread has switched the storing
    of its errors off (T0); LYD_VALIDATE_MULTI_ERROR then dereferences ly_err_last() == NULL in LY_DPARSER_ERR_GOTO
    (parser_internal.h:41-43) on the first invalid value - a single-threaded crash reported to the coordinator (robustness,
    not this property), kept out of these workloads"""
    i = rng.choice(docs_ok + docs_bad)
    fmt = "l" if (i in docs_ok and rng.random() < 0.25) else i[1]
    po = rng.choice(PARSE_OPTS)
    if fmt == "l":
        po &= ~P_OPAQ
    vo = 0 if po & P_ONLY else rng.choice([V_PRESENT, V_PRESENT | V_MULTI, V_PRESENT | V_NO_STATE, 0, V_MULTI])
    if no_multi:
        vo &= ~V_MULTI
    return "Q%s%d:%d:%d:%d" % (fmt, i[0], po, vo, rng.choice(PRINT_OPTS))


def rand_ops(rng, docs_ok, docs_bad, has_lyb, shared, n, want_err=None):
    """one thread's workload"""
    ops = []
    temp = None
    for _ in range(n):
        r = rng.random()
        q = rng.random()
        if q < 0.14 and (docs_ok or docs_bad):
            ops.append(opt_parse_op(rng, docs_ok, docs_bad, no_multi=(temp == 0)))
            if rng.random() < 0.5:
                ops.append("E")
            continue
        if q < 0.18 and docs_bad and want_err is not False:
            i = rng.choice(docs_bad)
            ops.append("K%d:%s%d" % (rng.randrange(3, 25), i[1], i[0]))
            continue
        if q < 0.21 and docs_ok:
            i = rng.choice(docs_ok)
            ops.append("G%d:%s%d:%d" % (rng.randrange(2, 8), i[1], i[0], rng.choice(PARSE_OPTS)))
            continue
        if q < 0.27 and docs_ok:
            i = rng.choice(docs_ok)
            ops.append("U%d:%s%d" % (rng.randrange(2, 12), "l" if rng.random() < 0.3 else i[1], i[0]))
            continue
        if q < 0.30:
            # the thread's own temporary logging options (no logging / store only / store last) and their end
            if temp is None:
                temp = rng.choice([0, 2, 6, 3])
                ops.append("T%d" % temp)
            else:
                temp = None
                ops.append("T-")
            continue
        if r < 0.22 and docs_ok:
            i = rng.choice(docs_ok)
            f = rng.choice("xjl") if i in has_lyb else ("x" if i[1] == "x" else "j")
            if f in "xj":
                f = i[1]
            ops.append("P%s%d" % (f, i[0]))
        elif r < 0.34 and docs_bad and want_err is not False:
            i = rng.choice(docs_bad)
            ops.append("P%s%d" % (i[1], i[0]))
            if rng.random() < 0.6:
                ops.append("E")
        elif r < 0.40:
            ops.append(rng.choice(["E", "E", "C"]))
        elif r < 0.55:
            s = rng.choice(DICT_STRS)
            ops.append(rng.choice("IIRD") + hexs(s))
        elif r < 0.62:
            ops.append("F" + hexs(rng.choice(SCHEMA_PATHS)))
        elif r < 0.66:
            ops.append("Y%d" % rng.randrange(8))
        elif shared:
            q = rng.random()
            if q < 0.3:
                ops.append("S" + rng.choice("xjl"))
            elif q < 0.5:
                ops.append("Sf" + hexs(rng.choice(SHARED_PATHS)))
            elif q < 0.75:
                ops.append("Sq" + hexs(rng.choice(SHARED_XPATHS)))
            elif q < 0.9:
                ops.append("Sv" + hexs(rng.choice(SHARED_EVALS)))
            else:
                ops.append("Sc")
    if want_err and docs_bad and not any(o.startswith("P") and int(o[2:]) in [b[0] for b in docs_bad] for o in ops):
        i = rng.choice(docs_bad)
        ops.insert(rng.randrange(0, 2), "P%s%d" % (i[1], i[0]))
        ops.append("E")
    return ops or ["E"]


def big_doc(rng, n=300):
    """a valid document that keeps a parser busy: hundreds of leaf-list instances"""
    ll = rng.sample(range(0, 60000), n)
    ns = rng.sample(range(-100000, 100000), n // 2)
    return ('<top xmlns="urn:cc"><i32>5</i32><str>abc</str>' + "".join("<ll>%d</ll>" % x for x in ll) + "</top>"
            '<other xmlns="urn:cd">' + "".join("<n>%d</n>" % x for x in ns) + "</other>").encode()


def make_case(rng, nthr, reps, flags, nops=(5, 11), want_err=None, shared=True, big=None, extra_threads=None, boxes=False):
    """a generated case line"""
    docs = []          # (format, bytes, valid?)
    nvalid = rng.randrange(2, 5)
    shared_doc = rand_doc(rng, rich=True)
    docs.append(("x", to_xml(shared_doc), True))
    for _ in range(nvalid):
        d = rand_doc(rng)
        if boxes:
            d["box"] = rand_box(rng, True, True)
        docs.append(("j", to_json(d), True) if rng.random() < 0.4 else ("x", to_xml(d), True))
    for _ in range(rng.randrange(2, 5)):
        f, b = break_doc(rng, rand_doc(rng))
        docs.append((f, b, False))
    ok = [(i, d[0]) for i, d in enumerate(docs) if d[2]]
    bad = [(i, d[0]) for i, d in enumerate(docs) if not d[2]]
    thr = []
    for t in range(nthr):
        thr.append(",".join(rand_ops(rng, ok, bad, set(ok), shared, rng.randrange(*nops), want_err)))
    if extra_threads:
        special = extra_threads(ok, bad, len(docs))
        thr = special + thr[len(special):]
    if big:
        docs.append(("x", big, True))
    okidx = set(i for i, d in enumerate(docs) if d[2])
    expect_ok = sum(1 for t in thr for o in t.split(",") if o[0] == "P" and int(o[2:]) in okidx)
    return "\t".join(["conc", str(nthr), str(reps), "%s:%d" % (flags or "-", expect_ok), "0" if shared else "-1", str(len(docs))] +
                     ["%s:%s" % (d[0], hexs(d[1])) for d in docs] + thr)


# ------------------------------------------------------------------------------------------------
# the two witness schedules of the refutation theorems, forced on the C code (flags f)
# ------------------------------------------------------------------------------------------------
_BAD = b'<nosuch xmlns="urn:cc"/>'
_SHARED1 = b'<top xmlns="urn:cc"><fl>b2 b0</fl></top>'


def witness_err_rec():
    """regression of /repo commit 75f292f (former witness of err_rec_pointer_stable_refuted, Example
    C16_former_err_rec_witness): threads 0..4 each log their first error one after the other (5 records in the 8-slot
    table); thread 0 then calls ly_err_last(): ly_err_get_rec() finds its record and drops the lock (H7: the hook
    increments the counter to 6 and waits for 7); thread 5 logs its first error: the 6th insert reaches 75 % and
    lyht_resize() frees the arena; thread 0 continues and must still get its own error"""
    thr = ["Px0,N,W5,H7,E", "W1,Px0,N", "W2,Px0,N", "W3,Px0,N", "W4,Px0,N", "W6,Px0,N"]
    return "\t".join(["conc", "6", "1", "f", "-1", "1", "x:" + hexs(_BAD)] + thr)


def witness_canon():
    """Sched.canon_cache_single_ref_refuted: two threads print the shared tree (one bits leaf, parsed from LYB); both see
    value->_canonical == NULL before either stores (Z2: each signals at lydict_insert_zc() and waits for the other)"""
    thr = ["Z2,Sx", "Z2,Sx"]
    return "\t".join(["conc", "2", "1", "f", "0", "1", "x:" + hexs(_SHARED1)] + thr)


# ------------------------------------------------------------------------------------------------
# output parsing / judging
# ------------------------------------------------------------------------------------------------
_F = re.compile(r"^(ok|DIFF \S+) dict=(\d+):(\d+) leak=(\d+):(\d+) lock=(\d+):(\d+)(@\S+)? dangling=(\d+) glob=(\S+) refs=(\S+) pok=(\d+)/(\d+)( aloneleak=\d+)?"
                r"(?: left=[0-9a-f-]+)*(?: res=(\S+))?(?: tsan=(\S+))?$")

CANON_PRINT = re.compile(r"^lyplg_type_print_(bits|binary|date_and_time|ipv4_address|ipv4_address_no_zone|ipv4_prefix|"
                         r"ipv6_address|ipv6_address_no_zone|ipv6_prefix|union)$")
STRING_MAKERS = {"malloc", "calloc", "realloc", "memcpy", "strdup", "strndup", "asprintf", "vasprintf", "sprintf", "vsprintf",
                 "snprintf", "vsnprintf", "__vasprintf_internal", "strcpy", "strncpy", "memset"}


def parse_out(out):
    m = _F.match(out)
    if not m:
        return None
    res = {"verdict": m.group(1), "dict": (int(m.group(2)), int(m.group(3))), "leak": (int(m.group(4)), int(m.group(5))),
           "lock": (int(m.group(6)), int(m.group(7))), "lock_where": m.group(8) or "", "dangling": int(m.group(9)),
           "glob": m.group(10), "refs": m.group(11), "pok": (int(m.group(12)), int(m.group(13))),
           "aloneleak": m.group(14), "res": m.group(15) or "", "tsan": []}
    if m.group(16) and m.group(16) not in ("0", "?"):
        for rep in m.group(16).split("|")[1:]:
            kind, _, stacks = rep.partition("~")
            st = [s.split("<") for s in stacks.split("/")]
            while len(st) < 2:
                st.append([])
            res["tsan"].append((kind, st[0], st[1]))
    return res


def classify_tsan(kind, s1, s2):
    """tag of one ThreadSanitizer report (function names of the two stacks, innermost first, wrappers removed);
    None = not the listed finding. (The former tag err-rec-resize is retired: fixed in /repo commit 75f292f; a report about
    the error records is a plain violation now.)"""
    def lazy_store(s):
        # dict_insert() writing  *str_p  (= value->_canonical) for a lazily caching print callback
        return len(s) >= 3 and s[0] == "dict_insert" and s[1] in ("lydict_insert_zc", "lydict_insert") and \
            bool(CANON_PRINT.match(s[2]))

    def canon_access(s):
        # the unlocked test / use of value->_canonical in the callback itself, or the inline readers of the field
        return bool(s) and (bool(CANON_PRINT.match(s[0])) or s[0] in ("lyd_get_value", "lyd_value_get_canonical")
                            or lazy_store(s))

    if (lazy_store(s1) and canon_access(s2)) or (lazy_store(s2) and canon_access(s1)):
        return "canon-lazy-cache"

    def table_fn(f):
        return f.startswith(("lyht_", "_lyht", "lydict_", "dict_"))

    def table_top(s):
        # lydict_insert[_zc] measures its argument (strlen) before it takes the lock: that read is not a table access
        if len(s) >= 2 and s[0] == "strlen" and s[1] in ("lydict_insert", "lydict_insert_zc"):
            s = s[2:]
        return any(table_fn(x) for x in s[:3])

    def lazy_cb(s):
        return any(CANON_PRINT.match(f) for f in s)

    def creator(s):
        # the thread that allocated / filled the bytes of a string that is (or becomes) a dictionary string
        return bool(s) and s[0] in STRING_MAKERS and not any(f.startswith(("lyht_", "_lyht")) for f in s)

    def shared_reader(s):
        # an operation of the driver on the SHARED tree that is not inside any dictionary / hash table function
        return "shared_op" in s and not any(table_fn(x) for x in s)
    # one access is made by a lazily caching print callback (building the string, testing / using the cached pointer,
    # handing the sub-value's cached string to lydict_insert) and the two accesses are not both table operations
    if (lazy_cb(s1) or lazy_cb(s2)) and not (table_top(s1) and table_top(s2)):
        return "canon-lazy-cache"
    # the bytes of the cached string are read by a thread that saw value->_canonical != NULL without any
    # synchronisation with the thread that published the pointer (which did synchronise with the creator of the string):
    # a lock-free reader inside an operation on the shared tree against an access of another thread that is creating a
    # string (allocation, copy, sprintf, the terminator written by dict_insert) outside any operation on the shared tree.
    # Memory that both can reach is a dictionary string (or schema / context data, which private work never writes; the
    # same operations run in the warmed cases, where nothing at all may be reported)
    if (shared_reader(s1) and (creator(s2) or "shared_op" not in s2)) or \
            (shared_reader(s2) and (creator(s1) or "shared_op" not in s1)):
        return "canon-lazy-cache"

    return None


# ------------------------------------------------------------------------------------------------
# T2: forced schedules, model (coq/Sched.v through ocaml/run_conc.ml) against the C code
# ------------------------------------------------------------------------------------------------
_CANON = b"b0 b2"
_FRESH = [b"zq1", b"zq2", b"zq3"]


def scenario(rng, kind):
    """one abstract scenario: per thread a list of calls, a total order of the calls (with preemptions), rendered for the C
    driver (W/N/H/Z operations) and for the model (M:/O:/K: fields). kind: 'calls' (call-level interleaving), 'canon' (k
    threads are preempted between the test of value->_canonical and the store), 'errrec' (a thread is preempted between
    ly_err_get_rec and the use of the record while the 6th error record is created and the table enlarged)"""
    if kind == "errrec":
        nthr = 6
        calls = [["L"] for _ in range(5)] + [["L"]]
        victim = rng.randrange(5)
        extra = rng.randrange(0, 3)
        for _ in range(extra):                       # more stores / reads before the preemption (no new records)
            t = rng.randrange(5)
            calls[t].append(rng.choice(["L", "E"]))
        pre = []
        idx = [0] * nthr
        # program order respecting random interleaving of the first five threads
        while any(idx[t] < len(calls[t]) for t in range(5)):
            t = rng.choice([t for t in range(5) if idx[t] < len(calls[t])])
            pre.append((t, None))
            idx[t] += 1
        calls[victim].append("E")
        order = pre + [(victim, 3), (5, None), (victim, None)]
        shared = False
    else:
        nthr = rng.randrange(2, 6)
        shared = kind == "canon" or rng.random() < 0.6
        calls = []
        for t in range(nthr):
            c = []
            held = []
            for _ in range(rng.randrange(1, 6)):
                r = rng.random()
                if r < 0.25:
                    c.append("L")
                elif r < 0.45:
                    c.append("E")
                elif r < 0.52:
                    c.append("C")
                elif r < 0.72:
                    x = rng.choice(_FRESH)
                    held.append(x)
                    c.append("I" + hexs(x))
                elif r < 0.84 and held:
                    x = held.pop(rng.randrange(len(held)))
                    c.append("R" + hexs(x))
                elif shared:
                    c.append("P")
            calls.append(c or ["E"])
        racers = []
        if kind == "canon":
            racers = rng.sample(range(nthr), rng.randrange(2, nthr + 1))
            for t in racers:
                calls[t].insert(0, "P")
        order = [(t, 2) for t in racers]
        idx = [0] * nthr
        rest = []
        while any(idx[t] < len(calls[t]) for t in range(nthr)):
            t = rng.choice([t for t in range(nthr) if idx[t] < len(calls[t])])
            rest.append((t, None))
            idx[t] += 1
        # a preempted first call is resumed by the thread's first complete entry
        order += rest
    # ---- C rendering: position i in the order = value of the sequence counter before the entry
    cops = [[] for _ in range(nthr)]
    pos_of_resume = {}
    seen_pre = set()
    nxt = [0] * nthr
    # first pass: where is each preempted call resumed
    for i, (t, k) in enumerate(order):
        if k is not None:
            seen_pre.add(t)
        elif t in seen_pre and t not in pos_of_resume:
            pos_of_resume[t] = i
    started = set()
    for i, (t, k) in enumerate(order):
        if k is not None:
            call = calls[t][nxt[t]]
            hook = ("H%d" if call == "E" else "Z%d") % pos_of_resume[t]
            cops[t] += ["W%d" % i, hook, _c_op(call)]
            started.add(t)
        elif t in started:
            cops[t] += ["N"]                         # the resumed call ends: counter = position + 1
            started.discard(t)
            nxt[t] += 1
        else:
            cops[t] += ["W%d" % i, _c_op(calls[t][nxt[t]]), "N"]
            nxt[t] += 1
    for t in range(nthr):
        cops[t].append("W%d" % len(order))           # cleanup of every thread only after all calls
    # ---- model rendering
    mops = []
    for t in range(nthr):
        held = []
        m = []
        n = 0
        for c in calls[t]:
            if c == "L":
                n += 1
                m.append("L%d" % (100 * t + n))
            elif c == "P":
                m.append("P0:" + hexs(_CANON))
            else:
                m.append(c)
                if c[0] == "I":
                    held.append(c[1:])
                elif c[0] == "R":
                    held.remove(c[1:])
        m += ["R" + h for h in held] + ["C"]
        mops.append(m)
    mops.append(["F0:" + hexs(_CANON)] if shared else ["V1"])
    morder = ["%d/%d" % (t, k) if k is not None else str(t) for (t, k) in order]
    for t in range(nthr):
        morder += [str(t)] * (len(mops[t]) - len(calls[t]))
    morder.append(str(nthr))
    docs = ["x:" + hexs(_BAD), "x:" + hexs(_SHARED1)]
    return "\t".join(["conc", str(nthr), "1", "fv", "1" if shared else "-1", "2"] + docs + [",".join(o) for o in cops] +
                     ["M:" + ",".join(m) for m in mops] + ["O:" + ",".join(morder), "K:" + ",".join(hexs(x) for x in _FRESH + [_CANON])])


def _c_op(call):
    return {"L": "Px0", "P": "Sx"}.get(call, call)


class ConcModel(Comp):
    """forced schedules: coq/Sched.v (run_calls) against the C code (impl/t_conc.c with W/N/H/Z operations): strings
    left in the dictionary, accesses without the lock, dangling error record pointer, and what every ly_err_last of every
    thread returned"""
    name = "conc"
    driver = "t_conc"
    slice = "conc"
    sanitize = False        # the driver wraps free() and stops threads at hooks: only the release build is used here

    def gen(self, rng, tier, scale=1.0):
        L = [witness_err_rec_m(), witness_canon_m()]
        n = self.n(tier, 60, 1500, scale)
        for i in range(n):
            L.append(scenario(rng, "calls" if i % 3 == 0 else ("canon" if i % 3 == 1 else "errrec")))
        return L

    def norm(self, line, out):
        if out.startswith("dangling="):         # model
            m = re.match(r"dangling=(\d+) leak=(\d+) lockviol=(\d+) done=(\w+) res=(\S*)$", out)
            if not m or m.group(4) != "true":
                return "MODEL:" + out
            nthr = int(line.split("\t")[1])
            res = ";".join(m.group(5).split(";")[:nthr])
            return "dangling=%s leak=%s lockviol=%s res=%s" % (m.group(1), m.group(2), min(1, int(m.group(3))), res)
        r = parse_out(out)
        if r is None:
            return "IMPL:" + out
        if r["verdict"] != "ok" or r["glob"] != "ok" or r["refs"] != "ok":
            return "IMPL:" + out
        # the dangling= field of the driver is informational (arena of record pointers reallocated); a use of a dangling
        # record would show as a lost error record, i.e. as a DIFF above
        return "dangling=0 leak=%d lockviol=%d res=%s" % (r["leak"][0], min(1, r["lock"][1]), r["res"])

    def witness(self, line, model_out, impl_out):
        r = parse_out(impl_out)
        if impl_out.startswith("CRASH(") or impl_out in ("TIMEOUT", "HANG"):
            return (None, impl_out)
        if r is None:
            return None
        if r["lock"][1]:
            return (None, "%d table accesses without the lock held, first %s" % (r["lock"][1], r["lock_where"]))
        if r["verdict"] != "ok":
            return (None, r["verdict"])
        return None


def witness_err_rec_m():
    rng = __import__("random").Random(0)
    return scenario(rng, "errrec")


def witness_canon_m():
    rng = __import__("random").Random(0)
    return scenario(rng, "canon")


class ConcSerial:
    """C16 on the implementation: per-thread results on a shared context and a shared tree equal the results of the same
    workload run alone; dictionary balance, no not-freed warning, every dictionary / error table access under its lock
    (lock-set trace), and on the ThreadSanitizer build no report. The one listed race (lazily cached canonical strings of a
    shared tree, canon-lazy-cache) is recognised by its stacks / consequences; the former err-rec-resize is fixed (75f292f):
    first errors of many threads while others read theirs must be clean."""
    name = "conc-serial"
    driver = "t_conc"
    kinds = ["rel", "tsan"]
    quick_sanitize = True
    shards = 4
    timeout = 300

    def gen(self, rng, tier, scale=1.0):
        n = int((40 if tier == "thorough" else 4) * scale) or 1
        reps = 3
        clean, lazy, errs = [], [], []
        for _ in range(6 * n):          # no listed race can occur: shared tree warm, error records primed
            clean.append(make_case(rng, rng.randrange(2, 9), reps, "wp"))
        for _ in range(2 * n):          # no shared tree: LYB hash cache, dictionary and schema reads only
            clean.append(make_case(rng, rng.randrange(3, 9), reps, "p", shared=False))
        for _ in range(3 * n):
            # gateways stay inside the XML parser with LYD_PARSE_OPAQ (every terminal value goes through the code that
            # silences the logger for a trial validation) on a big document, checkers run short failing parses in a tight
            # loop and look at their error record after each; the rest of the threads run random workloads
            ng, nc = rng.randrange(1, 4), rng.randrange(1, 4)

            def special(ok, bad, bigidx, ng=ng, nc=nc):
                g = ["G%d:x%d:%d" % (12, bigidx, P_ONLY | P_OPAQ | P_STRICT)] * ng
                xb = [b for b in bad if b[1] == "x"] or bad
                c = []
                for k in range(nc):
                    b = xb[k % len(xb)]
                    c.append(",".join(["K250:%s%d" % (b[1], b[0]), "E", "P%s%d" % (b[1], b[0]), "E", "K250:%s%d" % (b[1], b[0])]))
                return g + c
            clean.append(make_case(rng, min(8, ng + nc + rng.randrange(0, 3)), 2, "p", shared=False, big=big_doc(rng),
                                   extra_threads=special))
        for _ in range(3 * n):
            # reference counts of the shared schema touched from private trees: every thread parses documents full of
            # instance-identifiers with key / leaf-list predicates, leafrefs, unions, identityrefs, bits and enumeration keys
            # and duplicates, compares, diffs, merges and frees them in a tight loop
            def refs_threads(ok, bad, n_docs, rng=rng):
                k = rng.randrange(2, 7)
                out = []
                for _ in range(k):
                    picks = [rng.choice(ok) for _ in range(rng.randrange(1, 4))]
                    out.append(",".join("U%d:%s%d" % (rng.choice([60, 120, 200]), "l" if rng.random() < 0.25 else i[1], i[0])
                                        for i in picks))
                return out
            clean.append(make_case(rng, rng.randrange(6, 9), 2, "p", shared=False, extra_threads=refs_threads, boxes=True))
        for _ in range(4 * n):          # lazily cached canonical strings of the shared tree are generated by the threads
            lazy.append(make_case(rng, rng.randrange(2, 6), reps, "p"))
        for _ in range(3 * n):          # first errors of >= 6 threads while others read theirs (table arena resized)
            errs.append(make_case(rng, rng.randrange(6, 9), reps, "w", want_err=True))
        # ThreadSanitizer reports one pair of stacks once per process: in every process (shard) the cases in which nothing
        # may be reported run first, so that a new race is not first seen (and attributed) in a case where a listed race
        # with similar stacks is possible
        buckets = [[] for _ in range(self.shards)]
        for group in (clean, lazy, errs, [witness_err_rec(), witness_canon()]):
            for k, l in enumerate(group):
                buckets[k % self.shards].append(l)
        size = max(len(b) for b in buckets)
        for b in buckets:               # equal chunk sizes, as run_sharded cuts the list into consecutive pieces
            while len(b) < size:
                b.append(make_case(rng, rng.randrange(2, 6), reps, "wp"))
        return [l for b in buckets for l in b]

    def judge(self, line, out):
        f = line.split("\t")
        flags = f[3]
        warm = "w" in flags
        # the only listed race left: lazily cached canonical strings of a shared tree that was not warmed
        may_canon_race = (not warm) and f[4] != "-1"
        if out.startswith("CRASH(") or out in ("TIMEOUT", "HANG"):
            return (None, out)
        r = parse_out(out)
        if r is None:
            return (None, "unexpected driver output: %s" % out[:200])
        if ":" in flags and r["pok"][0] < int(flags.split(":")[1]):
            return (None, "a document that is valid by construction was rejected or failed in the pipeline when run alone "
                          "(%d good parse operations, %s expected)" % (r["pok"][0], flags.split(":")[1]))
        if r["refs"] != "ok":
            return (None, "reference count of a compiled type of the shared schema changed (leaf %s): leak or early release "
                          "at ly_ctx_destroy" % r["refs"])
        if r["glob"] != "ok":
            return (None, "process-wide / per-context state changed by the concurrent run: %s" % r["glob"])
        if r["aloneleak"]:
            return (None, "a workload run alone leaves strings in the dictionary:%s" % r["aloneleak"])
        if r["lock"][1]:
            return (None, "%d table accesses without the lock held, first %s" % (r["lock"][1], r["lock_where"]))
        tags = [(classify_tsan(*t), t) for t in r["tsan"]]
        for tag, t in tags:
            desc = "ThreadSanitizer: %s: %s / %s" % (t[0], "<".join(t[1][:5]), "<".join(t[2][:5]))
            if tag is None:
                return (None, desc)
            if tag == "canon-lazy-cache" and not may_canon_race:
                return (None, "the listed race in a case constructed to exclude it: " + desc)
        if r["verdict"] != "ok":
            return (None, r["verdict"])
        found = None
        n, attributable = r["leak"]
        if n or r["dict"][0] != r["dict"][1]:
            if may_canon_race and n == attributable and r["dict"][1] - r["dict"][0] <= n:
                found = ("canon-lazy-cache", "%d cached canonical strings of shared values not freed (dict %d -> %d)"
                         % (n, r["dict"][0], r["dict"][1]))
            else:
                return (None, "dictionary not back to the post-setup state: %s" % out[:200])
        # r["dangling"] (the table arena was reallocated while a thread was stopped behind ly_err_get_rec) is informational
        if found:
            return found
        for tag, t in tags:
            return (tag, "ThreadSanitizer: %s: %s / %s" % (t[0], "<".join(t[1][:5]), "<".join(t[2][:5])))
        return None
