"""C17 - no sequence of API calls leaks or double-frees; string references balance (partial)"""
from props import comps_ht

PID = "C17"
LEVEL = "proof"
ASAN_QUICK = False      # the T2 components run on the release build in the quick tier; the Ownership oracle asks for asan itself


def components():
    return [comps_ht.HashFn(), comps_ht.HtScript(), comps_ht.DictScript(), comps_ht.OwnDelta()]


def oracles_():
    # API-level ownership oracle: ASan + LSan, also in the quick tier (quick_sanitize / leaks are set on the class)
    return [comps_ht.Ownership()] if hasattr(comps_ht, "Ownership") else []


TRUSTED = [
    "impl/t_ht.c (state dump of struct ly_ht through hash_table_internal.h; a call that does not return within 0.5 s is reported as "
    "the model's loop-fuel answer) and ocaml/run_ht.ml (script parsing; for own-delta the mapping command name -> kind of model operation)",
    "impl/t_own.c (ownership oracle driver: what it checks after each API call and at the end of a case, its allocation tracker, "
    "the call shapes it refuses as API misuse) and AddressSanitizer / LeakSanitizer of clang (heap errors and leaks are only as "
    "visible as these tools make them)",
]

ASSUMPTIONS = [
    "malloc/calloc succeed (LY_EMEM paths are not modelled)",
    "sequence theorems: table created by lyht_new(2^k), k <= 26, at most 3 * 2^26 operations (keeps ht->size << 1 inside uint32_t); "
    "lyht_insert alone: size <= 2^30",
    "the value-equality callback is modelled as one relation for both 'mod' settings; for the dictionary it is string equality (the "
    "pointer comparisons of lydict_dup / of the resize callback are string equality on strings the dictionary handed out)",
    "single thread (the dictionary lock is not modelled)",
    "dictionary strings contain no NUL and each reference count stays below 2^32 (implied by the length bound)",
]

MANIFEST = {
    "text": "PARTIAL. Proved in Coq on models transcribed from src/hash_table.c and src/dict.c branch by branch (arrays as lists, "
            "uint32_t arithmetic explicit, a failing assert = error E_ABORT). (1) Hash table, for any value type and callback: "
            "under the representation invariant Rep (bucket chains + free list are duplicate free and partition the record "
            "indices 0..size-1, each chained record lies in the bucket of its hash, hlists[].last is the chain end, used = number "
            "of chained records, size = 2^k >= 8) every operation returns what its functional version on the abstraction "
            "(per-bucket lists in chain order) returns, preserves Rep, never leaves the arrays and its loops terminate: "
            "C17_ht_find_refines, C17_ht_find_next_refines (incl. the collision callback), C17_ht_insert_refines (checked and "
            "no_check, incl. the enlarging resize; size <= 2^30), C17_ht_remove_refines (incl. shrinking), C17_ht_resize_refines, "
            "C17_ht_set_val_refines, C17_ht_dup_preserves_rep; Rep gives C17_ht_no_slot_lost_or_reused; the load-factor invariant "
            "gives first_free_rec < size (C17_ht_free_list_nonempty); C17_ht_pct_exact (64-bit load percentage). For the instance "
            "the driver runs (integer values, equality callback) and every script of insert / insert_no_check / remove / find / "
            "find_next / dup from lyht_new(2^k, resize 0|1), k <= 26, <= 3*2^26 operations: results equal the abstract run, every "
            "reachable state satisfies Rep, the only possible stop is a C assert (C17_ht_run_refines: table full with resize 0, or "
            "a checked re-insertion meeting a duplicate stored by insert_no_check); with resize 1 the free list is never empty "
            "(C17_ht_run_free_rec) and scripts without insert_no_check never stop (C17_ht_checked_run_total). (2) Dictionary, from "
            "an empty dictionary of 2^k records (lydict_init: k = 10), same length bound: every script of lydict_insert / _insert_zc "
            "/ _remove / _dup, incl. calls on strings that are not held, runs to completion, answers as the finite map string -> "
            "count does and the table stores exactly that map restricted to positive counts (C17_dict_refs_balance); count = "
            "acquired - released when every remove/dup targets a held string (C17_dict_counts); all released => used = 0 "
            "(C17_dict_release_all_empty); a surplus remove answers LY_ENOTFOUND and changes nothing (C17_dict_remove_not_held). "
            "(3) Ownership rules over that finite map (Own.v, an abstract model, NOT a transcription of C): store/dup/free/"
            "failed-validation sequences never release a string that is not held and end at the initial dictionary once every "
            "value is freed (C17_own_balance); free_single k / free_siblings k on a chain keep exactly the other / the first k "
            "elements in order and release exactly the freed elements' references (C17_own_free_single_exact, "
            "C17_own_free_siblings_exact); a duplicate takes one reference per owned string (C17_own_dup_takes_refs); a stored "
            "value whose validation fails is neutral (C17_own_temp_neutral); an update-style operation (new_path UPDATE, change_term, "
            "change_meta, any_copy_value) with an equal value changes nothing - its temporary is freed - and with another value "
            "switches the handle, releasing exactly the old value's references and taking the new one's (C17_own_update_exact); "
            "the re-resolution of a union value at validation frees the temporary of the recorded member on every path and "
            "switches the value likewise (C17_own_resolve_exact); both hold in any state satisfying the balance invariant OInv "
            "for a live handle, values being compared by the list of strings they own, and C17_own_balance covers sequences "
            "containing them; C17_own_dict_is_DictP, C17_own_script_delta_zero. "
            "Former defects are kept as regression Examples (C17_ht_dup_regression, C17_ht_pct_former_witness: fixed in d69e9c2 / "
            "be54a69; C17_own_*_refuted, incl. C17_own_update_same_leaked_refuted and C17_own_resolve_leaked_refuted: the seeded "
            "defect classes as wrong variants of the model operations). Tie (T2): the "
            "extracted models and the C functions run the same scripts on the public lyht_* / lydict_* API and are compared on "
            "every return value AND the complete internal state (size, used, resize, first_free_rec, every hlists[] entry, every "
            "chain with arena indices, the free list, reference counts); own-delta compares the end-of-case dictionary accounting "
            "of the fixed API catalogue scripts with the model's prediction (each command projected by its name and flags onto "
            "store / temporary / dup / update / re-resolve of the previous value), which is 0 for every script by theorem.",
    "note": "NOT proved: heap behaviour of the rest of the library; which strings / blocks a given libyang call owns is not modelled "
            "anywhere. It is only SEARCHED by the Ownership oracle (impl/t_own.c, ASan + LSan also in the quick tier): random and "
            "fixed sequences of data-tree API calls, failing ones included, over two contexts with fixed modules; after every call: "
            "outputs NULL on failure, inputs that are not consumed and slots that are not arguments unchanged (canonical dump), "
            "consumed inputs gone, sibling/parent links consistent, chains after free_single/_siblings exactly the expected rest; "
            "at the end of a case: dictionary strings and references of each context back at the state after module loading, no "
            "'not freed' warning at ly_ctx_destroy, no 'was not found in the dictionary' error, no block left (allocation tracker), "
            "no LSan report. Fixed catalogue (oracle-level only): temporaries (lyd_value_validate with/without context node for "
            "every type family - valid, invalid when stored, invalid when resolved -, lyd_value_compare, lyd_change_term/_canon/"
            "_bin, lyd_dup_meta_single, lyd_any_value_str, lyd_any_copy_value), merge / diff callbacks failing at every position, "
            "chains of 1..4 metadata / attributes / siblings freed at every position, per-type dup/free balance for every type "
            "plugin that owns memory (both free orders, other context, diff/merge/anydata paths), update-style calls with the "
            "same / another value / on missing nodes, unions re-resolved at validation time incl. LYB round trips. Call shapes the "
            "API documents as the caller's duty (or does not check: see the SKIP comments of the driver) are not exercised. One "
            "listed known finding: merge-destruct-einval-source-not-consumed (API-contract question); the other findings of this "
            "check are fixed in /repo (known_findings.d/ht.json with commit ids) and their reproducers stay as regression cases. "
            "A leak on a path the generators do not reach stays unseen. Allocation failure, threads and strings with embedded NUL "
            "are outside everything.",
    "technique": "Coq refinement proof (arena-style model -> per-bucket lists -> finite map) + differential correspondence "
                 "(extracted OCaml vs C, white-box state dump) + sanitizer-backed API-sequence search",
}
