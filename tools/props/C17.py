"""C17 - no sequence of API calls leaks or double-frees; string references balance (partial)"""
from props import comps_ht

PID = "C17"
LEVEL = "proof"
ASAN_QUICK = False      # the T2 components run on the release build in the quick tier; the Ownership oracle asks for asan itself


def components():
    return [comps_ht.HashFn(), comps_ht.HtScript(), comps_ht.DictScript(), comps_ht.OwnDelta()]


def oracles_():
    # API-level ownership oracle: ASan + LSan, also in the quick tier (quick_sanitize / leaks are set on the class)
    return [comps_ht.Ownership()] if hasattr(comps_ht, "Ownership") else []


TRUSTED = [
    "impl/t_own.c (ownership oracle driver: what it checks after each API call and at the end of a case) and "
    "AddressSanitizer / LeakSanitizer of clang (heap errors and leaks are only as visible as these tools make them)",
]

ASSUMPTIONS = [
    "malloc/calloc succeed (LY_EMEM paths are not modelled)",
    "at most 3 * 2^26 operations on one table (keeps ht->size << 1 inside uint32_t)",
    "single thread (the dictionary lock is not modelled)",
    "dictionary strings contain no NUL and each reference count stays below 2^32",
]

MANIFEST = {
    "text": "PARTIAL. Proved in Coq on models that follow src/hash_table.c and src/dict.c statement by statement: (1) the record "
            "arena of the hash table - representation invariant Rep (bucket chains + free list are duplicate free and partition "
            "the record indices 0..size-1, every chained record lies in the bucket of its hash, hlists[].last is the chain end, "
            "used = number of chained records, size = 2^k >= 8) is preserved by lyht_insert / lyht_insert_no_check / lyht_remove "
            "/ the enlarging and shrinking lyht_resize / in-place value updates, every operation (incl. lyht_find, lyht_find_next, "
            "lyht_find_next_with_collision_cb) returns what the functional version on the abstraction (per-bucket lists in chain "
            "order) returns, no access leaves the arrays, the loops terminate, and with resizing enabled the assertion "
            "first_free_rec < size follows from the load-factor invariant; lifted to all operation sequences from lyht_new "
            "(C17_ht_run_refines, C17_ht_run_free_rec, C17_ht_checked_run_total: 'no record slot is lost or used twice' in every "
            "reachable state). (2) the dictionary - for every sequence of lydict_insert / lydict_insert_zc / lydict_remove / "
            "lydict_dup, incl. removes of strings that are not held, the table stores exactly the finite map string -> "
            "(#acquired - #released) restricted to positive counts; after releasing every reference used = 0; a surplus "
            "lydict_remove answers LY_ENOTFOUND and changes nothing (C17_dict_refs_balance, C17_dict_counts, "
            "C17_dict_release_all_empty, C17_dict_remove_not_held). lyht_dup keeps the invariant and the content (C17_ht_dup_preserves_rep) and the load percentage is exact "
            "(C17_ht_pct_exact); both were refuted before the fixes d69e9c2 / be54a69. Tie: T2 on the "
            "public lyht_* / lydict_* API - the extracted models and the C functions run the same operation scripts and are "
            "compared on every return value AND on the complete internal state (size, used, resize, first_free_rec, every "
            "hlists[] entry, every chain with arena indices, the free list, reference counts).",
    "note": "NOT proved: heap behaviour of the rest of the library. Ownership of data-tree / schema / context memory (consumed "
            "inputs, outputs NULL on failure, subtree freeing, dictionary empty at ly_ctx_destroy) is only SEARCHED: the Ownership "
            "oracle runs random sequences of API calls including failing ones under AddressSanitizer + LeakSanitizer and compares "
            "the context's dictionary size before/after and counts 'not freed' warnings. A small ownership model (Own.v / "
            "Properties_C17_own.v) states the rules the oracle checks - balance of store / dup / free / temporaries over the "
            "dictionary finite map (C17_own_balance), exactness of free_single / free_siblings on chains, one reference per owned "
            "string for a duplicate, neutral temporaries, with the seeded defect classes as refuted variants - and predicts the "
            "dictionary delta 0 for every projected API script (C17_own_script_delta_zero, compared with the library by the T2 "
            "component own-delta on the fixed catalogue scripts); which strings a given libyang call owns is NOT modelled. "
            "Oracle-level only: the "
            "catalogue of calls that allocate-and-release temporaries (lyd_value_validate with/without context node for every type "
            "family - valid, invalid when stored, invalid when resolved -, lyd_value_compare, lyd_change_term/_canon/_bin, "
            "lyd_dup_meta_single, lyd_any_value_str, lyd_any_copy_value, merge / diff callbacks failing at every position) and of "
            "calls that unlink-and-free one element of a chain (lyd_free_meta_single/_siblings, lyd_free_attr_single/_siblings, "
            "unlink/free of siblings at every position of chains of 1..4: exactly the other elements must remain, in order). "
            "A leak on a path the generator does not reach stays unseen. Allocation failure, threads and strings with embedded NUL are out of the model.",
    "technique": "Coq refinement proof (arena-style model -> per-bucket lists -> finite map) + differential correspondence "
                 "(extracted OCaml vs C, white-box state dump) + sanitizer-backed API-sequence search",
}
