"""comps_regex.py - slice regex (property C18: YANG patterns are XSD regular expressions).

  Rewrite     exact correspondence: the text libyang hands to pcre2_compile() (captured by --wrap in
              impl/t_regex.c) vs Rewrite.rewrite; arbitrary byte strings over the regex alphabet, all
              block names in all bracket contexts, escaped backslashes before brackets and blocks.
  Match       property oracle in Comp form: the model column is the XSD reference
              (XsdParse.xsd_match = parse, then the derivative matcher proved correct against
              in_lang); the implementation column is what ly_pattern_match() and lyd_value_validate()
              answer. Patterns are generated from the XSD grammar (valid by construction), so every
              disagreement is a deviation of libyang from C18; witness() classifies it.
  MatchList   several patterns on one leaf, some with invert-match, vs Rewrite.validate_patterns over
              the XSD matcher (tie of C18_invert_match).
  RewriteUB   oracle (sanitizer build): the former witnesses of the out-of-bounds table index of the
              block rewrite (fixed by 0ef0929) and generated patterns of the same shape must run clean.
  EntryPoints oracle: ly_pattern_match(), lyd_value_validate(), XPath re-match() (all through
              impl/t_regex.c) and the yangre tool (run as a process) give the same answer.

  TypeSet     pattern SETS over typedef chains (inherited + added patterns, invert-match at any level) as seen by the
              validator on leaf / leaf-list / union member / list key / typedef / typedef of typedef, and the
              conjunction of single-pattern ly_pattern_match() answers, vs Rewrite.chain_patterns + validate_patterns
              over the XSD matcher (tie of C18_invert_match_chain).
  YangreModes oracle: yangre -p (with -i) and yangre -f <file> (LF / CRLF / no final line end) vs the library, on
              pattern sets and strings with blanks, tabs, CR, non-ASCII, the empty string. Tags re-yangre-file-empty-line
              and re-yangre-file-cr-start name the two defects of the file parser fixed by 5322449 (no longer expected: a
              recurrence is a VIOLATION carrying that tag).

Deviation tags returned by Match.witness() (each is one entry of known_findings.d/regex.json; anything else that
disagrees with the XSD reference is reported as a VIOLATION):
  re-w-underscore           \\w matches '_' (PCRE2: letters, digits, '_'; XSD: everything but P, Z, C), \\W rejects it
  re-w-symbol               \\w rejects symbols and marks (S*, M*: '$', '^', '+', U+0301 ...), \\W matches them
  re-esc-i re-esc-I         \\i and \\I are not translated: PCRE2 rejects the pattern
  re-esc-c                  \\c is PCRE2's control-character escape (\\c+ is the character 'k')
  re-esc-C                  \\C is PCRE2's single code unit
  re-subtraction            [a-z-[aeiou]] is read by PCRE2 as a class followed by a literal ']'
  re-posix-class            a bracket expression that starts with '.', ':' or '=' and ends with the same character, e.g.
                            [..] or [=a=], is rejected by PCRE2 as a POSIX collating element / class name
  re-block-negated          \\P{IsX} is not translated: PCRE2 rejects the pattern (unknown property)
  re-block-prefix           \\p{IsGreekExtended} and five more names are replaced by the range of the earlier table entry
                            whose name is a prefix of theirs (Greek, Bopomofo, CJKCompatibility, Arabic)
  re-block-specials         \\p{IsSpecials}: the replacement text is cut after 19 bytes
  re-block-after-backslash  after an escaped backslash directly before a bracket or a block, the bracket counter of the
                            block rewrite is off by one: a later block is written with / without brackets wrongly
  re-match-limit            pcre2_match() gives up (match limit) on nested quantifiers over possibly empty groups: a string that
                            is not in the language is refused with an internal error (LY_ESYS) instead of "no match"
  re-match-limit-member     the same limit is exhausted before the one way a string DOES match is found, e.g. (a?){24}a{24} on 24 a:
                            a value of the language is refused with an internal error
  re-dot-cr                 '.' matches CR (XSD: [^\\n\\r])
  re-s-unicode              \\s matches VT, FF, NEL, NBSP ... (PCRE2_UCP), XSD: only space, TAB, LF, CR
Fixed and no longer expected (regression cases are kept in every tier): re-escaped-anchor (97840a6), re-block-index and
re-block-oob (0ef0929).
"""
import itertools
import os
import subprocess
import unicodedata
from concurrent.futures import ThreadPoolExecutor
from functools import lru_cache

from props.comps import Comp
import vlib
from vlib import hexs, unhex

WRAP = "-Wl,--wrap=pcre2_compile_8"

# ----------------------------------------------------------------------------------------------------
# alphabets
# ----------------------------------------------------------------------------------------------------
PAT_ALPHA = ["a", "b", "^", "$", "\\", "[", "]", "-", ".", "|", "(", ")", "*", "+", "?", "{", "}", "0", "1", "_", "\u00e9"]
STR_ALPHA = ["a", "b", "^", "$", "_", "\u00e9", "-"]

BLOCKS = ["BasicLatin", "Latin-1Supplement", "LatinExtended-A", "LatinExtended-B", "IPAExtensions",
          "SpacingModifierLetters", "CombiningDiacriticalMarks", "Greek", "Cyrillic", "Armenian", "Hebrew", "Arabic",
          "Syriac", "Thaana", "Devanagari", "Bengali", "Gurmukhi", "Gujarati", "Oriya", "Tamil", "Telugu", "Kannada",
          "Malayalam", "Sinhala", "Thai", "Lao", "Tibetan", "Myanmar", "Georgian", "HangulJamo", "Ethiopic", "Cherokee",
          "UnifiedCanadianAboriginalSyllabics", "Ogham", "Runic", "Khmer", "Mongolian", "LatinExtendedAdditional",
          "GreekExtended", "GeneralPunctuation", "SuperscriptsandSubscripts", "CurrencySymbols",
          "CombiningMarksforSymbols", "LetterlikeSymbols", "NumberForms", "Arrows", "MathematicalOperators",
          "MiscellaneousTechnical", "ControlPictures", "OpticalCharacterRecognition", "EnclosedAlphanumerics",
          "BoxDrawing", "BlockElements", "GeometricShapes", "MiscellaneousSymbols", "Dingbats", "BraillePatterns",
          "CJKRadicalsSupplement", "KangxiRadicals", "IdeographicDescriptionCharacters", "CJKSymbolsandPunctuation",
          "Hiragana", "Katakana", "Bopomofo", "HangulCompatibilityJamo", "Kanbun", "BopomofoExtended",
          "EnclosedCJKLettersandMonths", "CJKCompatibility", "CJKUnifiedIdeographsExtensionA", "CJKUnifiedIdeographs",
          "YiSyllables", "YiRadicals", "HangulSyllables", "PrivateUse", "CJKCompatibilityIdeographs",
          "AlphabeticPresentationForms", "ArabicPresentationForms-A", "CombiningHalfMarks", "CJKCompatibilityForms",
          "SmallFormVariants", "ArabicPresentationForms-B", "HalfwidthandFullwidthForms", "Specials"]


def all_strings(alpha, maxlen):
    out = []
    for n in range(maxlen + 1):
        for t in itertools.product(alpha, repeat=n):
            out.append("".join(t))
    return out


# ----------------------------------------------------------------------------------------------------
# exhaustive enumeration of XSD regular expressions by size (number of grammar units)
# ----------------------------------------------------------------------------------------------------
E_CHARS = ["a", "b", "^", "$", "-", "_", "\u00e9", "0", "1"]
E_ESCS = ["\\\\", "\\^", "\\.", "\\-", "\\|", "\\(", "\\)", "\\*", "\\+", "\\?", "\\{", "\\}", "\\[", "\\]",
          "\\p{IsBasicLatin}", "\\p{IsLatin-1Supplement}"]
E_QUANTS = ["?", "*", "+", "{0}", "{1}", "{0,1}", "{1,}", "{0,}", "{1,1}", "{01}"]
# bracket expression items: (text, may be first, may be anywhere else)
C_ITEMS = ["a", "b", "$", "_", "\u00e9", "0", "1", ".", "|", "(", ")", "*", "+", "?", "{", "}",
           "\\\\", "\\^", "\\-", "\\[", "\\]", "a-b", "0-1", "_-a", "$-a", "a-\u00e9", "\\--a", "\\p{IsLatin-1Supplement}"]
C_NOTFIRST = ["^", "^-a"]          # a leading '^' would negate
C_EDGE = ["-"]                     # literal '-' only first or last


@lru_cache(None)
def e_classes(n):
    """bracket expressions of n units: one per item, one for the negation, 2 + items for a subtraction"""
    out = []
    for neg in (0, 1):
        k = n - neg
        if k < 1:
            continue
        for items in itertools.product(C_ITEMS + C_NOTFIRST + C_EDGE, repeat=k):
            if not neg and items[0] in C_NOTFIRST:
                continue
            if any(it in C_EDGE and 0 < i < k - 1 for i, it in enumerate(items)):
                continue
            if k > 1 and items[0] == "-" and items[1].startswith("-"):
                continue
            out.append("[" + ("^" if neg else "") + "".join(items) + "]")
    # class subtraction (never agrees with PCRE2): base of n - 3 units minus a one item class
    if n >= 4:
        for base in e_classes(n - 3):
            if "-[" in base or base.endswith("-]"):
                continue
            for it in ("a", "b", "^x", "a-b"):
                out.append(base[:-1] + "-[" + it.replace("x", "a") + "]]")
    return out


@lru_cache(None)
def e_atoms(n):
    out = []
    if n == 1:
        out += E_CHARS + ["."] + E_ESCS
    if n >= 1:
        out += ["(" + r + ")" for r in e_regexps(n - 1)]
    if n >= 2:
        out += e_classes(n - 1)
    return out


@lru_cache(None)
def e_pieces(n):
    out = list(e_atoms(n))
    if n >= 2:
        out += [a + q for a in e_atoms(n - 1) for q in E_QUANTS]
    return out


@lru_cache(None)
def e_branches(n):
    if n == 0:
        return [""]
    out = []
    for k in range(1, n + 1):
        for p in e_pieces(k):
            for b in e_branches(n - k):
                out.append(p + b)
    return out


@lru_cache(None)
def e_regexps(n):
    out = list(e_branches(n))
    for k in range(0, n):
        for b in e_branches(k):
            for r in e_regexps(n - 1 - k):
                out.append(b + "|" + r)
    return out


# ----------------------------------------------------------------------------------------------------
# pattern features -> expected deviation tag
# ----------------------------------------------------------------------------------------------------
def scan(pat):
    """yield (kind, text, in_class) for the lexical units of an XSD pattern: kind in esc, chr"""
    i = 0
    depth = 0
    out = []
    while i < len(pat):
        c = pat[i]
        if c == "\\" and i + 1 < len(pat):
            out.append(("esc", pat[i:i + 2], depth > 0))
            i += 2
            continue
        if c == "[":
            if depth > 0:
                out.append(("sub", "-[", True))
            depth += 1
        elif c == "]" and depth:
            depth -= 1
        else:
            out.append(("chr", c, depth > 0))
        i += 1
    return out


def posix_like(pat):
    """PCRE2's check_posix_syntax(): '[' followed by ':', '.' or '=' and later the same character followed by ']'"""
    for i in range(len(pat) - 1):
        if pat[i] != "[" or pat[i + 1] not in ":.=" or (i and pat[i - 1] == "\\" and not pat[:i].endswith("\\\\")):
            continue
        term = pat[i + 1]
        j = i + 2
        while len(pat) - j >= 2:
            if pat[j] == "\\" and pat[j + 1] in "]\\":
                j += 1
            elif (pat[j] == "[" and pat[j + 1] == term) or pat[j] == "]":
                break
            elif pat[j] == term and pat[j + 1] == "]":
                return True
            j += 1
    return False


SHADOWED = ["GreekExtended", "BopomofoExtended", "CJKCompatibilityIdeographs", "ArabicPresentationForms-A",
            "CJKCompatibilityForms", "ArabicPresentationForms-B"]
DUMMY_RANGE = b"[\\x{0000}-\\x{007F}]"


def depth_confused(pat):
    """replays the two passes of the rewrite on the pattern: True when, at some occurrence of \\p{Is, the bracket
    counter of lys_compile_pattern_chblocks_xmlschema2perl() (a bracket is escaped iff the PREVIOUS BYTE is a backslash)
    and the bracket depth with proper escape tracking disagree about being 0 (defect D3 of Rewrite.v)"""
    b = pat.encode("utf-8") if isinstance(pat, str) else bytes(pat)
    if b"\\p{Is" not in b or b"\\\\" not in b:
        return False
    # first pass: a backslash before every unescaped '^' / '$' outside brackets
    q = bytearray()
    brack = 0
    esc = False
    for c in b:
        if c == 0x5c:
            esc = not esc
            q.append(c)
            continue
        if c in (0x24, 0x5e) and not brack and not esc:
            q.append(0x5c)
        elif c == 0x5b and not esc:
            brack += 1
        elif c == 0x5d and not esc:
            if not brack:
                return False
            brack -= 1
        q.append(c)
        esc = False
    b = bytes(q)
    for _ in range(len(b) + 1):
        pos = b.find(b"\\p{Is")
        if pos < 0:
            return False
        end = b.find(b"}", pos)
        if end < 0 or not any(b.startswith(n.encode(), pos + 5) for n in BLOCKS):
            return False
        lb = 0
        proper = 0
        esc = False
        for i in range(pos):
            c = b[i]
            if c in (0x5b, 0x5d) and (i == 0 or b[i - 1] != 0x5c):
                lb += 1 if c == 0x5b else -1
            if c == 0x5c:
                esc = not esc
                continue
            if c in (0x5b, 0x5d) and not esc:
                proper += 1 if c == 0x5b else -1
            esc = False
        if (lb == 0) != (proper == 0):
            return True
        b = b[:pos] + (DUMMY_RANGE if lb == 0 else DUMMY_RANGE[1:-1]) + b[end + 1:]
    return False


def features(pat):
    f = set()
    if posix_like(pat):
        f.add("re-posix-class")
    if depth_confused(pat):
        f.add("re-block-after-backslash")
    for kind, t, inc in scan(pat):
        if kind == "esc":
            if t[1] == "P" and "\\P{Is" in pat:
                f.add("re-block-negated")
            elif t[1] == "p" and "\\p{Is" in pat:
                if any("\\p{Is%s}" % n in pat for n in SHADOWED):
                    f.add("re-block-prefix")
                if "\\p{IsSpecials}" in pat:
                    f.add("re-block-specials")
            elif t[1] in "icIC":
                f.add("re-esc-" + t[1])
            elif t[1] in "wW":
                f.add("w")
            elif t[1] in "sS":
                f.add("s")
        elif kind == "sub":
            f.add("re-subtraction")
        elif kind == "chr" and t == "." and not inc:
            f.add("dot")
    return f


# deviations that depend on the pattern only, in the order in which they are blamed
DEV_ORDER = ["re-block-after-backslash", "re-block-prefix", "re-block-specials", "re-block-negated", "re-esc-i", "re-esc-I",
             "re-esc-c", "re-esc-C", "re-subtraction", "re-posix-class"]
S_EXTRA = "\x0b\x0c\x1c\x1d\x1e\x1f\u0085\u00a0\u1680\u2000\u2001\u2002\u2003\u2004\u2005\u2006\u2007\u2008\u2009\u200a\u2028\u2029\u202f\u205f\u3000"


def expected_dev(pat):
    """the pattern contains a construct on which libyang is known to deviate from XSD for some string (used to keep such
    patterns out of the quick tier, where only the recorded witnesses of the known findings are run)"""
    f = features(pat)
    for t in DEV_ORDER:
        if t in f:
            return t
    if "w" in f:
        return "re-w"
    return None


def classify(pat, s):
    """known deviation that explains a disagreement on (pattern, string), or None"""
    f = features(pat)
    for t in DEV_ORDER:
        if t in f:
            return t
    if "w" in f:
        if "_" in s:
            return "re-w-underscore"
        if any(unicodedata.category(ch)[0] in "SM" for ch in s):
            return "re-w-symbol"
    if "dot" in f and "\r" in s:
        return "re-dot-cr"
    if "s" in f and any(ch in S_EXTRA for ch in s):
        return "re-s-unicode"
    return None


# regression cases of the two fixed defects: must agree with the XSD reference in every tier
REGRESSION = [
    ("a\\^b", ["a^b", "a\\^b", "ab", "a\\b"]),                       # 97840a6 (was re-escaped-anchor)
    ("\\^+[$]\\^", ["^$^", "^^^$^", "\\^$^"]),
    ("\\p{IsGreek}", ["\u03b1", "a", "\u0370", "\u03ff", "\u0400"]),     # 0ef0929 (was re-block-index)
    ("[\\p{IsGreek}a]+", ["\u03b1a", "b", "\u00e9"]),
    ("[^\\p{IsBasicLatin}]", ["\u00e9", "a"]),
    ("\\[\\p{IsCyrillic}", ["[\u0416", "[a"]),
]

# one canonical (pattern, string) per known finding; run in every tier (the same cases are the replay recipes of
# known_findings.d/regex.json)
WITNESSES = [
    ("\\w", "_"),                           # re-w-underscore (PCRE2 yes, XSD no)
    ("\\w", "$"),                           # re-w-symbol (PCRE2 no, XSD yes: Sc is not P, Z or C)
    ("\\i", "a"),                           # re-esc-i
    ("\\I", "1"),                           # re-esc-I
    ("\\c+", "ab"),                         # re-esc-c
    ("\\C", "a"),                           # re-esc-C
    ("[a-z-[aeiou]]", "b"),                 # re-subtraction (rejected) ...
    ("[a-z-[aeiou]]", "a]"),                # ... and accepted
    ("[..]", "."),                          # re-posix-class
    ("\\P{IsBasicLatin}", "\u00e9"),        # re-block-negated
    ("\\p{IsGreekExtended}", "\u1f00"),     # re-block-prefix (rejected) ...
    ("\\p{IsGreekExtended}", "\u03b1"),     # ... and accepted
    ("\\p{IsSpecials}", "\ufffd"),          # re-block-specials
    ("\\\\[a]\\p{IsGreek}", "\\a\u03b1"),    # re-block-after-backslash
    (".", "\r"),                            # re-dot-cr
    ("\\s", "\u00a0"),                      # re-s-unicode
    ("((){0,2}|:){10,12}:{0}", "::("),      # re-match-limit
    ("(a?){24}a{24}", "a" * 24),            # re-match-limit-member
]


# ----------------------------------------------------------------------------------------------------
# random larger patterns (AST -> text, with a sampler of candidate members)
# ----------------------------------------------------------------------------------------------------
R_CHARS = ["a", "b", "^", "$", "-", "_", "\u00e9", "0", "1", ",", "A", "\u00c9", " ", "7", "z", ":", "=", "\u00b5", "#"]
R_ESC = [("\\\\", "\\"), ("\\.", "."), ("\\-", "-"), ("\\|", "|"), ("\\(", "("), ("\\)", ")"), ("\\*", "*"), ("\\+", "+"),
         ("\\?", "?"), ("\\{", "{"), ("\\}", "}"), ("\\[", "["), ("\\]", "]"), ("\\n", "\n"), ("\\t", "\t"), ("\\r", "\r"),
         ("\\^", "^"), ("\\^", "^")]
R_SETS = [("\\d", "07"), ("\\D", "a_ \u00e9"), ("\\s", " \t\n"), ("\\S", "a^\u00e9"), ("\\p{L}", "aZ\u00e9\u00aa"),
          ("\\p{Lu}", "A\u00c9"), ("\\p{Ll}", "a\u00e9\u00b5"), ("\\p{Nd}", "19"), ("\\p{N}", "1\u00b2"), ("\\P{L}", "1_ "),
          ("\\p{P}", "_-!"), ("\\p{S}", "$^+"), ("\\p{Sc}", "$\u00a3"), ("\\p{Z}", " \u00a0"), ("\\P{Nd}", "a\u00e9"),
          ("\\p{Pd}", "-"), ("\\p{Sk}", "^`")]
# blocks that libyang translates correctly (since 0ef0929): part of the ordinary vocabulary, in every tier


def block_ranges():
    """name -> (lo, hi) scraped from the table in lys_compile_pattern_chblocks_xmlschema2perl() of the tree under check"""
    import re
    src = open(os.path.join(vlib.REPO, "src", "schema_compile_node.c"), encoding="utf-8", errors="replace").read()
    out = {}
    for name, lo, hi in re.findall(r'\{"([A-Za-z0-9-]+)", "\[\\\\x\{([0-9A-F]{4})\}-\\\\x\{([0-9A-F]{4})\}\]"\}', src):
        out[name] = (int(lo, 16), int(hi, 16))
    return out


R_BLOCKS = [("\\p{IsBasicLatin}", "a~^$"), ("\\p{IsLatin-1Supplement}", "\u00e9\u00ff"), ("\\p{IsGreek}", "\u03b1\u03c9"),
            ("\\p{IsCyrillic}", "\u0416"), ("\\p{IsBasicLatin}", "a_-"), ("\\p{IsLatin-1Supplement}", "\u00b5\u00c9")]
# constructs on which libyang deviates from XSD (known findings): thorough tier only
R_DEV = [("\\w", "a_$1"), ("\\W", "_$ -"), ("\\i", "a_:"), ("\\c", "a1-."), ("\\I", "1-"), ("\\C", " $"),
         ("\\P{IsBasicLatin}", "\u00e9\u03b1"), ("\\p{IsGreekExtended}", "\u1f00\u03b1"), ("\\p{IsSpecials}", "\ufffd\ufeff"),
         ("\\p{IsCJKCompatibilityForms}", "\ufe30\u3300"), ("\\\\[a]\\p{IsGreek}", "\u03b1"), ("\\\\\\p{IsGreek}", "\u03b1")]
R_STR = ["a", "b", "^", "$", "_", "\u00e9", "-", "0", "1", "7", "A", "\u00c9", " ", "\t", "z", ".", "|", "(", "]", "\\", ",", ":", "\u00b5",
         "\u00b2", "{", "+", "*", "\u03b1", "\u0416"]
CAT_ESC = __import__("re").compile(r"\\[pP]\{(?!Is)|\\[dDwWiIcC]")


def latin1_only(pat):
    """the XSD reference knows general categories, \\w, \\d, \\i and \\c exactly for U+0000..U+00FF only (Xsd.v): patterns
    that use them are run on strings of that range"""
    return CAT_ESC.search(pat) is not None


def r_class(rng, dev):
    neg = rng.random() < 0.3
    n = rng.randint(1, 4)
    items = []
    samp = []
    for i in range(n):
        k = rng.random()
        if k < 0.45:
            c = rng.choice([x for x in R_CHARS if x not in "-^"] + [".", "|", "(", ")", "*", "+", "?", "{", "}"])
            items.append(c)
            samp.append(c)
        elif k < 0.6:
            lo, hi = sorted(rng.sample(["0", "9", "A", "Z", "a", "f", "z", "\u00e9", "_", "$"], 2))
            items.append(lo + "-" + hi)
            samp += [lo, hi]
        elif k < 0.75:
            t, s = rng.choice([e for e in R_ESC if e[1] in "\\-[]\n\t^"])
            items.append(t)
            samp.append(s)
        elif k < 0.9:
            t, s = rng.choice(R_SETS + R_BLOCKS + ([e for e in R_DEV if "[a]" not in e[0]] if dev and rng.random() < 0.5 else []))
            items.append(t)
            samp.append(rng.choice(s))
        elif i > 0:
            items.append("^")
            samp.append("^")
        else:
            items.append("-")
            samp.append("-")
    if rng.random() < 0.15:
        items.append("-")
        samp.append("-")
    txt = "[" + ("^" if neg else "") + "".join(items)
    if dev and rng.random() < 0.3 and items[-1] != "-":
        txt += "-[" + rng.choice(["a", "0-9", "^a", "_$"]) + "]"
    txt += "]"
    if neg:
        samp = [c for c in R_STR if c not in samp] or ["a"]
    return txt, samp


def r_atom(rng, depth, dev):
    k = rng.random()
    if k < 0.4:
        c = rng.choice(R_CHARS)
        return c, lambda r: c
    if k < 0.5:
        return ".", lambda r: r.choice(R_STR)
    if k < 0.58:
        t, s = rng.choice(R_ESC)
        return t, lambda r: s
    if k < 0.68:
        t, s = rng.choice(R_SETS if rng.random() < 0.6 else R_BLOCKS)
        return t, lambda r: r.choice(s)
    if k < 0.74 and dev:
        t, s = rng.choice(R_DEV)
        return t, lambda r: r.choice(s)
    if k < 0.88 or depth <= 0:
        t, s = r_class(rng, dev)
        return t, lambda r: r.choice(s)
    t, f = r_regexp(rng, depth - 1, dev)
    return "(" + t + ")", f


def r_piece(rng, depth, dev):
    t, f = r_atom(rng, depth, dev)
    k = rng.random()
    if k < 0.55:
        return t, f
    lo, hi, q = rng.choice([(0, 1, "?"), (0, 3, "*"), (1, 3, "+"), (2, 2, "{2}"), (0, 0, "{0}"), (1, 2, "{1,2}"), (2, 4, "{2,}"),
                            (0, 2, "{0,2}"), (3, 3, "{3}"), (2, 3, "{2,3}"), (1, 1, "{1}"), (0, 2, "{0,}"), (10, 12, "{10,12}")])
    return t + q, lambda r: "".join(f(r) for _ in range(r.randint(lo, hi)))


def r_branch(rng, depth, dev):
    ps = [r_piece(rng, depth, dev) for _ in range(rng.choice([0, 1, 1, 2, 2, 3, 3, 4, 5]))]
    return "".join(p[0] for p in ps), lambda r: "".join(p[1](r) for p in ps)


def r_regexp(rng, depth, dev):
    bs = [r_branch(rng, depth, dev) for _ in range(rng.choice([1, 1, 1, 2, 2, 3]))]
    return "|".join(b[0] for b in bs), lambda r: r.choice(bs)[1](r)


def mutate_str(rng, s):
    s = list(s)
    k = rng.random()
    if s and k < 0.35:
        del s[rng.randrange(len(s))]
    elif k < 0.7:
        s.insert(rng.randint(0, len(s)), rng.choice(R_STR))
    elif s:
        s[rng.randrange(len(s))] = rng.choice(R_STR)
    return "".join(s)


# ----------------------------------------------------------------------------------------------------
# components
# ----------------------------------------------------------------------------------------------------
class _Regex(Comp):
    driver = "t_regex"
    slice = "regex"
    extra_cflags = WRAP


R_TOK = PAT_ALPHA + ["\\p{Is", "\\p{IsGreek}", "\\p{IsBasicLatin}", "\\P{IsArabic}", "}", "\\\\", "\\[", "\\]", "\\^", "\\$", "[^", "\\p{L}",
                     "\\p{", "Is", "Greek", "p", "\\d", "[a-z]", "\\\\[", "\\\\]", "\\p{IsSpecials}", "\\p{IsCJKCompatibilityForms}", "x",
                     "\\\\\\p{IsThai}", "\\p{IsGreekExtended}"]

# the inputs on which the block rewrite indexed its table out of bounds before 0ef0929 (bracket counter below zero
# after an escaped backslash, or above the table size)
UB_PATTERNS = ["\\\\[]\\p{IsGreek}", "[\\\\[]]\\p{IsBasicLatin}", "a\\\\[b]\\p{IsThai}", "[" * 84 + "\\p{IsBasicLatin}",
               "[" * 85 + "\\p{IsBasicLatin}", "[" * 300 + "\\p{IsSpecials}", "\\\\]" * 0 + "\\\\[]\\\\[]\\p{IsGreek}"]


def ub_like(rng):
    """patterns of the shape of UB_PATTERNS: escaped backslashes directly before brackets, deep nesting, then a block"""
    pre = "".join(rng.choice(["\\\\[", "\\\\]", "[", "]", "\\[", "\\]", "a", "\\\\", "[\\\\]", "\\\\[]", "[" * rng.randint(1, 90)])
                  for _ in range(rng.randint(1, 6)))
    return pre + "\\p{Is%s}" % rng.choice(BLOCKS) + rng.choice(["", "]", "]]", "a"])


class Rewrite(_Regex):
    """lys_compile_type_pattern_check() + lys_compile_pattern_chblocks_xmlschema2perl() (text reaching
    pcre2_compile) vs Rewrite.rewrite"""
    name = "rewrite"

    def gen(self, rng, tier, scale=1.0):
        pats = []
        # every string over the pattern alphabet up to length 3 (4 in the thorough tier)
        pats += all_strings(PAT_ALPHA, 4 if tier == "thorough" else 3)
        # blocks: every name, bare / bracketed / nested / escaped contexts, prefixes, unknown, unterminated
        for b in BLOCKS:
            for ctx in ("\\p{Is%s}", "[\\p{Is%s}]", "[^\\p{Is%s}a]", "a\\p{Is%s}+$", "[a-[\\p{Is%s}]]", "\\P{Is%s}", "\\\\p{Is%s}",
                        "[\\\\]\\p{Is%s}", "\\[\\p{Is%s}", "[\\]\\p{Is%s}]", "\\p{Is%s}\\p{Is%s}", "[\\p{Is%s}\\p{Is%s}]", "^\\p{Is%s}[$]",
                        "\\p{Is%sX}", "\\p{Is%s", "\\p{Is%s}}", "[[\\p{Is%s}]", "\\\\[a]\\p{Is%s}", "\\\\\\p{Is%s}\\p{Is%s}",
                        "\\^\\p{Is%s}\\$"):
                pats.append(ctx.replace("%s", b))
            pats.append("\\p{Is%s}" % b[:-1])
            pats.append("\\p{Is%s}" % b.lower())
        for p in ("\\p{Is}", "\\p{Is", "\\p{IsFoo}", "\\p{L}", "\\p{Is}Greek}", "\\p{IsGre}ek}", "\\p{IsGreek}\\p{IsFoo}", "\\p{IsFoo}\\p{IsGreek}",
                  "\\p{IsGreek}\\p{Is", "a]\\p{IsGreek}", "\\p{IsGreek}]", "\\p{IsGreek}a]", "\\p{\\p{IsGreek}", "\\p{Is\\p{IsGreek}}",
                  "\\p{IsGreek\\}", "a\\^b", "a\\$b", "\\\\^", "\\\\\\^", "[\\^]^", "\\^\\$^$"):
            pats.append(p)
        # bracket depth 0..90 before a block (before 0ef0929 the depth selected the table entry)
        for k in range(0, 91):
            pats.append("[" * k + "\\p{IsBasicLatin}")
            pats.append("[" * k + "\\p{IsGreek}" + "]" * k)
        pats += UB_PATTERNS
        for _ in range(self.n(tier, 600, 30000, scale)):
            pats.append(ub_like(rng))
        # random token strings (mostly not valid regular expressions)
        for _ in range(self.n(tier, 4000, 300000, scale)):
            k = rng.randint(1, 10)
            pats.append("".join(rng.choice(R_TOK) for _ in range(k)))
        # valid XSD patterns from the Match generators
        for _ in range(self.n(tier, 1000, 50000, scale)):
            pats.append(r_regexp(rng, 2, True)[0])
        L = []
        for p in pats:
            if "\x00" in p:
                continue
            L.append("rewrite\t" + hexs(p))
        return L


class RewriteUB:
    """the block rewrite runs clean under ASan/UBSan on the inputs that indexed ublock2urange[] out of bounds before
    0ef0929 (bracket counter below zero after an escaped backslash, or above the table size) and on generated patterns
    of the same shape"""
    name = "rewrite-ub"
    driver = "t_regex"
    extra_cflags = WRAP
    kinds = ["asan"]
    quick_sanitize = True

    MAX_REPORTED = 3            # every crash is the same defect: the first few are reported with their input

    def __init__(self):
        self.reported = 0

    def gen(self, rng, tier, scale=1.0):
        n = int((20000 if tier == "thorough" else 120) * scale)
        return ["rewrite\t" + hexs(p) for p in UB_PATTERNS + [ub_like(rng) for _ in range(n)]]

    def judge(self, line, out):
        if out.startswith("CRASH") or out.startswith("TIMEOUT"):
            self.reported += 1
            if self.reported > self.MAX_REPORTED:
                return None
            return ("re-block-oob", "pattern %r: %s (at most %d failing inputs of this oracle are reported)"
                    % (unhex(line.split("\t")[1]).decode("utf-8", "replace"), out, self.MAX_REPORTED))
        return None


PACK = 56       # strings per case line (driver limit: 64 fields)


def match_lines(pat, strs):
    L = []
    hp = hexs(pat)
    for i in range(0, len(strs), PACK):
        L.append("match\t" + hp + "\t" + "\t".join(hexs(s) for s in strs[i:i + PACK]))
    return L


class Match(_Regex):
    """C18 oracle: XSD reference (XsdParse.xsd_match) vs ly_pattern_match() and lyd_value_validate(); one case line =
    one pattern and up to 56 strings; answer per string = "<utility> <validator>", joined by ','"""
    name = "match"
    include_witnesses = True
    sanitize = False            # the sanitizer build runs Rewrite and RewriteUB; the matching itself is PCRE2's

    def gen(self, rng, tier, scale=1.0):
        L = []
        for p, ss in REGRESSION:
            L += match_lines(p, ss)
        if self.include_witnesses:
            for p, s in WITNESSES:
                L += match_lines(p, [s])
        # every block of the table that libyang translates (all but the shadowed names and Specials), outside and inside
        # brackets, on the ends of its range and their neighbours
        for name, (lo, hi) in sorted(block_ranges().items()):
            if name in SHADOWED:
                continue
            cps = [c for c in (lo, hi, lo - 1, hi + 1, (lo + hi) // 2) if 0x20 <= c <= 0xfffd and not 0xd800 <= c <= 0xdfff
                   and not 0xfdd0 <= c <= 0xfdef and c != 0x7f]
            ss = [chr(c) for c in cps] + ["a", "", chr(cps[0]) * 2]
            L += match_lines("\\p{Is%s}" % name, ss)
            L += match_lines("[^\\p{Is%s}a]" % name, ss)
            if tier == "thorough" or rng.random() < 0.3:
                L += match_lines("([b\\p{Is%s}]|\\^)+" % name, ss + ["b" + chr(cps[0]) + "^", "^^", "$"])
        strs = all_strings(STR_ALPHA, 3)
        # exhaustive small patterns; quick: sizes 0..2 and a sample of size 3, restricted to patterns where PCRE2 and XSD
        # are expected to agree; thorough: sizes 0..3 and a sample of size 4, deviating patterns included
        if tier == "thorough":
            pats = [p for n in range(0, 4) for p in e_regexps(n)]
            big = e_regexps(4) if scale >= 1.0 else []
            pats += rng.sample(big, min(len(big), int(20000 * scale)))
        else:
            pats = [p for n in range(0, 3) for p in e_regexps(n)]
            three = e_regexps(3)
            pats += rng.sample(three, min(len(three), int(1500 * scale)))
            pats = [p for p in pats if not expected_dev(p)]
        seen = set()
        for p in pats:
            if p in seen:
                continue
            seen.add(p)
            L += match_lines(p, strs)
        # random larger patterns with members, near members and random strings
        for _ in range(self.n(tier, 1500, 100000, scale)):
            dev = tier == "thorough" and rng.random() < 0.3
            p, f = r_regexp(rng, 2, dev)
            if len(p) > 120 or "'" in p or (tier != "thorough" and expected_dev(p)):
                continue
            ss = set()
            for _ in range(6):
                try:
                    m = f(rng)
                except IndexError:
                    m = ""
                ss.add(m)
                ss.add(mutate_str(rng, m))
            for _ in range(4):
                ss.add("".join(rng.choice(R_STR) for _ in range(rng.randint(0, 5))))
            ss = [s for s in ss if "\r" not in s or "dot" not in features(p) or tier == "thorough"]
            if latin1_only(p):
                ss = [s for s in ss if all(ord(ch) < 0x100 for ch in s)]
            L += match_lines(p, sorted(ss))
        return L

    def witness(self, line, model_out, impl_out):
        """every string of the line on which the implementation and the XSD reference differ is classified; the line is
        attributed to a known finding only when ALL its differences are"""
        f = line.split("\t")
        pat = unhex(f[1]).decode("utf-8", "replace")
        m = model_out.split(",")
        o = impl_out.split(",")
        found = []
        for i, h in enumerate(f[2:]):
            mi = m[i] if i < len(m) else "?"
            oi = o[i] if i < len(o) else "?"
            if mi != oi:
                s = unhex(h).decode("utf-8", "replace")
                if "X" in mi or "?" in mi:
                    return (None, "pattern %r string %r: outside the modelled XSD subset (generator or parser defect)" % (pat, s))
                if "L" in oi:
                    # the matcher gave up: two listed findings, by what XSD says (no match: the value is refused either way,
                    # with the wrong error; match: a value of the language is refused)
                    tag = {"0 0": "re-match-limit", "1 1": "re-match-limit-member"}.get(mi) if oi == "L L" else None
                else:
                    tag = classify(pat, s)
                what = "XSD says %s, ly_pattern_match/lyd_value_validate say %s" % (mi, oi)
                if oi[:1] != oi[-1:] and "L" not in oi:
                    what += " (the two entry points disagree)"
                    tag = None
                found.append((tag, "pattern %r string %r: %s" % (pat, s, what)))
        for t in found:
            if t[0] is None:
                return t
        return found[0] if found else None


class MatchList(_Regex):
    """lyplg_type_validate_patterns() through lyd_value_validate() on a leaf with several patterns, some inverted,
    vs Rewrite.validate_patterns over the XSD matcher"""
    name = "matchlist"
    sanitize = False

    def gen(self, rng, tier, scale=1.0):
        L = []
        small = [p for n in range(0, 3) for p in e_regexps(n) if not expected_dev(p)]
        strs = all_strings(STR_ALPHA, 2)
        for _ in range(self.n(tier, 400, 20000, scale)):
            k = rng.choice([1, 1, 2, 2, 3, 4])
            ps = []
            for _ in range(k):
                p = rng.choice(small) if rng.random() < 0.7 else r_regexp(rng, 1, False)[0]
                if "'" in p or expected_dev(p):
                    p = "a"
                ps.append("%d\t%s" % (rng.randrange(2), hexs(p)))
            for s in rng.sample(strs, 8):
                L.append("matchlist\t" + hexs(s) + "\t" + "\t".join(ps))
        for inv in (0, 1):
            for s in ("", "a", "b"):
                L.append("matchlist\t%s\t%d\t%s" % (hexs(s), inv, hexs("a")))
                L.append("matchlist\t%s\t%d\t%s\t%d\t%s" % (hexs(s), inv, hexs("a"), 1 - inv, hexs("a|b")))
        L.append("matchlist\t" + hexs("a"))
        return L


class EntryPoints:
    """the four entry points give the same answer for the same pattern and string: ly_pattern_match(),
    lyd_value_validate() on a leaf with the pattern, the XPath function re-match() (lyd_eval_xpath() on a data tree that
    holds string and pattern; all three through impl/t_regex.c) and the yangre tool built from the tree (exit status 0 =
    match, 2 = no match, 1 = pattern rejected). Patterns: valid XSD, deviating and malformed alike - the answers may be
    wrong with respect to XSD (that is Match), they must be the SAME."""
    name = "entry-points"
    driver = None                 # run() drives both the white-box driver and the yangre process
    kinds = ["rel"]
    YANGRE_SHARE = 0.25           # share of the (pattern, string) pairs that are also given to yangre (one process each)
    MAX_REPORTED = 5              # failing inputs reported per run

    def __init__(self):
        self.reported = 0

    def n(self, tier, quick, thorough, scale=1.0):
        return max(1, int((thorough if tier == "thorough" else quick) * scale))

    def gen(self, rng, tier, scale=1.0):
        L = []
        fixed = [(p, ss) for p, ss in REGRESSION] + [(p, [s]) for p, s in WITNESSES] + \
                [("[a", ["a"]), ("a]", ["a]"]), ("\\p{IsFoo}", ["a"]), ("\\p{IsGreek", ["a"]), ("", ["", "a"]), ("a|", ["", "a"]),
                 ("(a", ["a"]), ("a{2,1}", ["aa"]), ("\\", ["\\"]), ("a\\$b", ["a$b"]), ("-a", ["-a", "a"]), ("\\-\\-", ["--"])]
        for p, ss in fixed:
            L.append("entry\t" + hexs(p) + "\t" + "\t".join(hexs(s) for s in ss))
        small = [p for n in range(0, 3) for p in e_regexps(n)]
        strs = all_strings(STR_ALPHA, 2)
        for _ in range(self.n(tier, 500, 20000, scale)):
            k = rng.random()
            if k < 0.4:
                p = rng.choice(small)
                ss = rng.sample(strs, 6)
            elif k < 0.85:
                p, f = r_regexp(rng, 2, rng.random() < 0.3)
                ss = set()
                for _ in range(3):
                    try:
                        m = f(rng)
                    except IndexError:
                        m = ""
                    ss.add(m)
                    ss.add(mutate_str(rng, m))
                ss = sorted(ss)
            else:
                p = "".join(rng.choice(R_TOK) for _ in range(rng.randint(1, 6)))
                ss = ["".join(rng.choice(R_STR) for _ in range(rng.randint(0, 4))) for _ in range(3)]
            if "\x00" in p or len(p) > 120:
                continue
            # keep to values that every entry point can be given: valid YANG string characters, no NUL
            ss = [s for s in ss if all(ch in "\t\n\r" or ord(ch) >= 0x20 for ch in s)]
            if ss:
                L.append("entry\t" + hexs(p) + "\t" + "\t".join(hexs(s) for s in ss[:PACK]))
        return L

    def _yangre(self, exe, pat, s):
        if "'" in pat or "\n" in pat or "\r" in pat:
            return "-"
        try:
            p = subprocess.run([exe, "-p", "'" + pat + "'", "--", s], stdout=subprocess.DEVNULL, stderr=subprocess.DEVNULL, timeout=30)
        except subprocess.TimeoutExpired:
            return "T"
        return {0: "1", 2: "0", 1: "E"}.get(p.returncode, "C%d" % p.returncode)

    def run(self, lines):
        drv = vlib.build_driver("t_regex", "rel", WRAP)
        outs, _ = vlib.run_sharded(drv, lines, timeout=600)
        yangre = os.path.join(vlib.build_lib("rel"), "yangre")
        if not os.path.exists(yangre):
            return [o + "\tnoyangre" for o in outs]
        jobs = []
        rnd = __import__("random").Random(len(lines))
        for i, l in enumerate(lines):
            f = l.split("\t")
            try:
                pat = unhex(f[1]).decode("utf-8")
            except UnicodeDecodeError:
                continue
            for j, h in enumerate(f[2:]):
                if i < 40 or rnd.random() < self.YANGRE_SHARE:
                    try:
                        jobs.append((i, j, pat, unhex(h).decode("utf-8")))
                    except UnicodeDecodeError:
                        pass
        with ThreadPoolExecutor(max_workers=vlib.NCPU) as ex:
            res = list(ex.map(lambda jb: self._yangre(yangre, jb[2], jb[3]), jobs))
        ys = {}
        for (i, j, _, _), r in zip(jobs, res):
            ys.setdefault(i, {})[j] = r
        out = []
        for i, o in enumerate(outs):
            parts = o.split(",")
            if i in ys and len(parts) == len(lines[i].split("\t")) - 2:
                parts = [pt + " " + ys[i].get(j, "-") for j, pt in enumerate(parts)]
            out.append(",".join(parts))
        return out

    def judge(self, line, out):
        f = line.split("\t")
        pat = unhex(f[1]).decode("utf-8", "replace")
        if out.startswith("CRASH") or out.startswith("TIMEOUT") or out == "?":
            return (None, "pattern %r: %s" % (pat, out))
        if out.endswith("\tnoyangre"):
            return (None, "the yangre tool was not built from the tree")
        for i, ans in enumerate(out.split(",")):
            a = ans.split(" ")
            s = unhex(f[2 + i]).decode("utf-8", "replace") if 2 + i < len(f) else "?"
            # V = the string or the pattern cannot be stored in a YANG string leaf (re-match() cannot be asked),
            # - = yangre was not asked; L = the matcher gave up (yangre then exits with 1 like for a rejected pattern)
            lib = [x for x in a[:3] if x != "V"]
            y = a[3] if len(a) > 3 else "-"
            ok = len(a) >= 3 and len(set(lib)) == 1
            if ok and y != "-":
                ok = (y == lib[0]) or (lib[0] == "L" and y == "E")
            if not ok:
                self.reported += 1
                if self.reported > self.MAX_REPORTED:
                    return None
                return (None, "pattern %r string %r: ly_pattern_match / lyd_value_validate / re-match() / yangre answer %s "
                              "(at most %d failing inputs of this oracle are reported)" % (pat, s, ans, self.MAX_REPORTED))
        return None


# ----------------------------------------------------------------------------------------------------
# pattern SETS over typedef chains, yangre in both input modes
# ----------------------------------------------------------------------------------------------------
SET_PATS = ["[a-z]+", "ab.*", ".*z", ".{2,4}", "a", "b|a", "[^a]*", "(ab|c)+", "a?b?", ".", "", "[a-b]{2}", "\\^.*", ".*\\p{IsBasicLatin}",
            "[a-z]*[0-9]?", "a.*", ".*a", "\\p{IsLatin-1Supplement}+", "[^\\p{IsBasicLatin}]*", "a{1,2}", "(a|b)*", "é.*", "[$^]+", "-?a"]
SET_EASY = [".*", "[a-z]*", ".{0,6}", "[^A-Z]*", "(a|b|c|x|y|z)*", "[a-zé^$-]*", ".*z?", "a?.*", "XYZ", "[0-9]+", "q.*"]
SET_STRS = ["xyz", "abc", "abz", "XYZ", "a", "z", "abcdez", "qz", "", "ab", "x1z", "b", "ba", "aa", "^a", "é", "éa", "abab", "c", "-a", "$^"]


def r_levels(rng, pool):
    """a typedef chain: 1..4 levels (the last one is the type statement of the data node). A level is (length, patterns):
    nothing, patterns only (0..3, each with modifier invert-match with probability 0.35), a length statement only, or
    both. The length statements are nested (each restricts the one before, as YANG demands); at least one pattern in the
    whole chain."""
    while True:
        lo, hi = 0, rng.choice([4, 6, 9])
        lv = []
        for _ in range(rng.choice([1, 2, 2, 3, 3, 4])):
            kind = rng.choice(["none", "pat", "pat", "pat", "len", "len", "both", "both"])
            g = None
            if kind in ("len", "both"):
                lo2 = rng.randint(lo, hi)
                hi2 = rng.randint(lo2, hi)
                if hi2 - lo2 >= 2 and rng.random() < 0.2:
                    g = "%d|%d..%d" % (lo2, lo2 + 2, hi2)
                    lo, hi = lo2 + 2, hi2
                else:
                    g = "%d..%d" % (lo2, hi2) if (hi2 > lo2 or rng.random() < 0.5) else "%d" % lo2
                    lo, hi = lo2, hi2
            ps = []
            if kind in ("pat", "both"):
                ps = [(1 if rng.random() < 0.35 else 0, rng.choice(pool)) for _ in range(rng.choice([1, 1, 1, 2, 2, 3]))]
            lv.append((g, ps))
        if any(ps for _, ps in lv):
            return lv


def levels_fields(lv):
    out = ""
    for l in lv:
        g, ps = l if isinstance(l, tuple) else (None, l)
        out += "\tL" + ("\tG" + g if g else "") + "".join("\t%d\t%s" % (i, hexs(p)) for i, p in ps)
    return out


class TypeSet(_Regex):
    """pattern sets: the string case of lys_compile_type_() and lys_compile_type_patterns() (inherited patterns of a typedef
    chain + added ones, modifier invert-match on any of them, levels that restate length with or without patterns) and lyplg_type_validate_patterns() as seen by lyd_value_validate() on every kind of node that carries
    the type (leaf, leaf-list, union member, list key, typedef of the type, typedef of that typedef), and the conjunction
    of the single-pattern answers of ly_pattern_match() XOR the pattern's own flag and of the effective length, vs
    Rewrite.validate_string over Rewrite.chain_type with the XSD matcher (tie of C18_typeset_validate)"""
    name = "typeset"
    sanitize = False

    def gen(self, rng, tier, scale=1.0):
        L = []
        fixed = [[[(0, "[a-z]+")], [(1, "ab.*")]],                                   # seeded C18-5: inverted added to inherited
                 [[(0, "[a-z]+"), (0, ".*z")], [(0, ".{2,4}"), (1, "ab.*")]],
                 [[(0, "[a-z]+"), (1, "ab.*")]],
                 [[(1, "ab.*")], [(0, "[a-z]+")]],
                 [[(1, "a")], [], [(0, "b|a")]],
                 [[(0, "[a-z]+")], [(1, "ab.*")], [(1, ".*z")], [(0, ".{2,4}")]],
                 [[(0, "[a-z]+")], []],
                 [[], [(1, "[a-z]+")]],
                 [[(1, "a"), (1, "b")], [(1, "c")]],
                 [[(0, "a"), (0, "a")], [(1, "a")]],
                 # seeded C18-7: a level with a length statement and no pattern must keep the inherited patterns
                 [(None, [(0, "[a-z]+")]), ("1..4", [])],
                 [(None, [(1, "ab.*")]), ("1..4", [])],
                 [(None, [(0, "[a-z]+")]), ("1..4", []), (None, [(1, "ab.*")])],
                 [(None, [(0, "[a-z]+")]), ("0..5", [(0, ".*z")]), ("2..3", [])],
                 [("0..6", [(0, "[a-z]+")]), (None, []), ("1..4", []), ("2|4", [(1, "ab.*")])],
                 [("2..3", []), (None, [(0, "[a-z]+")])],
                 [("1..4", [(1, "[a-z]+")])]]
        for lv in fixed:
            for s in SET_STRS:
                L.append("typeset\t" + hexs(s) + levels_fields(lv))
        small = [p for n in range(0, 3) for p in e_regexps(n) if not expected_dev(p) and "'" not in p]
        for _ in range(self.n(tier, 350, 20000, scale)):
            k = rng.random()
            pool = SET_PATS if k < 0.4 else (SET_EASY if k < 0.75 else small)      # SET_EASY: chains that accept many strings
            lv = r_levels(rng, pool)
            strs = rng.sample(SET_STRS, 6) + rng.sample(all_strings(STR_ALPHA, 2), 3)
            for s in strs:
                L.append("typeset\t" + hexs(s) + levels_fields(lv))
        return L

    def norm(self, line, out):
        parts = out.split(" ")
        return parts[0] if len(set(parts)) == 1 else out

    def witness(self, line, model_out, impl_out):
        f = line.split("\t")
        s = unhex(f[1]).decode("utf-8", "replace")
        lv = []
        for x in f[2:]:
            if x == "L":
                lv.append([])
            elif x.startswith("G"):
                lv[-1].append("length " + x[1:])
            elif x in ("0", "1"):
                inv = x
            else:
                lv[-1].append(("!" if inv == "1" else "") + unhex(x).decode("utf-8", "replace"))
        parts = impl_out.split(" ")
        names = ["conjunction of ly_pattern_match and length", "leaf", "leaf-list", "union member", "list key", "typedef", "typedef of typedef"]
        desc = "typedef chain levels %r (! = invert-match) string %r" % (lv, s)
        if len(set(parts)) > 1:
            return (None, "%s: %s" % (desc, ", ".join("%s says %s" % (n, p) for n, p in zip(names, parts))))
        if model_out != parts[0]:
            if "X" in model_out:
                return (None, "%s: outside the modelled XSD subset" % desc)
            return (None, "%s: XSD reference says %s, every entry point says %s" % (desc, model_out, parts[0]))
        return None


YANGRE_PATS = ["a", "a ", " a", "a\\s", "\\s*", "\\s+", "[ \\t]+", ".*", "[a-z]+", "a\\s*", ".* ", " .*", "\\t", "a\\t?", "[^ ]*", ".*\\S",
               "é ?", "\\p{IsLatin-1Supplement}\\s", "a?", "", "-a", "--", "(a| )+", "a\\r", "\\ra", ".*\\r.*", "a.b", "[^\\r]*"]
YANGRE_STRS = ["a", "a ", " a", " a ", "a  ", "a\t", "\ta", "a \t", " ", "  ", "\t", " \t ", "", "abc", "abc ", "é", "é ", " é",
               "a\r", "\ra", "a\rb", "\r", "-a", "--", "a b", "a ", " ", "'", "a'"]


class YangreModes:
    """the yangre tool gives the answer of the library in BOTH its input modes: command line (-p 'pattern' [-i] ... --
    string) and file (-f <file>: pattern lines, a leading blank = invert-match, an empty line, the string) with LF line
    ends, CRLF line ends and without a line end after the string; for pattern sets with invert-match and strings with
    leading / trailing / only blanks, tabs, CR, non-ASCII characters and the empty string. Reference: the conjunction of
    ly_pattern_match() XOR inverted over the patterns, and lyd_value_validate() on a leaf with the patterns (both in
    impl/t_regex.c, which also runs the yangre binary of the same build)."""
    name = "yangre-modes"
    driver = "t_regex"
    extra_cflags = WRAP
    kinds = ["rel"]
    MAX_REPORTED = 5

    def __init__(self):
        self.reported = 0

    def n(self, tier, quick, thorough, scale=1.0):
        return max(1, int((thorough if tier == "thorough" else quick) * scale))

    def gen(self, rng, tier, scale=1.0):
        L = []
        fixed = [("a ", [(0, "a ")]), ("a ", [(0, "a")]), ("abc ", [(0, "[a-z]+")]), ("a\t", [(0, "a\\s")]), ("", [(0, "a?")]), ("", [(0, "a")]),
                 ("\ra", [(0, "\\ra")]), ("a\r", [(0, "a\\r")]), ("b", [(1, "a")]), ("b", [(1, "a"), (0, "b")]), ("a", [(1, "a"), (0, "a|b")]),
                 (" ", [(0, " ")]), (" ", [(1, "\\s")]), ("a  ", [(0, "a {2}")]), ("a  ", [(0, "a"), (1, "a ")]), ("\t", [(0, "\\t")]),
                 ("", [(1, "a")]), ("", [(1, "")]), ("x", [(0, "[a")])]
        for s, ps in fixed:
            L.append("yangre\t" + hexs(s) + "".join("\t%d\t%s" % (i, hexs(p)) for i, p in ps))
        small = [p for n in range(0, 3) for p in e_regexps(n) if not expected_dev(p) and "'" not in p]
        for _ in range(self.n(tier, 280, 8000, scale)):
            k = rng.choice([1, 1, 1, 2, 2, 3])
            ps = [(1 if rng.random() < 0.3 else 0, rng.choice(YANGRE_PATS if rng.random() < 0.75 else small)) for _ in range(k)]
            s = rng.choice(YANGRE_STRS) if rng.random() < 0.8 else "".join(rng.choice([" ", "\t", "a", "b", "é", "\r", "-"]) for _ in range(rng.randint(0, 4)))
            L.append("yangre\t" + hexs(s) + "".join("\t%d\t%s" % (i, hexs(p)) for i, p in ps))
        return L

    def judge(self, line, out):
        f = line.split("\t")
        s = unhex(f[1]).decode("utf-8", "replace")
        pats = [("!" if f[i] == "1" else "") + unhex(f[i + 1]).decode("utf-8", "replace") for i in range(2, len(f) - 1, 2)]
        desc = "patterns %r (! = invert-match) string %r" % (pats, s)
        if out.startswith("CRASH") or out.startswith("TIMEOUT"):
            return (None, "%s: %s" % (desc, out))
        a = out.split(" ")
        if len(a) != 6 or "?" in a:
            return (None, "%s: no answer (%s); is yangre built in the library build directory (ENABLE_TOOLS)?" % (desc, out))
        e, leaf = a[0], a[1]
        bad = []
        if leaf != e:
            bad.append("validator")
        for nm, y in zip(("-p", "-f LF", "-f CRLF", "-f without final line end"), a[2:]):
            if y != "-" and y != e and not (e == "L" and y == "E"):
                bad.append(nm)
        if not bad:
            return None
        tag = None
        if set(bad) <= {"-f LF", "-f CRLF"}:
            if s == "":
                tag = "re-yangre-file-empty-line"
            elif s.startswith("\r"):
                tag = "re-yangre-file-cr-start"
        if tag is None:
            self.reported += 1
            if self.reported > self.MAX_REPORTED:
                return None
        return (tag, "%s: ly_pattern_match conjunction %s, validator %s, yangre -p %s, -f LF %s, -f CRLF %s, -f no final line end %s; "
                     "differing: %s" % (desc, e, leaf, a[2], a[3], a[4], a[5], ", ".join(bad)))
