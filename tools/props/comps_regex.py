"""comps_regex.py - slice regex (property C18: YANG patterns are XSD regular expressions).

  Rewrite    exact correspondence: the text libyang hands to pcre2_compile() (captured by --wrap in
             impl/t_regex.c) vs Rewrite.rewrite; arbitrary byte strings over the regex alphabet, all
             block names, all table entries (bracket depth = entry number, defect D2 of Rewrite.v).
  Match      property oracle in Comp form: the model column is the XSD reference
             (XsdParse.xsd_match = parse, then the derivative matcher proved correct against
             in_lang); the implementation column is what ly_pattern_match() and lyd_value_validate()
             answer. Patterns are generated from the XSD grammar (valid by construction), so every
             disagreement is a deviation of libyang from C18; witness() classifies it.
  MatchList  several patterns on one leaf, some with invert-match, vs Rewrite.validate_patterns over
             the XSD matcher (tie of C18_invert_match).
  RewriteUB  oracle (sanitizer build): patterns on which the block rewrite indexes its table out of
             bounds (defect D3 of Rewrite.v); the model answers UB for them, so they are kept out of
             the Rewrite correspondence.

Deviation tags returned by Match.witness():
  re-escaped-anchor      \\^ outside brackets is rewritten to \\\\^ (backslash + anchor), never matches '^'
  re-block-index         \\p{IsX} is replaced by the range of table entry (bracket depth), not of X
  re-w-underscore        \\w / \\W are PCRE2's (letters, digits, '_'), XSD's \\w is everything but P, Z, C
  re-unsupported-escape  \\i \\c \\I \\C are not translated (PCRE2: error, control escape, code unit)
  re-subtraction         [a-z-[aeiou]] is read by PCRE2 as a class followed by a literal ']'
  re-posix-class         a bracket expression that starts with '.', ':' or '=' and ends with the same character, e.g.
                         [..] or [=a=], is rejected by PCRE2 as a POSIX collating element / class name
  re-match-limit         pcre2_match() gives up (match limit) on nested quantifiers: the value is rejected with an
                         internal error whatever the XSD answer is
  re-block-oob           the block rewrite reads ublock2urange[] out of bounds (see RewriteUB); answers are arbitrary
  re-dot-cr              '.' matches CR (XSD: [^\\n\\r])
  re-s-unicode           \\s matches VT, FF, NEL, NBSP ... (PCRE2_UCP), XSD: only space, TAB, LF, CR
"""
import itertools
from functools import lru_cache

from props.comps import Comp
from vlib import hexs, unhex

WRAP = "-Wl,--wrap=pcre2_compile_8"

# ----------------------------------------------------------------------------------------------------
# alphabets
# ----------------------------------------------------------------------------------------------------
PAT_ALPHA = ["a", "b", "^", "$", "\\", "[", "]", "-", ".", "|", "(", ")", "*", "+", "?", "{", "}", "0", "1", "_", "\u00e9"]
STR_ALPHA = ["a", "b", "^", "$", "_", "\u00e9", "-"]

BLOCKS = ["BasicLatin", "Latin-1Supplement", "LatinExtended-A", "LatinExtended-B", "IPAExtensions",
          "SpacingModifierLetters", "CombiningDiacriticalMarks", "Greek", "Cyrillic", "Armenian", "Hebrew", "Arabic",
          "Syriac", "Thaana", "Devanagari", "Bengali", "Gurmukhi", "Gujarati", "Oriya", "Tamil", "Telugu", "Kannada",
          "Malayalam", "Sinhala", "Thai", "Lao", "Tibetan", "Myanmar", "Georgian", "HangulJamo", "Ethiopic", "Cherokee",
          "UnifiedCanadianAboriginalSyllabics", "Ogham", "Runic", "Khmer", "Mongolian", "LatinExtendedAdditional",
          "GreekExtended", "GeneralPunctuation", "SuperscriptsandSubscripts", "CurrencySymbols",
          "CombiningMarksforSymbols", "LetterlikeSymbols", "NumberForms", "Arrows", "MathematicalOperators",
          "MiscellaneousTechnical", "ControlPictures", "OpticalCharacterRecognition", "EnclosedAlphanumerics",
          "BoxDrawing", "BlockElements", "GeometricShapes", "MiscellaneousSymbols", "Dingbats", "BraillePatterns",
          "CJKRadicalsSupplement", "KangxiRadicals", "IdeographicDescriptionCharacters", "CJKSymbolsandPunctuation",
          "Hiragana", "Katakana", "Bopomofo", "HangulCompatibilityJamo", "Kanbun", "BopomofoExtended",
          "EnclosedCJKLettersandMonths", "CJKCompatibility", "CJKUnifiedIdeographsExtensionA", "CJKUnifiedIdeographs",
          "YiSyllables", "YiRadicals", "HangulSyllables", "PrivateUse", "CJKCompatibilityIdeographs",
          "AlphabeticPresentationForms", "ArabicPresentationForms-A", "CombiningHalfMarks", "CJKCompatibilityForms",
          "SmallFormVariants", "ArabicPresentationForms-B", "HalfwidthandFullwidthForms", "Specials"]


def all_strings(alpha, maxlen):
    out = []
    for n in range(maxlen + 1):
        for t in itertools.product(alpha, repeat=n):
            out.append("".join(t))
    return out


# ----------------------------------------------------------------------------------------------------
# exhaustive enumeration of XSD regular expressions by size (number of grammar units)
# ----------------------------------------------------------------------------------------------------
E_CHARS = ["a", "b", "^", "$", "-", "_", "\u00e9", "0", "1"]
E_ESCS = ["\\\\", "\\^", "\\.", "\\-", "\\|", "\\(", "\\)", "\\*", "\\+", "\\?", "\\{", "\\}", "\\[", "\\]"]
E_QUANTS = ["?", "*", "+", "{0}", "{1}", "{0,1}", "{1,}", "{0,}", "{1,1}", "{01}"]
# bracket expression items: (text, may be first, may be anywhere else)
C_ITEMS = ["a", "b", "$", "_", "\u00e9", "0", "1", ".", "|", "(", ")", "*", "+", "?", "{", "}",
           "\\\\", "\\^", "\\-", "\\[", "\\]", "a-b", "0-1", "_-a", "$-a", "a-\u00e9", "\\--a"]
C_NOTFIRST = ["^", "^-a"]          # a leading '^' would negate
C_EDGE = ["-"]                     # literal '-' only first or last


@lru_cache(None)
def e_classes(n):
    """bracket expressions of n units: one per item, one for the negation, 2 + items for a subtraction"""
    out = []
    for neg in (0, 1):
        k = n - neg
        if k < 1:
            continue
        for items in itertools.product(C_ITEMS + C_NOTFIRST + C_EDGE, repeat=k):
            if not neg and items[0] in C_NOTFIRST:
                continue
            if any(it in C_EDGE and 0 < i < k - 1 for i, it in enumerate(items)):
                continue
            if k > 1 and items[0] == "-" and items[1].startswith("-"):
                continue
            out.append("[" + ("^" if neg else "") + "".join(items) + "]")
    # class subtraction (never agrees with PCRE2): base of n - 3 units minus a one item class
    if n >= 4:
        for base in e_classes(n - 3):
            if "-[" in base or base.endswith("-]"):
                continue
            for it in ("a", "b", "^x", "a-b"):
                out.append(base[:-1] + "-[" + it.replace("x", "a") + "]]")
    return out


@lru_cache(None)
def e_atoms(n):
    out = []
    if n == 1:
        out += E_CHARS + ["."] + E_ESCS
    if n >= 1:
        out += ["(" + r + ")" for r in e_regexps(n - 1)]
    if n >= 2:
        out += e_classes(n - 1)
    return out


@lru_cache(None)
def e_pieces(n):
    out = list(e_atoms(n))
    if n >= 2:
        out += [a + q for a in e_atoms(n - 1) for q in E_QUANTS]
    return out


@lru_cache(None)
def e_branches(n):
    if n == 0:
        return [""]
    out = []
    for k in range(1, n + 1):
        for p in e_pieces(k):
            for b in e_branches(n - k):
                out.append(p + b)
    return out


@lru_cache(None)
def e_regexps(n):
    out = list(e_branches(n))
    for k in range(0, n):
        for b in e_branches(k):
            for r in e_regexps(n - 1 - k):
                out.append(b + "|" + r)
    return out


# ----------------------------------------------------------------------------------------------------
# pattern features -> expected deviation tag
# ----------------------------------------------------------------------------------------------------
def scan(pat):
    """yield (kind, text, in_class) for the lexical units of an XSD pattern: kind in esc, chr"""
    i = 0
    depth = 0
    out = []
    while i < len(pat):
        c = pat[i]
        if c == "\\" and i + 1 < len(pat):
            out.append(("esc", pat[i:i + 2], depth > 0))
            i += 2
            continue
        if c == "[":
            if depth > 0:
                out.append(("sub", "-[", True))
            depth += 1
        elif c == "]" and depth:
            depth -= 1
        else:
            out.append(("chr", c, depth > 0))
        i += 1
    return out


def posix_like(pat):
    """PCRE2's check_posix_syntax(): '[' followed by ':', '.' or '=' and later the same character followed by ']'"""
    for i in range(len(pat) - 1):
        if pat[i] != "[" or pat[i + 1] not in ":.=" or (i and pat[i - 1] == "\\" and not pat[:i].endswith("\\\\")):
            continue
        term = pat[i + 1]
        j = i + 2
        while len(pat) - j >= 2:
            if pat[j] == "\\" and pat[j + 1] in "]\\":
                j += 1
            elif (pat[j] == "[" and pat[j + 1] == term) or pat[j] == "]":
                break
            elif pat[j] == term and pat[j + 1] == "]":
                return True
            j += 1
    return False


def features(pat):
    f = set()
    if posix_like(pat):
        f.add("re-posix-class")
    for kind, t, inc in scan(pat):
        if kind == "esc":
            if t[1] in "pP" and ("\\%s{Is" % t[1]) in pat:
                f.add("re-block-index")
            elif t[1] in "^$" and not inc:
                f.add("re-escaped-anchor")
            elif t[1] in "icIC":
                f.add("re-unsupported-escape")
            elif t[1] in "wW":
                f.add("re-w-underscore")
            elif t[1] in "sS":
                f.add("s")
        elif kind == "sub":
            f.add("re-subtraction")
        elif kind == "chr" and t == "." and not inc:
            f.add("dot")
    return f


DEV_ORDER = ["re-block-index", "re-escaped-anchor", "re-unsupported-escape", "re-subtraction", "re-posix-class", "re-w-underscore"]
S_EXTRA = "\x0b\x0c\x1c\x1d\x1e\x1f\u0085\u00a0\u1680\u2000\u2001\u2002\u2003\u2004\u2005\u2006\u2007\u2008\u2009\u200a\u2028\u2029\u202f\u205f\u3000"


def expected_dev(pat):
    f = features(pat)
    for t in DEV_ORDER:
        if t in f:
            return t
    return None


def classify(pat, s):
    """documented deviation that explains a disagreement on (pattern, string), or None"""
    f = features(pat)
    for t in DEV_ORDER:
        if t in f:
            return t
    if "dot" in f and "\r" in s:
        return "re-dot-cr"
    if "s" in f and any(ch in S_EXTRA for ch in s):
        return "re-s-unicode"
    return None


# one canonical (pattern, string) per documented deviation; replayed in every tier
WITNESSES = [
    ("a\\^b", "a^b"),                       # re-escaped-anchor
    ("\\p{IsGreek}", "\u03b1"),             # re-block-index (rejected) ...
    ("\\p{IsGreek}", "a"),                  # ... and accepted
    ("\\w", "_"),                           # re-w-underscore (PCRE2 yes, XSD no)
    ("\\w", "$"),                           # re-w-underscore (PCRE2 no, XSD yes: Sc is not P, Z or C)
    ("\\i\\c*", "ab"),                      # re-unsupported-escape
    ("[a-z-[aeiou]]", "b"),                 # re-subtraction (rejected) ...
    ("[a-z-[aeiou]]", "a]"),                # ... and accepted
    ("[..]", "."),                          # re-posix-class
    (".", "\r"),                            # re-dot-cr
    ("\\s", "\u00a0"),                      # re-s-unicode
]


# ----------------------------------------------------------------------------------------------------
# random larger patterns (AST -> text, with a sampler of candidate members)
# ----------------------------------------------------------------------------------------------------
R_CHARS = ["a", "b", "^", "$", "-", "_", "\u00e9", "0", "1", ",", "A", "\u00c9", " ", "7", "z", ":", "=", "\u00b5", "#"]
R_ESC = [("\\\\", "\\"), ("\\.", "."), ("\\-", "-"), ("\\|", "|"), ("\\(", "("), ("\\)", ")"), ("\\*", "*"), ("\\+", "+"),
         ("\\?", "?"), ("\\{", "{"), ("\\}", "}"), ("\\[", "["), ("\\]", "]"), ("\\n", "\n"), ("\\t", "\t"), ("\\r", "\r")]
R_SETS = [("\\d", "07"), ("\\D", "a_ \u00e9"), ("\\s", " \t\n"), ("\\S", "a^\u00e9"), ("\\p{L}", "aZ\u00e9\u00aa"),
          ("\\p{Lu}", "A\u00c9"), ("\\p{Ll}", "a\u00e9\u00b5"), ("\\p{Nd}", "19"), ("\\p{N}", "1\u00b2"), ("\\P{L}", "1_ "),
          ("\\p{P}", "_-!"), ("\\p{S}", "$^+"), ("\\p{Sc}", "$\u00a3"), ("\\p{Z}", " \u00a0"), ("\\P{Nd}", "a\u00e9"),
          ("\\p{Pd}", "-"), ("\\p{Sk}", "^`")]
R_DEV = [("\\^", "^"), ("\\w", "a_$1"), ("\\W", "_$ -"), ("\\i", "a_:"), ("\\c", "a1-."), ("\\I", "1-"), ("\\C", " $"),
         ("\\p{IsBasicLatin}", "a~"), ("\\p{IsLatin-1Supplement}", "\u00e9\u00ff"), ("\\p{IsGreek}", "\u03b1\u03c9"),
         ("\\P{IsBasicLatin}", "\u00e9\u03b1"), ("\\p{IsCyrillic}", "\u0416")]
R_STR = ["a", "b", "^", "$", "_", "\u00e9", "-", "0", "1", "7", "A", "\u00c9", " ", "\t", "z", ".", "|", "(", "]", "\\", ",", ":", "\u00b5",
         "\u00b2", "{", "+", "*"]


def r_class(rng, dev):
    neg = rng.random() < 0.3
    n = rng.randint(1, 4)
    items = []
    samp = []
    for i in range(n):
        k = rng.random()
        if k < 0.45:
            c = rng.choice([x for x in R_CHARS if x not in "-^"] + [".", "|", "(", ")", "*", "+", "?", "{", "}"])
            items.append(c)
            samp.append(c)
        elif k < 0.6:
            lo, hi = sorted(rng.sample(["0", "9", "A", "Z", "a", "f", "z", "\u00e9", "_", "$"], 2))
            items.append(lo + "-" + hi)
            samp += [lo, hi]
        elif k < 0.75:
            t, s = rng.choice([e for e in R_ESC if e[1] in "\\-[]\n\t"] + [("\\^", "^")])
            items.append(t)
            samp.append(s)
        elif k < 0.9:
            t, s = rng.choice(R_SETS + (R_DEV[1:] if dev and rng.random() < 0.5 else []))
            items.append(t)
            samp.append(rng.choice(s))
        elif i > 0:
            items.append("^")
            samp.append("^")
        else:
            items.append("-")
            samp.append("-")
    if rng.random() < 0.15:
        items.append("-")
        samp.append("-")
    txt = "[" + ("^" if neg else "") + "".join(items)
    if dev and rng.random() < 0.3 and items[-1] != "-":
        txt += "-[" + rng.choice(["a", "0-9", "^a", "_$"]) + "]"
    txt += "]"
    if neg:
        samp = [c for c in R_STR if c not in samp] or ["a"]
    return txt, samp


def r_atom(rng, depth, dev):
    k = rng.random()
    if k < 0.4:
        c = rng.choice(R_CHARS)
        return c, lambda r: c
    if k < 0.5:
        return ".", lambda r: r.choice(R_STR)
    if k < 0.58:
        t, s = rng.choice(R_ESC)
        return t, lambda r: s
    if k < 0.68:
        t, s = rng.choice(R_SETS)
        return t, lambda r: r.choice(s)
    if k < 0.74 and dev:
        t, s = rng.choice(R_DEV)
        return t, lambda r: r.choice(s)
    if k < 0.88 or depth <= 0:
        t, s = r_class(rng, dev)
        return t, lambda r: r.choice(s)
    t, f = r_regexp(rng, depth - 1, dev)
    return "(" + t + ")", f


def r_piece(rng, depth, dev):
    t, f = r_atom(rng, depth, dev)
    k = rng.random()
    if k < 0.55:
        return t, f
    lo, hi, q = rng.choice([(0, 1, "?"), (0, 3, "*"), (1, 3, "+"), (2, 2, "{2}"), (0, 0, "{0}"), (1, 2, "{1,2}"), (2, 4, "{2,}"),
                            (0, 2, "{0,2}"), (3, 3, "{3}"), (2, 3, "{2,3}"), (1, 1, "{1}"), (0, 2, "{0,}"), (10, 12, "{10,12}")])
    return t + q, lambda r: "".join(f(r) for _ in range(r.randint(lo, hi)))


def r_branch(rng, depth, dev):
    ps = [r_piece(rng, depth, dev) for _ in range(rng.choice([0, 1, 1, 2, 2, 3, 3, 4, 5]))]
    return "".join(p[0] for p in ps), lambda r: "".join(p[1](r) for p in ps)


def r_regexp(rng, depth, dev):
    bs = [r_branch(rng, depth, dev) for _ in range(rng.choice([1, 1, 1, 2, 2, 3]))]
    return "|".join(b[0] for b in bs), lambda r: r.choice(bs)[1](r)


def mutate_str(rng, s):
    s = list(s)
    k = rng.random()
    if s and k < 0.35:
        del s[rng.randrange(len(s))]
    elif k < 0.7:
        s.insert(rng.randint(0, len(s)), rng.choice(R_STR))
    elif s:
        s[rng.randrange(len(s))] = rng.choice(R_STR)
    return "".join(s)


# ----------------------------------------------------------------------------------------------------
# components
# ----------------------------------------------------------------------------------------------------
class _Regex(Comp):
    driver = "t_regex"
    slice = "regex"
    extra_cflags = WRAP


def ub_possible(pat):
    """the block rewrite would index ublock2urange out of range for some occurrence of \\p{Is (defect D3 of Rewrite.v:
    the bracket counter, which skips a bracket when the previous byte is a backslash, is not in 0..83 there). This
    replays the loop of lys_compile_pattern_chblocks_xmlschema2perl() on the pattern (the inserted backslashes of the
    first pass stand before '^' / '$' only and do not change the count); it only FILTERS generated cases, the model
    answers UB for them and a wrong filter shows up as a mismatch."""
    b = pat.encode("utf-8") if isinstance(pat, str) else bytes(pat)
    for _ in range(len(b) + 1):
        pos = b.find(b"\\p{Is")
        if pos < 0:
            return False
        end = b.find(b"}", pos)
        if end < 0 or not any(b.startswith(n.encode(), pos + 5) for n in BLOCKS):
            return False
        cnt = 0
        for i in range(pos):
            if b[i] == 0x5b and (i == 0 or b[i - 1] != 0x5c):
                cnt += 1
            if b[i] == 0x5d and (i == 0 or b[i - 1] != 0x5c):
                cnt -= 1
        if cnt < 0 or cnt > 83:
            return True
        b = b[:pos] + (b"[BBBBBBBBBBBBBBBBB]" if cnt == 0 else b"BBBBBBBBBBBBBBBBB") + b[end + 1:]
    return True


R_TOK = PAT_ALPHA + ["\\p{Is", "\\p{IsGreek}", "\\p{IsBasicLatin}", "\\P{IsArabic}", "}", "\\\\", "\\[", "\\]", "\\^", "\\$", "[^", "\\p{L}",
                     "\\p{", "Is", "Greek", "p", "\\d", "[a-z]", "\\\\[", "\\\\]", "\\p{IsSpecials}", "\\p{IsCJKCompatibilityForms}", "x"]

UB_PATTERNS = ["\\\\[]\\p{IsGreek}", "[\\\\[]]\\p{IsBasicLatin}", "a\\\\[b]\\p{IsThai}", "[" * 84 + "\\p{IsBasicLatin}",
               "[" * 85 + "\\p{IsBasicLatin}"]


class Rewrite(_Regex):
    """lys_compile_type_pattern_check() + lys_compile_pattern_chblocks_xmlschema2perl() (text reaching
    pcre2_compile) vs Rewrite.rewrite"""
    name = "rewrite"

    def gen(self, rng, tier, scale=1.0):
        pats = []
        # every string over the pattern alphabet up to length 3 (4 in the thorough tier)
        pats += all_strings(PAT_ALPHA, 4 if tier == "thorough" else 3)
        # blocks: every name, bare / bracketed / nested / escaped contexts, prefixes, unknown, unterminated
        for b in BLOCKS:
            for ctx in ("\\p{Is%s}", "[\\p{Is%s}]", "[^\\p{Is%s}a]", "a\\p{Is%s}+$", "[a-[\\p{Is%s}]]", "\\P{Is%s}", "\\\\p{Is%s}",
                        "[\\\\]\\p{Is%s}", "\\[\\p{Is%s}", "[\\]\\p{Is%s}]", "\\p{Is%s}\\p{Is%s}", "[\\p{Is%s}\\p{Is%s}]", "^\\p{Is%s}[$]",
                        "\\p{Is%sX}", "\\p{Is%s", "\\p{Is%s}}", "[[\\p{Is%s}]"):
                pats.append(ctx.replace("%s", b))
            pats.append("\\p{Is%s}" % b[:-1])
            pats.append("\\p{Is%s}" % b.lower())
        for p in ("\\p{Is}", "\\p{Is", "\\p{IsFoo}", "\\p{L}", "\\p{Is}Greek}", "\\p{IsGre}ek}", "\\p{IsGreek}\\p{IsFoo}", "\\p{IsFoo}\\p{IsGreek}",
                  "\\p{IsGreek}\\p{Is", "a]\\p{IsGreek}", "\\p{IsGreek}]", "\\p{IsGreek}a]", "\\p{\\p{IsGreek}", "\\p{Is\\p{IsGreek}}"):
            pats.append(p)
        # bracket depth k selects table entry k (defect D2): covers every entry of the table incl. the long "Specials" one
        for k in range(0, 84):
            pats.append("[" * k + "\\p{IsBasicLatin}")
            pats.append("[" * k + "\\p{IsGreek}" + "]" * k)
        # random token strings (mostly not valid regular expressions)
        for _ in range(self.n(tier, 4000, 300000, scale)):
            k = rng.randint(1, 10)
            pats.append("".join(rng.choice(R_TOK) for _ in range(k)))
        # valid XSD patterns from the Match generators
        for _ in range(self.n(tier, 1000, 50000, scale)):
            pats.append(r_regexp(rng, 2, True)[0])
        L = []
        for p in pats:
            if "\x00" in p or ub_possible(p):
                continue
            L.append("rewrite\t" + hexs(p))
        return L


class RewriteUB:
    """the block rewrite must not index ublock2urange[] out of bounds (bracket counter wraps below zero after an
    escaped backslash, or exceeds the table): sanitizer build reports it"""
    name = "rewrite-ub"
    driver = "t_regex"
    extra_cflags = WRAP
    kinds = ["asan"]
    quick_sanitize = True

    def gen(self, rng, tier, scale=1.0):
        return ["rewrite\t" + hexs(p) for p in UB_PATTERNS]

    def judge(self, line, out):
        if out.startswith("CRASH") or out.startswith("TIMEOUT"):
            return ("re-block-oob", "pattern %r: %s" % (unhex(line.split("\t")[1]).decode("utf-8", "replace"), out))
        return None


PACK = 56       # strings per case line (driver limit: 64 fields)


def match_lines(pat, strs):
    L = []
    hp = hexs(pat)
    for i in range(0, len(strs), PACK):
        L.append("match\t" + hp + "\t" + "\t".join(hexs(s) for s in strs[i:i + PACK]))
    return L


class Match(_Regex):
    """C18 oracle: XSD reference (XsdParse.xsd_match) vs ly_pattern_match() and lyd_value_validate(); one case line =
    one pattern and up to 56 strings; answer per string = "<utility> <validator>", joined by ','"""
    name = "match"
    include_witnesses = True

    def gen(self, rng, tier, scale=1.0):
        L = []
        if self.include_witnesses:
            for p, s in WITNESSES:
                L += match_lines(p, [s])
        strs = all_strings(STR_ALPHA, 3)
        # exhaustive small patterns; quick: sizes 0..2 and a sample of size 3, restricted to patterns where PCRE2 and XSD
        # are expected to agree; thorough: sizes 0..3 and a sample of size 4, deviating patterns included
        if tier == "thorough":
            pats = [p for n in range(0, 4) for p in e_regexps(n)]
            big = e_regexps(4) if scale >= 1.0 else []
            pats += rng.sample(big, min(len(big), int(20000 * scale)))
        else:
            pats = [p for n in range(0, 3) for p in e_regexps(n)]
            three = e_regexps(3)
            pats += rng.sample(three, min(len(three), int(1500 * scale)))
            pats = [p for p in pats if not expected_dev(p)]
        seen = set()
        for p in pats:
            if p in seen:
                continue
            seen.add(p)
            L += match_lines(p, strs)
        # random larger patterns with members, near members and random strings
        for _ in range(self.n(tier, 1500, 100000, scale)):
            dev = tier == "thorough" and rng.random() < 0.3
            p, f = r_regexp(rng, 2, dev)
            if len(p) > 120 or "'" in p or (tier != "thorough" and (expected_dev(p) or ub_possible(p))):
                continue
            ss = set()
            for _ in range(6):
                try:
                    m = f(rng)
                except IndexError:
                    m = ""
                ss.add(m)
                ss.add(mutate_str(rng, m))
            for _ in range(4):
                ss.add("".join(rng.choice(R_STR) for _ in range(rng.randint(0, 5))))
            ss = [s for s in ss if "\r" not in s or "dot" not in features(p) or tier == "thorough"]
            L += match_lines(p, sorted(ss))
        return L

    def witness(self, line, model_out, impl_out):
        f = line.split("\t")
        pat = unhex(f[1]).decode("utf-8", "replace")
        m = model_out.split(",")
        o = impl_out.split(",")
        for i, h in enumerate(f[2:]):
            mi = m[i] if i < len(m) else "?"
            oi = o[i] if i < len(o) else "?"
            if mi != oi:
                s = unhex(h).decode("utf-8", "replace")
                tag = "re-block-oob" if ub_possible(pat) else ("re-match-limit" if "L" in oi else classify(pat, s))
                what = "XSD says %s, ly_pattern_match/lyd_value_validate say %s" % (mi, oi)
                if "X" in mi or "?" in mi:
                    return (None, "pattern %r string %r: outside the modelled XSD subset (generator or parser defect)" % (pat, s))
                if oi[:1] != oi[-1:]:
                    what += " (the two entry points disagree)"
                    tag = tag if tag == "re-block-oob" else None
                return (tag, "pattern %r string %r: %s" % (pat, s, what))
        return None


class MatchList(_Regex):
    """lyplg_type_validate_patterns() through lyd_value_validate() on a leaf with several patterns, some inverted,
    vs Rewrite.validate_patterns over the XSD matcher"""
    name = "matchlist"

    def gen(self, rng, tier, scale=1.0):
        L = []
        small = [p for n in range(0, 3) for p in e_regexps(n) if not expected_dev(p)]
        strs = all_strings(STR_ALPHA, 2)
        for _ in range(self.n(tier, 400, 20000, scale)):
            k = rng.choice([1, 1, 2, 2, 3, 4])
            ps = []
            for _ in range(k):
                p = rng.choice(small) if rng.random() < 0.7 else r_regexp(rng, 1, False)[0]
                if "'" in p or expected_dev(p) or ub_possible(p):
                    p = "a"
                ps.append("%d\t%s" % (rng.randrange(2), hexs(p)))
            for s in rng.sample(strs, 8):
                L.append("matchlist\t" + hexs(s) + "\t" + "\t".join(ps))
        for inv in (0, 1):
            for s in ("", "a", "b"):
                L.append("matchlist\t%s\t%d\t%s" % (hexs(s), inv, hexs("a")))
                L.append("matchlist\t%s\t%d\t%s\t%d\t%s" % (hexs(s), inv, hexs("a"), 1 - inv, hexs("a|b")))
        L.append("matchlist\t" + hexs("a"))
        return L
