"""C18 - pattern restrictions implement XML Schema regular expressions"""
from props import comps_regex as R

PID = "C18"
LEVEL = "proof"
ASAN_QUICK = False      # the sanitizer build is used by the RewriteUB oracle only (quick_sanitize), not by the T2 components


def components():
    # Match: the model side is the XSD reference, so a disagreement is a violation of the property itself; it goes
    # through Match.witness() -> tag of a listed known finding (printed as KNOWN-FINDING) or VIOLATION. Match stands first so
    # that, when a change of the rewrite breaks both, the violation is reported with a failing (pattern, string) pair
    return [R.Match(), R.Rewrite(), R.MatchList(), R.TypeSet()]


def oracles_():
    return [R.RewriteUB(), R.EntryPoints(), R.YangreModes()]


ASSUMPTIONS = [
    "PCRE2 (10.42, external, not modelled): for the text that Rewrite.rewrite produces and the options PCRE2_UTF|UCP|ANCHORED|"
    "ENDANCHORED|DOLLAR_ENDONLY|NO_AUTO_CAPTURE, pcre2_compile/pcre2_match accept exactly the strings of the XSD language of the "
    "original pattern, except on the constructs listed as known findings. This is NOT proved; it is compared on every generated "
    "(pattern, string) pair with the proved XSD reference matcher (component Match).",
    "the XSD reference knows general categories, \\w, \\d, \\i, \\c exactly for U+0000..U+00FF only (Xsd.v); blocks, literals, "
    "the wildcard and \\s are exact for all code points. Patterns that use categories are compared on Latin-1 strings only.",
    "patterns are C strings without a NUL byte; the size_t bracket counter of the block rewrite is modelled as an integer "
    "tested against 0 (its magnitude is bounded by the pattern length, far below 2^64); PCRE2_ENDANCHORED is defined (no "
    "trailing '$' is appended).",
    "XSD 1.0 regular expressions (RFC 7950 refers to XSD-TYPES 2004): \\$ is not an XSD escape and is outside the reference "
    "(libyang hands it to PCRE2 unchanged; C18_rewrite_caret_dollar covers the text only).",
    "pattern-set and typedef-chain theorems: compiling a pattern expression to a matcher is abstract (any code_match), the "
    "matcher is assumed not to fail on the value (else the error is passed on, C18_invert_match_error), the value's length is "
    "its number of characters as ly_utf8len counts them, and the compile-time check that a derived length restricts its base is "
    "not modelled (the generators nest the lengths).",
]

TRUSTED = [
    "coq/XsdParse.v: the reading of the XSD concrete syntax into the AST of Xsd.v (project's reading of XSD part 2 appendix F), "
    "coq/Xsd.v tables of blocks and Latin-1 categories (transcribed by script)",
    "PCRE2 10.42 as linked, and the --wrap=pcre2_compile_8 interposer of impl/t_regex.c that records the rewritten text",
    "impl/t_regex.c: builds the YANG modules (typedef chains, union, list key), computes the expected conjunction of "
    "single-pattern ly_pattern_match() answers and the length test itself, writes yangre's input files",
    "the yangre binary built from the tree under check (run as a process by the EntryPoints oracle and by impl/t_regex.c for "
    "YangreModes)",
]

MANIFEST = {
    "text": "Coq theorems (Properties_C18_regex.v, all closed under the global context). (1) Reference: the XSD matcher "
            "(Brzozowski derivatives with quantifier counters, class negation and subtraction) accepts exactly the denotational "
            "language, for every regular expression AST and string (C18_match_correct). (2) The textual rewrite libyang applies "
            "before PCRE2, a model transcribed from lys_compile_type_pattern_check() and "
            "lys_compile_pattern_chblocks_xmlschema2perl(), for patterns as byte strings without NUL: for EVERY pattern it ends with "
            "a text or one of the code's three errors - no undefined-behaviour class, the model's fuel never runs out "
            "(C18_rewrite_total, C18_rewrite_no_ub); a pattern without \\p{Is is handed over unchanged (or rejected for a stray ']') "
            "if, and when unchanged only if, every ^/$ in it stands inside brackets or after an unescaped backslash "
            "(C18_rewrite_identity, corollary C18_rewrite_identity_noanchor); for patterns WITHOUT \\p{Is built from ordinary bytes, "
            "escape pairs of any byte, flat bracket expressions and unescaped ^/$, exactly one backslash is inserted before each "
            "unescaped ^/$ outside brackets and nothing else changes (C18_rewrite_caret_dollar); for a pattern with ONE block "
            "\\p{IsNAME}, NAME one of the 78 table names the code's prefix lookup resolves to itself (C18_block_lookup: 84 entries, six "
            "shadowed), not preceded by half an escape pair, the block is replaced by NAME's replacement text, with or without its "
            "own brackets as the code's bracket counter says (C18_rewrite_block), which is 'outside / inside brackets' when no "
            "escaped backslash precedes (C18_rewrite_block_depth); on every pattern without two backslashes in a row whose blocks "
            "are all such names followed by '}' with a 19-byte replacement (not Specials) the rewrite EQUALS the intended one, "
            "rewrite_spec (C18_rewrite_eq_spec). Refutations, by computed witnesses: the three defects still in the code "
            "(C18_block_prefix_refuted, C18_block_specials_refuted, C18_block_depth_refuted) and two variant models that transcribe "
            "seeded changes (C18_prev_byte_variant_refuted, C18_carried_depth_variant_refuted). (3) Pattern lists, over an ABSTRACT "
            "matcher that does not fail on the value: lyplg_type_validate_patterns() accepts iff every pattern's match XOR its "
            "inverted flag holds, a matcher error is passed on (C18_invert_match, C18_invert_match_error); with "
            "lys_compile_type_patterns() and the string case of lys_compile_type_() transcribed, a typedef chain checks the patterns "
            "of ALL levels, each with its own flag, and the last length stated, whichever levels have patterns, a length, both or "
            "nothing (C18_invert_match_chain, C18_typeset_chain, C18_typeset_validate). Examples (C18_*_ex, C18_escaped_anchor_ex) "
            "show the hypotheses are satisfiable and keep the inputs of the fixed defects 97840a6 and 0ef0929 as regressions. "
            "Tie (T2, extracted model vs C on the same generated cases): the text reaching pcre2_compile(), byte for byte (Rewrite); "
            "ly_pattern_match() and lyd_value_validate() vs the XSD reference on patterns generated from the XSD grammar - "
            "exhaustive up to a small size bound over a small alphabet plus random larger ones (Match); pattern lists with "
            "invert-match (MatchList); typedef chains of 1-4 levels with patterns and/or length per level, validated on leaf, "
            "leaf-list, union member, list key, typedef and typedef of typedef, plus the conjunction of single-pattern answers "
            "(TypeSet). Oracles: ly_pattern_match, validator, XPath re-match() and yangre agree (EntryPoints; yangre on a sample); "
            "yangre -p and -f (LF, CRLF, no final line end) vs the library (YangreModes); ASan/UBSan on the former out-of-bounds "
            "inputs of the block rewrite (RewriteUB).",
    "note": "Proved: the reference semantics, the rewrite model, the pattern-list / typedef-chain logic. NOT proved, only tied by "
            "running both sides: that PCRE2 gives the rewritten text the XSD meaning (PCRE2 is external; no PCRE semantics in Coq), "
            "so 'libyang accepts s for p iff s is in the XSD language of p' holds only as far as Match explored it, minus the 16 "
            "known findings of known_findings.d/regex.json (\\w on '_' and on symbols/marks; \\i \\I \\c \\C; class subtraction; "
            "POSIX-like brackets; \\P{IsX}; the six shadowed block names; Specials; the bracket counter after an escaped backslash; "
            "'.' and CR; \\s under UCP; PCRE2's match limit refusing non-members with an internal error and, on ambiguous counted "
            "quantifiers, members) - genuine deviations from XSD, each replayed from its witness on every run. Fixed and kept as "
            "regression cases: re-escaped-anchor (97840a6), re-block-index / out-of-bounds index (0ef0929), the two yangre -f "
            "line-ending defects (5322449). Modelled (transcribed by hand, tied by T2): the two rewrite functions, "
            "lyplg_type_validate_patterns(), the array construction of lys_compile_type_patterns(), length/pattern inheritance of the "
            "string case of lys_compile_type_() and the length-before-patterns order of the string store. Oracle-level only: XPath "
            "re-match() (xpath_re_match), yangre (tools/re/main.c), the union / list-key / leaf-list paths. Outside everything: "
            "PCRE2 itself, ly_pattern_code_match(), error messages and app-tags, YIN/YANG quoting of pattern arguments, builds "
            "without PCRE2_ENDANCHORED; the XSD reference knows categories, \\w \\d \\i \\c exactly for U+0000..U+00FF only, \\$ is "
            "outside it (XSD 1.0).",
    "technique": "Coq proof (reference matcher vs denotational semantics; rewrite model theorems) + differential correspondence "
                 "(extracted OCaml vs C, rewritten text and match answers) + entry-point agreement and sanitizer oracles",
}
