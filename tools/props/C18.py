"""C18 - pattern restrictions implement XML Schema regular expressions"""
from props import comps_regex as R

PID = "C18"
LEVEL = "proof"
ASAN_QUICK = False      # the sanitizer build is used by the RewriteUB oracle only (quick_sanitize), not by the T2 components


def components():
    # Match: the model side is the XSD reference, so a disagreement is a violation of the property itself; it goes
    # through Match.witness() -> tag of a listed known finding (printed as KNOWN-FINDING) or VIOLATION. Match stands first so
    # that, when a change of the rewrite breaks both, the violation is reported with a failing (pattern, string) pair
    return [R.Match(), R.Rewrite(), R.MatchList(), R.TypeSet()]


def oracles_():
    return [R.RewriteUB(), R.EntryPoints(), R.YangreModes()]


ASSUMPTIONS = [
    "PCRE2 (10.42, external, not modelled): for the text that Rewrite.rewrite produces and the options PCRE2_UTF|UCP|ANCHORED|"
    "ENDANCHORED|DOLLAR_ENDONLY|NO_AUTO_CAPTURE, pcre2_compile/pcre2_match accept exactly the strings of the XSD language of the "
    "original pattern, except on the constructs listed as known findings. This is NOT proved; it is compared on every generated "
    "(pattern, string) pair with the proved XSD reference matcher (component Match).",
    "the XSD reference knows general categories, \\w, \\d, \\i, \\c exactly for U+0000..U+00FF only (Xsd.v); blocks, literals, "
    "the wildcard and \\s are exact for all code points. Patterns that use categories are compared on Latin-1 strings only.",
    "patterns are C strings without a NUL byte; the size_t bracket counter of the block rewrite is modelled as an integer "
    "tested against 0 (its magnitude is bounded by the pattern length, far below 2^64).",
    "XSD 1.0 regular expressions (RFC 7950 refers to XSD-TYPES 2004): \\$ is not an XSD escape and is outside the reference "
    "(libyang hands it to PCRE2 unchanged, theorem C18_rewrite_caret_dollar covers the text).",
]

TRUSTED = [
    "coq/XsdParse.v: the reading of the XSD concrete syntax into the AST of Xsd.v (project's reading of XSD part 2 appendix F), "
    "coq/Xsd.v tables of blocks and Latin-1 categories (transcribed by script)",
    "PCRE2 10.42 as linked, and the --wrap=pcre2_compile_8 interposer of impl/t_regex.c that records the rewritten text",
    "the yangre binary built from the tree under check (run as a process by the EntryPoints oracle)",
]

MANIFEST = {
    "text": "Coq theorems (Properties_C18_regex.v, all closed under the global context): (1) the XSD reference matcher "
            "(Brzozowski derivatives with quantifier counters, class negation and subtraction) accepts exactly the denotational "
            "language of every regular expression (C18_match_correct); (2) about the textual rewrite libyang applies before "
            "PCRE2, transcribed from lys_compile_type_pattern_check() and lys_compile_pattern_chblocks_xmlschema2perl(): it ends "
            "for every pattern with a text or one of the three errors of the code - no undefined behaviour, no fuel "
            "(C18_rewrite_total, C18_rewrite_no_ub); a pattern without blocks is handed over unchanged iff every ^/$ in it stands "
            "inside brackets or is escaped (C18_rewrite_identity, any byte string); on every pattern made of ordinary bytes, escape pairs of any byte, bracket "
            "expressions and unescaped ^/$ it inserts exactly one backslash before each unescaped ^/$ outside brackets and changes "
            "nothing else (C18_rewrite_caret_dollar); a block \\p{IsNAME} is replaced by the range of NAME, with the range's own "
            "brackets iff it stands outside brackets (C18_rewrite_block, C18_rewrite_block_depth, C18_block_lookup); on every "
            "pattern without an escaped backslash whose block names are exact it IS the intended rewrite (C18_rewrite_eq_spec), and "
            "it is not on the witnesses of the three remaining rewrite defects (C18_block_prefix_refuted, C18_block_specials_refuted, "
            "C18_block_depth_refuted; the seeded regression classes C18-1 and C18-4 as refutations of variant models, "
            "C18_prev_byte_variant_refuted, C18_carried_depth_variant_refuted); (3) list evaluation with invert-match accepts iff every pattern's match XOR inverted holds "
            "(C18_invert_match), also when the patterns are spread over a typedef chain with invert-match at any level "
            "(C18_invert_match_chain over the transcription of lys_compile_type_patterns(): inherited patterns first, each new "
            "pattern with its own flag), and when levels of the chain restate length with or without patterns: the patterns "
            "checked at the node are those of all levels and the length is the last one stated (C18_typeset_chain, "
            "C18_typeset_validate over the transcription of the string case of lys_compile_type_()). Tie: the rewritten text is captured at pcre2_compile() and compared byte for byte with the model "
            "(Rewrite); the answers of ly_pattern_match/lyd_value_validate are compared with the XSD reference on patterns generated "
            "from the XSD grammar, exhaustively for small sizes over a small alphabet (Match); pattern lists with invert-match "
            "(MatchList) and pattern sets over typedef chains of 1-4 levels (each level: nothing, patterns, a length statement, or both) as seen by the validator on a leaf, leaf-list, union "
            "member, list key, typedef and typedef of typedef, together with the conjunction of the single-pattern answers of "
            "ly_pattern_match() (TypeSet); the four entry points agree (EntryPoints oracle, incl. XPath re-match() and the yangre process).",
    "note": "Proved: the reference semantics and the rewrite. NOT proved, only tied by running both: that PCRE2 gives the rewritten "
            "text the XSD meaning (PCRE2 is external). So 'libyang accepts s for p iff s is in the XSD language of p' holds as far "
            "as the Match comparison explored it, minus the listed known findings (known_findings.d/regex.json: \\w, \\i \\c \\I \\C, "
            "class subtraction, POSIX-like brackets, \\P{IsX}, six shadowed block names, Specials, the bracket counter after an "
            "escaped backslash, '.' and CR, \\s under UCP) - these are genuine deviations of libyang from XSD, each replayed from its "
            "witness on every run. yangre is run for a quarter of the EntryPoints cases (one process per pair); ASan/UBSan runs "
            "the former out-of-bounds inputs of the block rewrite (RewriteUB). The YangreModes oracle runs the yangre binary of the "
            "same build (vlib builds the library with ENABLE_TOOLS=ON; impl/t_regex.c finds it as ../yangre) in command-line mode "
            "and in file mode (LF, CRLF, no final line end) on pattern sets with invert-match and strings with blanks, tabs, CR, "
            "non-ASCII and the empty string; the two defects of the file parser found this way are fixed (5322449) and stay as regression cases. The "
            "compile step from a pattern expression to a PCRE2 code is abstract in the pattern-set theorem (oracle-level tie).",
    "technique": "Coq proof (reference matcher vs denotational semantics; rewrite model theorems) + differential correspondence "
                 "(extracted OCaml vs C, rewritten text and match answers) + entry-point agreement and sanitizer oracles",
}
