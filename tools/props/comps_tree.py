"""comps_tree.py - T2 component of the Tree.v foundation (slice `tree`).

TreeIO: generated module + valid instance -> libyang (impl/lyx.c) parses the XML with validation and dumps the tree ->
the extracted model reads that dump with the schema line of tools/treeenc.py, checks canonb / uniq_idsb / schema_okb,
re-inserts every node (children first) with insert_node in a shuffled order and must get the same forest, and prints the
forest back: byte for byte libyang's dump.

The model needs libyang's dump as INPUT, so a case is built in two stages: gen() runs the lyx script once (stage 1, on the
build of the CURRENT tree) to obtain the dump and stores it in the case line as a pseudo command (#d ...; lyx answers ?cmd
to it); the T2 run then executes the same script again on the implementation and the model on the pseudo commands."""
import os

import treeenc
import vlib
import yanggen
from lyxlib import Script, results, rc
from props.comps import Comp
from props.oracles import gen_case


def stage1(lines, kind="rel"):
    """run lyx scripts on the implementation of the current tree; returns the answer lines"""
    exe = vlib.build_driver("lyx", kind)
    env = dict(os.environ)
    outs, _ = vlib.run_sharded(exe, lines, timeout=600, env=env)
    return outs


def tree_case(rng, **kw):
    """(module, instance generator) restricted to what Tree.v models"""
    kw.setdefault("key_filter", treeenc.key_type_ok)
    for _ in range(50):
        m, ig = gen_case(rng, **kw)
        if treeenc.supported(m):
            return m, ig
    raise RuntimeError("no supported module generated")


def pseudo(tag, text):
    return "#%s %s" % (tag, text)


class TreeIO(Comp):
    """lyx dump <-> Tree.v: parse, canonb, shuffled re-insertion, print (foundation round trip)"""
    name = "treeio"
    driver = "lyx"
    slice = "tree"

    def gen(self, rng, tier, scale=1.0):
        pre = []
        for i in range(self.n(tier, 600, 8000, scale)):
            m, ig = tree_case(rng, userord=(i % 2 == 0), state=(i % 3 != 1), meta_prob=0.05 if i % 2 else 0.0)
            ig.max_inst = 6 if i % 4 == 0 else 4
            f = ig.forest(m)
            s = Script()
            s.ctx()
            s.mod(m.yang())
            s.parse(0, "x" if i % 5 else "j", yanggen.to_xml(f) if i % 5 else yanggen.to_json(f))
            s.dump(0)
            pre.append((m, s, rng.randrange(1, 1 << 30)))
        outs = stage1([s.line() for _, s, _ in pre])
        L = []
        for (m, s, seed), out in zip(pre, outs):
            r = results(out)
            if len(r) < 5 or r[1] != "0" or rc(r[2]) != 0:
                continue                    # module or instance rejected: not a case for this component
            cmds = [pseudo("s", treeenc.schema_line(m)), pseudo("n", treeenc.name_table(m)), pseudo("d", r[3]),
                    pseudo("p", seed)] + s.cmds
            L.append("treeio\t" + "\t".join(cmds))
        return L

    def norm(self, line, out):
        if " | end:" in out:              # implementation: keep the dump
            r = results(out)
            return "C=1 U=1 K=1 R=1 " + r[-2]
        return out
